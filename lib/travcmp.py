"""Comparison of real traversal outcomes with the states printed by Traversal.tla.

A spec state says: status (ok/rejected), result type, mark types, the untruncated rows
tagged with origins, the open choices (`blocks`: take exactly `pick` origins out of each
block) and whether a count() was applied.  A real outcome is accepted iff it is the
multiset selected by SOME admissible choice."""
import itertools, json
from collections import Counter


def norm(x):
    """normalise JSON: integral floats -> int, TLC's [] for empty map under an "m" tag -> {}"""
    if isinstance(x, float) and x == int(x):
        return int(x)
    if isinstance(x, list):
        if len(x) == 2 and x[0] == "m" and isinstance(x[1], list):
            return ["m", {}]
        return [norm(y) for y in x]
    if isinstance(x, dict):
        return {k: norm(v) for k, v in x.items()}
    return x


def canon_row(o):
    o = norm(o)
    if isinstance(o, dict) and o.get("k") == "p":
        p = []
        for e in o.get("p", []):
            if isinstance(e, dict):
                if "vertex" in e:
                    p.append(["v", e["vertex"]])
                elif "edge" in e:
                    p.append(["e", e["edge"]])
                else:
                    p.append(["?", ""])
            else:
                p.append(e)
        o = dict(k="p", p=p)
    if isinstance(o, dict) and o.get("k") == "s" and isinstance(o.get("m"), list):
        o = dict(k="s", m={})
    return json.dumps(o, sort_keys=True, separators=(",", ":"))


def selections(blocks):
    """all admissible origin selections (as frozensets); blocks = [{orgs:[..], pick:n}]"""
    per_block = []
    for b in blocks:
        lo = b.get("pmin", b["pick"])
        opts = []
        for k in range(lo, b["pick"] + 1):
            opts += list(itertools.combinations(sorted(b["orgs"]), k))
        per_block.append(opts)
    for combo in itertools.product(*per_block):
        yield frozenset(itertools.chain.from_iterable(combo))


def allowed(state, real_rows, max_sel=200000):
    """-> (ok, kind) ; kind describes the difference when not ok"""
    rows = state["rows"]
    blocks = state.get("blocks") or []
    real = Counter(canon_row(r) for r in real_rows)
    cache = state.get("_cache")
    if cache is None:
        by_org = {}
        for r in rows:
            by_org.setdefault(r["org"], Counter())[canon_row(r["o"])] += 1
        exp_all = Counter()
        for c in by_org.values():
            exp_all.update(c)
        cache = state["_cache"] = (by_org, exp_all)
    by_org, exp_all = cache
    if state.get("counted"):
        keep = state.get("cntKeep", 1)
        if keep == 0:
            return (len(real_rows) == 0, "count-row-not-truncated")
        if len(real_rows) != 1 or real_rows[0].get("k") != "c":
            return (False, "count-row-shape")
        n = real_rows[0].get("n")
        if not blocks:
            return (n == len(rows), "count-value")
        sizes = {o: sum(c.values()) for o, c in by_org.items()}
        for sel in selections(blocks):
            if sum(sizes.get(o, 0) for o in sel) == n:
                return (True, "")
        return (False, "count-value")
    if not blocks:
        exp = exp_all
        if exp == real:
            return (True, "")
        return (False, diff_kind(exp, real))
    nsel = 0
    best = None
    for sel in selections(blocks):
        nsel += 1
        if nsel > max_sel:
            return (True, "selection-space-too-large")
        exp = Counter()
        for o in sel:
            exp.update(by_org.get(o, Counter()))
        if exp == real:
            return (True, "")
        if best is None:
            best = exp
    # classify against the arithmetic count first
    sizes = {o: sum(c.values()) for o, c in by_org.items()}
    counts = {sum(sizes.get(o, 0) for o in sel) for sel in itertools.islice(selections(blocks), 5000)}
    if sum(real.values()) not in counts:
        return (False, "truncated-count")
    return (False, "truncated-rows-not-a-submultiset")


def diff_kind(exp, real):
    missing = exp - real
    extra = real - exp
    if missing and not extra:
        return "rows-missing"
    if extra and not missing:
        # duplicates of expected rows or foreign rows?
        if all(k in exp for k in extra):
            return "rows-duplicated"
        return "rows-extra"
    # same identities but different payload?
    def ident(s):
        o = json.loads(s)
        return (o.get("k"), o.get("gid")) if isinstance(o, dict) else None
    mi = Counter(ident(k) for k in missing.elements())
    ei = Counter(ident(k) for k in extra.elements())
    if mi == ei:
        return "rows-wrong-content"
    return "rows-differ"


def check_outcome(state, out):
    """Compare one real outcome (dict with err/rows/type/marks/panic or crash/hang) with a spec state.
    -> list of (kind, detail)"""
    res = []
    if out is None:
        return [("no-outcome", "")]
    if out.get("panic"):
        res.append(("panic", out["panic"][:100]))
        return res
    if state["status"] == "rejected":
        if not out.get("err"):
            res.append(("ill-typed-not-rejected", ""))
        elif out.get("rows"):
            res.append(("rows-before-rejection", ""))
        return res
    if out.get("err"):
        return [("well-typed-rejected", out["err"][:100])]
    if out.get("type") != state["ty"]:
        res.append(("result-type", "%s vs %s" % (out.get("type"), state["ty"])))
    mt = state.get("mt") or {}
    if isinstance(mt, list):
        mt = {}
    if (out.get("marks") or {}) != mt:
        res.append(("mark-types", "%s vs %s" % (out.get("marks"), mt)))
    ok, kind = allowed(state, out.get("rows") or [])
    if not ok:
        res.append((kind, ""))
    return res


def ops(prog):
    return ">".join(s["op"] for s in prog)
