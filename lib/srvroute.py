"""ServerRouting.tla (spec/store): the graph namespace of one GripServer - drivers, routing table, configured
routes, schema graphs, schema cache - model-checked and replayed on a real in-process server with two kvgraph
drivers (harness/srvroute).  Used by C03: what the replay finds about the graphs clients create (g1 on the
default driver, h1 on the configured one, g3 that never exists) - existence, listing, content, isolation, rejected
calls changing nothing - is C03; what it finds about the schema graphs and the schema cache, which no listed
property speaks about, is reported as MODEL-DRIFT in the evidence file and never as a violation."""
import json, os
from vlib import Inconclusive

SCHEMA_SUFFIX = "__schema__"


def is_schema(n):
    return n.endswith(SCHEMA_SUFFIX)


def fn(x):
    """TLC prints an empty function as []"""
    return x if isinstance(x, dict) else {}


def norm_spec_obs(o):
    graphs = {}
    for n, v in fn(o["graphs"]).items():
        if v[0] == "absent":
            graphs[n] = "absent"
        else:
            graphs[n] = dict(V=fn(v[1]["V"]), E={k: list(e) for k, e in fn(v[1]["E"]).items()})
    return dict(listed=sorted(o["listed"]), graphs=graphs, schema=fn(o["schema"]))


def norm_real_obs(o):
    graphs = {}
    for n, v in o["graphs"].items():
        graphs[n] = v if v == "absent" else dict(V=v["V"], E=v["E"])
    return dict(listed=sorted(o["listed"]), graphs=graphs, schema=o["schema"])


def call_names(c):
    if c["op"] == "BulkAdd":
        return {e["g"] for e in c["elems"]}
    return {c["g"]}


def res_differs(spec, real):
    if spec == "any":
        return False
    if isinstance(spec, list):      # <<"counts", inserted, errors>>
        return not (real.get("res") == "counts" and real.get("insert") == spec[1] and real.get("errors") == spec[2])
    return real.get("res") != spec


def run(ctx):
    quick = ctx.tier == "quick"
    # 1. the model: properties of the routing design, both start-up modes, and the named deviations
    for cfg in (("ServerRouting_mc.cfg",) if quick else ("ServerRouting_mc.cfg", "ServerRouting_mc0.cfg")):
        ctx.tlc("store", "ServerRouting", cfg, timeout=1500, workers=8, label="server routing: OneHome, RouteHome, Listed, "
                "SchemaGraphProtected, Isolation, RejectedNoEffect, CascadeDefault")
    deviations = {}
    for cfg, name in (("ServerRouting_devcascade.cfg", "CascadeWrongDriver"), ("ServerRouting_devcache.cfg", "StaleSchemaCache")):
        r = ctx.tlc("store", "ServerRouting", cfg, timeout=900, workers=4, expect_violation=True, count=False,
                    label="named deviation %s: TLC is expected to find the counterexample" % name)
        deviations[name] = dict(model_counterexample=bool(r.violation), reproduced_on_server=0)
        if not r.violation:
            raise Inconclusive("ServerRouting.tla no longer exhibits the named deviation %s" % name)
    # 2. histories
    plan = [("ServerRouting_h2.cfg", None, None), ("ServerRouting_h2u.cfg", None, None), ("ServerRouting_sim.cfg", "num=30" if quick else "num=150", 12)]
    if not quick:
        plan.append(("ServerRouting_h3.cfg", None, None))
    cases, seen, keep = [], set(), 0
    for cfg, sim, depth in sorted(plan, key=lambda x: x[1] is None):     # the random walks first: they are never sampled away
        r = ctx.tlc("store", "ServerRouting", cfg, simulate=sim, depth=depth, timeout=1500, workers=8, count=False, label="server routing histories")
        for m in r.msgs.get("rhist", []):
            k = json.dumps([m["started"]] + [x["call"] for x in m["hist"]], sort_keys=True)
            if k not in seen:
                seen.add(k)
                cases.append(m)
        if sim:
            keep = len(cases)
    if not cases:
        raise Inconclusive("ServerRouting.tla emitted no histories")
    cap = 1800 if quick else 12000
    if len(cases) > cap:
        ctx.notes.append("%d server-routing histories generated, a seeded sample of %d replayed" % (len(cases), cap))
        cases = cases[:keep] + [cases[i] for i in sorted(ctx.rng.sample(range(keep, len(cases)), max(0, cap - keep)))]
    # 3. replay
    lines = [dict(i=i, started=bool(c["started"]), hist=[dict(call=x["call"]) for x in c["hist"]]) for i, c in enumerate(cases)]
    inp = ctx.write_ndjson("srvroute_in.ndjson", lines)
    outp = os.path.join(ctx.scratch, "srvroute_out.ndjson")
    ctx.harness(["srvroute", "-j", "12", "-timeout", "120s"], input_path=inp, output_path=outp, timeout=3600)
    outs = {o["i"]: o for o in ctx.read_ndjson(outp) if "i" in o}
    if len(outs) != len(cases):
        raise Inconclusive("srvroute harness answered %d of %d histories" % (len(outs), len(cases)))
    nsteps, drift = 0, {}
    for i, c in enumerate(cases):
        o = outs[i]
        calls = [x["call"] for x in c["hist"]]
        for bad in ("crash", "hang"):
            if bad in o:
                ctx.diverge("server routing %s: %s" % (bad, str(o[bad])[:80]), "the server %s while replaying a history" % bad,
                            dict(started=c["started"], history=calls, outcome={k: o[k] for k in o if k != "steps"}))
        if "fail" in o:
            raise Inconclusive("srvroute harness: %s" % o["fail"])
        for n, (st, real) in enumerate(zip(c["hist"], o.get("steps") or [])):
            nsteps += 1
            call = st["call"]
            want, got = norm_spec_obs(st["obs"]), norm_real_obs(real["obs"])
            notes = [v.get("note") for v in real["obs"]["graphs"].values() if isinstance(v, dict) and v.get("note")]
            rd = res_differs(st["res"], real)
            names = {g for g in set(want["graphs"]) | set(got["graphs"]) if want["graphs"].get(g) != got["graphs"].get(g)}
            lnames = set(want["listed"]) ^ set(got["listed"])
            sdiff = want["schema"] != got["schema"]
            hdiff = {g for g, ds in fn(st["obs"]["homes"]).items() if sorted(ds) != sorted(real["obs"]["homes"].get(g) or [])}
            if hdiff and not (rd or names or lnames or sdiff or notes):
                # the clients see what the model says, but a graph is held by another driver than the routing of the model
                # puts it in: conformance of the implementation-shaped model, no clause of a property
                k = "%s: graph held by another driver" % call["op"]
                drift.setdefault(k, dict(occurrences=0, example=dict(started=c["started"], history=calls[: n + 1],
                                 specified={g: st["obs"]["homes"][g] for g in hdiff}, observed={g: real["obs"]["homes"].get(g) for g in hdiff})))["occurrences"] += 1
                break
            if not (rd or names or lnames or sdiff or notes):
                # a named deviation that the real server shows exactly as the model predicts
                if call["op"] == "DeleteGraph" and want["graphs"].get(call["g"] + SCHEMA_SUFFIX, "absent") != "absent":
                    deviations["CascadeWrongDriver"]["reproduced_on_server"] += 1
                if any(v != "notfound" and want["graphs"].get(g + SCHEMA_SUFFIX) == "absent" for g, v in want["schema"].items()):
                    deviations["StaleSchemaCache"]["reproduced_on_server"] += 1
                continue
            replay = dict(started=c["started"], history=calls[: n + 1], specified=dict(res=st["res"], obs=want),
                          observed=dict(res={k: real[k] for k in real if k != "obs"}, obs=got, notes=notes))
            base_names = {g for g in names | lnames if not is_schema(g)}
            addressed_base = any(not is_schema(g) for g in call_names(call)) and call["op"] != "AddSchema"
            # the counts a bulk load reports are C18's clause, not C03's: alone they are drift here
            if base_names or notes or (rd and addressed_base and call["op"] != "BulkAdd"):
                if notes:
                    kind = "listings and lookups of one graph disagree"
                elif rd and not base_names:
                    kind = "result of the call (%s specified)" % (st["res"] if isinstance(st["res"], str) else "counts")
                elif lnames - {g for g in lnames if is_schema(g)} and not (names - lnames):
                    kind = "graph listing"
                else:
                    touched = call_names(call)
                    kind = "a graph the call does not name changed" if (base_names - touched) else "state of the addressed graph"
                ctx.diverge("server routing %s: %s" % (call["op"], kind),
                            "after call %d of a history on a server with two drivers the graphs clients see differ from ServerRouting.tla" % (n + 1), replay)
            else:
                what = "schema cache" if sdiff and not (names or lnames) else "schema graph"
                k = "%s: %s" % (call["op"], what)
                drift.setdefault(k, dict(occurrences=0, example=replay))["occurrences"] += 1
            break   # the states have parted: the rest of this history says nothing more
    for name, d in deviations.items():
        if d["reproduced_on_server"] == 0:
            ctx.notes.append("named deviation %s of ServerRouting.tla was not exercised by the replayed histories" % name)
    ctx.cov["server_routing"] = dict(histories=len(cases), steps=nsteps, named_deviations=deviations,
                                     model_drift={k: v for k, v in sorted(drift.items())})
    if drift:
        ctx.notes.append("MODEL-DRIFT (not a violation): the real server's schema graphs / schema cache differ from ServerRouting.tla: %s"
                         % ", ".join("%s x%d" % (k, v["occurrences"]) for k, v in sorted(drift.items())))
    return nsteps, len(cases)
