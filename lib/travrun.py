"""Runs a Traversal.tla configuration through TLC and replays every state on the real engine."""
import json, os
from vlib import Inconclusive
import travcmp


def gen_states(ctx, cfg, simulate=None, depth=None, timeout=900, module="Traversal", family="traversal"):
    res = ctx.tlc(family, module, cfg, timeout=timeout, simulate=simulate, depth=depth)
    graphs = res.msgs["graphs"][0]
    states = res.msgs.get("st", [])
    if not states:
        raise Inconclusive("TLC emitted no states for %s" % cfg)
    # de-duplicate (simulation revisits states)
    seen, uniq = set(), []
    for s in states:
        k = json.dumps([s["g"], s["prog"]], sort_keys=True)
        if k not in seen:
            seen.add(k)
            uniq.append(s)
    return graphs, uniq


def is_heavy(s):
    """distinct() opens a temporary Badger store per run (~120 ms and ~40 MB each)"""
    return any(st["op"] in ("distinct",) for st in s["prog"])


def thin(ctx, states, heavy_cap):
    """Bound the number of distinct()-bearing states (each costs a temporary Badger store):
    all of them up to length 2, a seeded sample of the longer ones."""
    if heavy_cap is None:
        return states
    heavy = [i for i, s in enumerate(states) if is_heavy(s)]
    must = [i for i in heavy if len(states[i]["prog"]) <= 2]
    rest = [i for i in heavy if len(states[i]["prog"]) > 2]
    ctx.rng.shuffle(rest)
    ctx.rng.shuffle(must)
    must = must[: max(1, (2 * heavy_cap) // 3)]
    keep = set(must) | set(rest[: max(0, heavy_cap - len(must))])
    drop = set(heavy) - keep
    if drop:
        ctx.notes.append("%d of %d distinct()-bearing states replayed (cost cap of this tier)" % (len(keep), len(heavy)))
    return [s for i, s in enumerate(states) if i not in drop]


def replay(ctx, graphs, states, only="", jobs=12, timeout=1500, tag="trav", driver="badger"):
    outs = {}
    parts = [("l", [i for i, s in enumerate(states) if not is_heavy(s)], jobs),
             ("h", [i for i, s in enumerate(states) if is_heavy(s)], 6)]
    for suffix, idxs, j in parts:
        if not idxs:
            continue
        lines = [dict(setup=True, graphs=graphs, driver=driver)]
        for i in idxs:
            s = states[i]
            d = dict(i=i, g=s["g"], prog=s["prog"])
            if only:
                d["only"] = only
            lines.append(d)
        inp = ctx.write_ndjson("%s%s_in.ndjson" % (tag, suffix), lines)
        outp = os.path.join(ctx.scratch, "%s%s_out.ndjson" % (tag, suffix))
        ctx.harness(["trav", "-j", str(j)], input_path=inp, output_path=outp, timeout=timeout)
        ctx.log("replayed %d %s states (%s)" % (len(idxs), "distinct()-bearing" if suffix == "h" else "light", only or "all variants"))
        outs.update({o["i"]: o for o in ctx.read_ndjson(outp) if "i" in o})
    if len(outs) != len(states):
        raise Inconclusive("harness answered %d of %d states" % (len(outs), len(states)))
    return outs


def failures(states, outs, variant):
    """-> dict state index -> list of (kind, detail) for one pipeline variant"""
    bad = {}
    for i, s in enumerate(states):
        o = outs[i]
        if "crash" in o or "hang" in o:
            k = "crash" if "crash" in o else "hang"
            bad[i] = [(k, o[k])]
            continue
        if "wire_err" in o or "harness_err" in o:
            bad[i] = [("harness", o.get("wire_err") or o.get("harness_err"))]
            continue
        r = travcmp.check_outcome(s, o.get(variant))
        if r:
            bad[i] = r
    return bad


def minimal(states, bad):
    """keep only failing states none of whose proper prefixes (same graph) fails"""
    key = lambda s, n: json.dumps([s["g"], s["prog"][:n]], sort_keys=True)
    failing = {key(states[i], len(states[i]["prog"])) for i in bad}
    out = {}
    for i in bad:
        s = states[i]
        if any(key(s, n) in failing for n in range(1, len(s["prog"]))):
            continue
        out[i] = bad[i]
    return out
