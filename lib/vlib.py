"""Shared machinery for the /verif checks: TLC runner, harness builder/runner,
divergence collection, known-findings protocol, evidence writer.

Exit codes of a check: 0 = property held on everything explored (known findings
are printed as KNOWN-FINDING lines), 1 = VIOLATION (reproduced on the real code),
2 = inconclusive (tool failure, timeout, build error) - never a violation.
"""
import json, os, re, shutil, subprocess, sys, tempfile, time, hashlib, random

VERIF = os.path.dirname(os.path.dirname(os.path.abspath(__file__)))
REPO = os.environ.get("VERIF_REPO", "/repo")
SPEC = os.path.join(VERIF, "spec")
HARNESS = os.path.join(VERIF, "harness")
KNOWN = os.environ.get("VERIF_KNOWN") or os.path.join(VERIF, "known_findings.json")
GOENV = dict(GOFLAGS="-mod=mod", GOPROXY="off", GOSUMDB="off", GOTOOLCHAIN="local")


class Inconclusive(Exception):
    pass


class TLCResult:
    def __init__(self):
        self.rc = None
        self.out = ""
        self.msgs = {}        # tag -> list of decoded JSON objects printed with Emit(tag, obj)
        self.generated = 0
        self.distinct = 0
        self.depth = 0
        self.violation = None  # name of violated invariant / property, "deadlock", or None
        self.error = None
        self.wall = 0.0
        self.coverage = {}     # action name -> count (if -coverage)


_J = re.compile(r'^<<"J", "([A-Za-z0-9_]+)", (".*")>>$')


_JM = re.compile(r'^<<\s*"J",\s*"([A-Za-z0-9_]+)",\s*(".*")\s*>>$', re.S)


def parse_tlc_output(text, res):
    lines = text.splitlines()
    n = 0
    while n < len(lines):
        line = lines[n]
        n += 1
        if line.startswith('<< "J",'):
            # TLC's pretty printer spread the tuple over several lines (it does so for PrintT in ASSUME
            # under -simulate): collect up to the closing >>
            buf = [line]
            while not buf[-1].rstrip().endswith(">>") and n < len(lines):
                buf.append(lines[n])
                n += 1
            m = _JM.match(" ".join(x.strip() for x in buf))
            if m:
                try:
                    res.msgs.setdefault(m.group(1), []).append(json.loads(json.loads(m.group(2))))
                except Exception as e:
                    res.error = "bad J block: %s (%s)" % (buf[0][:200], e)
            continue
        if line.startswith('<<"J", '):
            m = _J.match(line)
            if m:
                try:
                    res.msgs.setdefault(m.group(1), []).append(json.loads(json.loads(m.group(2))))
                except Exception as e:  # malformed line -> inconclusive later
                    res.error = "bad J line: %s (%s)" % (line[:200], e)
            continue
        m = re.match(r'^(\d+) states generated, (\d+) distinct states found', line)
        if m:
            res.generated, res.distinct = int(m.group(1)), int(m.group(2))
        m = re.match(r'^The depth of the complete state graph search is (\d+)', line)
        if m:
            res.depth = int(m.group(1))
        m = re.match(r'^Error: Invariant (\S+) is violated', line)
        if m:
            res.violation = m.group(1)
        m = re.match(r'^Error: Action property (\S+) is violated', line)
        if m:
            res.violation = m.group(1)
        if line.startswith('Error: Temporal properties were violated'):
            res.violation = res.violation or "temporal"
        if line.startswith('Error: Deadlock reached'):
            res.violation = "deadlock"
        m = re.match(r'^Error: (.*)', line)
        if m and res.violation is None and res.error is None:
            if 'Invariant' not in line and 'Deadlock' not in line and 'behavior up to' not in line.lower():
                res.error = m.group(1)
        m = re.match(r'^<(\w+) line \d+, col \d+ to line \d+, col \d+ of module \w+>: (\d+):(\d+)', line)
        if m:
            res.coverage[m.group(1)] = res.coverage.get(m.group(1), 0) + int(m.group(3))
    return res


class Ctx:
    def __init__(self, prop, tier, seed, level="model_checking", replay=None, keep=False):
        self.prop, self.tier, self.seed, self.level = prop, tier, seed, level
        self.replay = replay
        self.keep = keep
        self.t0 = time.time()
        base = os.environ.get("VERIF_TMP") or tempfile.gettempdir()
        self.scratch = tempfile.mkdtemp(prefix="verif_%s_" % prop, dir=base)
        self.divergences = []   # dicts: signature, what, replay
        self.cov = dict(states=0, transitions=0, traces_validated_against_impl=0, samples=[],
                        evaluations=0, distinct_nontrivial=0, rule="", exhaustive=False)
        self.assumptions = []
        self.tlc_runs = []
        self.rng = random.Random(seed)
        self._bin = None
        self.notes = []

    # ---------------------------------------------------------------- logging
    def log(self, *a):
        print("[%s %6.1fs]" % (self.prop, time.time() - self.t0), *a, flush=True)

    # ---------------------------------------------------------------- TLC
    def tlc(self, family, module, cfg, *, workers=16, simulate=None, depth=None, timeout=900,
            dfs=False, coverage=False, files=None, defines=None, seed=None, label=None, count=True,
            expect_violation=False, heap=None):
        """Run TLC on spec/<family>/<module>.tla with config <cfg> in a scratch copy.
        files: {name: text} extra files written into the scratch spec dir (traces, generated MC modules).
        simulate: 'num=N' string -> -simulate; depth -> -depth."""
        src = os.path.join(SPEC, family)
        run = tempfile.mkdtemp(prefix="tlc_", dir=self.scratch)
        d = os.path.join(run, "spec")
        shutil.copytree(src, d)
        # shared modules
        shared = os.path.join(SPEC, "common")
        if os.path.isdir(shared):
            for f in os.listdir(shared):
                if not os.path.exists(os.path.join(d, f)):
                    shutil.copy(os.path.join(shared, f), os.path.join(d, f))
        for name, text in (files or {}).items():
            with open(os.path.join(d, name), "w") as fh:
                fh.write(text)
        cmd = ["tlc", "-workers", str(workers), "-metadir", os.path.join(run, "md"), "-noGenerateSpecTE"]
        if simulate:
            cmd += ["-simulate", simulate]
            if depth:
                cmd += ["-depth", str(depth)]
            cmd += ["-seed", str(seed if seed is not None else self.seed)]
        if coverage:
            cmd += ["-coverage", "1"]
        cmd += ["-config", cfg, module + ".tla"]
        env = dict(os.environ)
        jto = "-Xss512m"
        if dfs:
            jto += " -Dtlc2.tool.queue.IStateQueue=StateDeque"
        if heap:
            jto += " -Xmx%s" % heap
        env["JAVA_TOOL_OPTIONS"] = jto
        t = time.time()
        outp = os.path.join(run, "tlc.out")
        with open(outp, "w") as fh:
            try:
                p = subprocess.run(["timeout", "-k", "10", str(timeout)] + cmd, cwd=d, stdout=fh,
                                   stderr=subprocess.STDOUT, env=env)
                rc = p.returncode
            except Exception as e:
                raise Inconclusive("tlc could not run: %s" % e)
        res = TLCResult()
        res.rc = rc
        res.wall = time.time() - t
        with open(outp, errors="replace") as fh:
            res.out = fh.read()
        parse_tlc_output(res.out, res)
        res.run_dir = run
        self.log("tlc %s/%s %s: rc=%d gen=%d distinct=%d %.1fs%s" % (
            family, module, cfg, rc, res.generated, res.distinct, res.wall,
            (" VIOLATION=" + res.violation) if res.violation else ""))
        if rc == 124 or rc == 137:
            raise Inconclusive("tlc timeout (%ss) on %s %s" % (timeout, module, cfg))
        if simulate and rc == 0 and res.generated == 0:
            m = re.search(r'(\d+) states checked', res.out)
            if m:
                res.generated = int(m.group(1))
        if res.violation is None and (rc != 0 or res.error):
            tail = "\n".join(res.out.splitlines()[-40:])
            raise Inconclusive("tlc failed rc=%s on %s %s: %s\n%s" % (rc, module, cfg, res.error, tail))
        if res.violation and not expect_violation:
            tail = "\n".join(res.out.splitlines()[-60:])
            raise Inconclusive("tlc reports %s violated on the MODEL %s %s (a model-level "
                               "counterexample is a lead, not a verdict):\n%s" % (res.violation, module, cfg, tail))
        if count:
            self.cov["states"] += res.distinct or res.generated
            self.cov["transitions"] += res.generated
        self.tlc_runs.append(dict(module=module, cfg=cfg, generated=res.generated, distinct=res.distinct,
                                  wall_s=round(res.wall, 1), label=label or ""))
        if not self.keep:
            shutil.rmtree(os.path.join(run, "md"), ignore_errors=True)
        return res

    # ---------------------------------------------------------------- Go harness
    def build_harness(self, family, race=False):
        """Build /verif/harness/cmd/<family> (each family is its own binary so that families do not
        break one another) with -tags verif against the repository's current working tree."""
        key = family + ("_race" if race else "")
        if self._bin and key in self._bin:
            return self._bin[key]
        self._bin = self._bin or {}
        out = os.path.join(self.scratch, "v_" + key)
        env = dict(os.environ)
        env.update(GOENV)
        modargs = []
        if os.path.realpath(REPO) == "/repo":
            try:
                shutil.copy(os.path.join(REPO, "go.sum"), os.path.join(HARNESS, "go.sum"))
            except Exception:
                pass
        else:
            # VERIF_REPO points at a scratch copy of the repository (mutation testing): build with an
            # alternative go.mod whose replace directive names that copy
            mf = os.path.join(self.scratch, "alt.go.mod")
            with open(os.path.join(HARNESS, "go.mod")) as fh:
                txt = fh.read().replace("=> /repo", "=> " + os.path.realpath(REPO))
            with open(mf, "w") as fh:
                fh.write(txt)
            shutil.copy(os.path.join(REPO, "go.sum"), os.path.join(self.scratch, "alt.go.sum"))
            modargs = ["-modfile=" + mf]
        cmd = ["go", "build", "-tags", "verif"] + modargs + (["-race"] if race else []) + ["-o", out, "./cmd/" + family]
        t = time.time()
        p = subprocess.run(cmd, cwd=HARNESS, env=env, stdout=subprocess.PIPE, stderr=subprocess.STDOUT, text=True)
        if p.returncode != 0:
            raise Inconclusive("harness build failed:\n" + p.stdout[-4000:])
        self.log("built harness %s in %.1fs" % (key, time.time() - t))
        self._bin[key] = out
        return out

    def harness(self, args, *, input_path=None, output_path=None, timeout=900, race=False, env=None, check=True):
        b = self.build_harness(args[0], race=race)
        args = list(args[1:])
        e = dict(os.environ)
        e["VERIF_SEED"] = str(self.seed)
        e["VERIF_TIER"] = self.tier
        e["TMPDIR"] = self.scratch
        if env:
            e.update(env)
        stdin = open(input_path) if input_path else subprocess.DEVNULL
        stdout = open(output_path, "w") if output_path else subprocess.PIPE
        errp = os.path.join(self.scratch, "harness_%d.err" % len(os.listdir(self.scratch)))
        with open(errp, "w") as errf:
            try:
                p = subprocess.run([b] + args, stdin=stdin, stdout=stdout, stderr=errf, timeout=timeout, env=e,
                                   text=(output_path is None))
            except subprocess.TimeoutExpired:
                raise Inconclusive("harness timeout (%ss): %s" % (timeout, " ".join(args)))
        if check and p.returncode != 0:
            with open(errp, errors="replace") as fh:
                tail = fh.read()[-3000:]
            raise Inconclusive("harness %s exited %d:\n%s" % (" ".join(args), p.returncode, tail))
        p.errpath = errp
        return p

    def write_ndjson(self, name, objs):
        path = os.path.join(self.scratch, name)
        with open(path, "w") as fh:
            for o in objs:
                fh.write(json.dumps(o, separators=(",", ":")) + "\n")
        return path

    @staticmethod
    def read_ndjson(path):
        out = []
        with open(path, errors="replace") as fh:
            for line in fh:
                line = line.strip()
                if line.startswith("{"):
                    try:
                        out.append(json.loads(line))
                    except Exception:
                        pass
        return out

    # ---------------------------------------------------------------- verdicts
    def diverge(self, signature, what, replay):
        """Record a divergence between the real code and the abstract spec.
        signature: short stable string naming site+shape (used for known-finding matching)."""
        self.divergences.append(dict(signature=signature, what=what, replay=replay))

    def sample(self, obj, limit=6):
        if len(self.cov["samples"]) < limit:
            self.cov["samples"].append(obj)

    def finish(self, extra_cov=None, assumptions=None):
        known = []
        if os.path.exists(KNOWN):
            with open(KNOWN) as fh:
                known = [k for k in json.load(fh).get("findings", []) if k.get("property") == self.prop]
        known_sigs = {k["signature"]: k for k in known if k.get("status") == "known"}
        by_sig = {}
        for d in self.divergences:
            by_sig.setdefault(d["signature"], []).append(d)
        violations = 0
        rdir = os.path.join(VERIF, "out", "replay", self.prop)
        os.makedirs(rdir, exist_ok=True)
        for sig, ds in sorted(by_sig.items()):
            if sig in known_sigs:
                print("KNOWN-FINDING: property=%s %s [%s] (%d occurrences this run)" % (
                    self.prop, known_sigs[sig].get("what", ds[0]["what"]), sig, len(ds)), flush=True)
                continue
            violations += 1
            h = hashlib.sha1(sig.encode()).hexdigest()[:10]
            path = os.path.join(rdir, "%s.json" % h)
            with open(path, "w") as fh:
                json.dump(dict(property=self.prop, signature=sig, what=ds[0]["what"], tier=self.tier, seed=self.seed,
                               occurrences=len(ds), replay=ds[0]["replay"],
                               more=[x["replay"] for x in ds[1:4]]), fh, indent=1)
            print("DIVERGENCE %s: %s (%d occurrences)" % (sig, ds[0]["what"], len(ds)), flush=True)
            print("VIOLATION property=%s replay=%s" % (self.prop, path), flush=True)
        cov = dict(self.cov)
        if extra_cov:
            cov.update(extra_cov)
        cov["tlc_runs"] = self.tlc_runs
        cov["known_findings_seen"] = sorted(s for s in by_sig if s in known_sigs)
        if self.notes:
            cov["notes"] = self.notes
        ev = dict(property_id=self.prop, tier=self.tier, seed=self.seed, level=self.level, coverage=cov,
                  assumptions=(assumptions or []) + self.assumptions, wall_s=round(time.time() - self.t0, 1),
                  violations=violations)
        if not self.replay:
            # evidence describes runs against /repo itself; a run against a scratch copy (VERIF_REPO: mutation and
            # seeded-change testing) leaves its record under out/, never in evidence/
            edir = os.path.join(VERIF, "evidence") if os.path.realpath(REPO) == "/repo" else os.path.join(VERIF, "out", "evidence_scratch")
            os.makedirs(edir, exist_ok=True)
            with open(os.path.join(edir, "%s.json" % self.prop), "w") as fh:
                json.dump(ev, fh, indent=1)
        self.cleanup()
        self.log("done: %d divergence signature(s), %d violation(s), %.1fs" % (len(by_sig), violations, time.time() - self.t0))
        return 1 if violations else 0

    def cleanup(self):
        if not self.keep:
            shutil.rmtree(self.scratch, ignore_errors=True)


def main(prop, runner, level="model_checking"):
    import argparse
    ap = argparse.ArgumentParser()
    ap.add_argument("--tier", default=os.environ.get("VERIF_TIER", "quick"), choices=["quick", "thorough"])
    ap.add_argument("--replay", default=None)
    ap.add_argument("--keep", action="store_true")
    a = ap.parse_args(sys.argv[2:])
    seed = int(os.environ.get("VERIF_SEED", "1") or 1)
    ctx = Ctx(prop, a.tier, seed, level=level, replay=a.replay, keep=a.keep)
    try:
        runner(ctx)
        rc = ctx.finish()
    except Inconclusive as e:
        print("INCONCLUSIVE property=%s: %s" % (prop, e), flush=True)
        ctx.cleanup()
        rc = 2
    sys.exit(rc)
