HOOK_COMMITS = []
NOT_APPLICABLE = {}
CHECKS = {
 "C01": dict(
   text="Traversal.tla is the documented step-by-step semantics (typing, every documented step, the open choices of limit/skip/range/distinct as origin blocks). TLC enumerates every program over the step alphabet to a length bound on a 7-graph family containing every shape the property names (quick: ~240k states; thorough adds longer random programs) and checks type-soundness invariants of the oracle; every state is replayed through graph.Compiler().Compile + pipeline.Run on Badger-backed kvgraph and the returned multiset must be admissible for the state.",
   design_ref="DESIGN.md section 4 C01", technique="TLA+ reference semantics enumerated by TLC (BFS + simulation), replay of every state on the real engine",
   note="Bounded: programs of at most 4 statements exhaustively (8 randomly), graphs of at most 3 vertices/4 edges; steps/arguments the documentation leaves undefined are outside the alphabet (listed in the evidence assumptions)."),
 "C02": dict(
   text="Same Traversal.tla state space, with an alphabet emphasising statements that read data of earlier steps or marks and equivalent spellings of id/label filters. Every state is executed by the production compiler on a backend wrapper that honours the do-not-load hint, by the production compiler on kvgraph and by the literal pipeline (no optimizer, all steps loaded); all three must be admissible results of the specification, hence equal to one another up to the choices the property leaves open.",
   design_ref="DESIGN.md section 4 C02", technique="TLA+ reference semantics enumerated by TLC, three-way replay (optimized+no-load backend, optimized, literal) of every state",
   note="The hint-honouring backend is a decorator in the harness over kvgraph (strips data when load=false, as Mongo/SQL/Grids do); bounded as C01."),
 "C08": dict(
   text="Has.tla is the documented meaning of the twelve has() operators and and/or/not; TLC checks the Boolean laws on it and enumerates the complete grid (operators x 16 element values x 25 arguments, all nestings to depth 1 (quick) / 2 (thorough)); every enumerated expression is replayed on the real evaluator and on V().has() through the production pipeline and the kept sets compared document by document. Exhaustive over the finite grid, which contains every value kind and boundary the property names.",
   design_ref="DESIGN.md section 4 C08", technique="TLA+ oracle spec enumerated by TLC, replay of every state on the real code",
   note="Numbers are small integers and numeric text a four-element set; cases the documentation leaves open (null vs absent, non-list within) are only required not to crash."),
}
