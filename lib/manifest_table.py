HOOK_COMMITS = []
NOT_APPLICABLE = {}
CHECKS = {
 "C08": dict(
   text="Has.tla is the documented meaning of the twelve has() operators and and/or/not; TLC checks the Boolean laws on it and enumerates the complete grid (operators x 16 element values x 25 arguments, all nestings to depth 1 (quick) / 2 (thorough)); every enumerated expression is replayed on the real evaluator and on V().has() through the production pipeline and the kept sets compared document by document. Exhaustive over the finite grid, which contains every value kind and boundary the property names.",
   design_ref="DESIGN.md section 4 C08", technique="TLA+ oracle spec enumerated by TLC, replay of every state on the real code",
   note="Numbers are small integers and numeric text a four-element set; cases the documentation leaves open (null vs absent, non-list within) are only required not to crash."),
}
