"""Comparison of observed store state (harness/store.Observe) with GraphStore.tla's Obs."""
import json
from collections import Counter
from travcmp import norm


def nstate(s):
    """normalise a spec store state {g: {V:{..}|[], E:{..}|[]}} ([] is TLC's empty function)"""
    if isinstance(s, list):
        return {}
    out = {}
    for g, G in s.items():
        V = G.get("V") if isinstance(G.get("V"), dict) else {}
        E = G.get("E") if isinstance(G.get("E"), dict) else {}
        out[g] = dict(V=norm(V), E=norm(E))
    return out


def skey(s):
    return json.dumps(nstate(s), sort_keys=True)


def dictify(x):
    return x if isinstance(x, dict) else {}


def cmp_graph(spec, real):
    """spec: ObsG record (JSON), real: harness observation of one graph -> list of aspects that differ"""
    bad = []
    if "panic" in real:
        return ["panic:" + str(real["panic"])[:60]]
    sV, sE = norm(dictify(spec["V"])), norm(dictify(spec["E"]))
    rV, rE = norm(real.get("V") or {}), norm(real.get("E") or {})
    if real.get("dupV") or real.get("dupE"):
        bad.append("listing-duplicates")
    for name, s, r in (("V-listing", sV, rV), ("E-listing", sE, rE)):
        if s != r:
            if set(r) - set(s):
                bad.append(name + "-extra")
            elif set(s) - set(r):
                bad.append(name + "-missing")
            else:
                bad.append(name + "-content")
    for name, s, r in (("getV", sV, norm(real.get("getV") or {})), ("getE", sE, norm(real.get("getE") or {}))):
        for pid, got in r.items():
            want = s.get(pid)
            if want != got:
                bad.append(name + ("-stale" if want is None else ("-missing" if got is None else "-content")))
                break
    if sorted(spec["vlabels"]) != sorted(real.get("vlabels") or []):
        bad.append("vlabels")
    if sorted(spec["elabels"]) != sorted(real.get("elabels") or []):
        bad.append("elabels")
    sby = dictify(spec["byLabel"])
    for l, ids in (real.get("byLabel") or {}).items():
        if sorted(sby.get(l, [])) != sorted(ids):
            bad.append("label-index")
            break
    sadj = dictify(spec["adj"])
    radj = real.get("adj") or []
    done = set()
    for v, opts in sadj.items():
        for oi, o in enumerate(opts):
            if oi >= len(radj):
                continue
            ro = radj[oi]
            for d in ("outE", "inE"):
                want = sorted(o[d])
                got = sorted(x.split("|")[0] for x in ro[d].get(v, []))
                if want != got and d not in done:
                    done.add(d)
                    bad.append("adj-%s-%s" % (d, "stale" if len(got) > len(want) else ("missing" if len(got) < len(want) else "wrong")))
                elif want == got:
                    # edge records returned by adjacency must agree with the edge table
                    for x in ro[d].get(v, []):
                        eid, lab, fr, to = (x.split("|") + ["", "", ""])[:4]
                        se = sE.get(eid)
                        if se and (se["label"], se["from"], se["to"]) != (lab, fr, to) and (d + "-content") not in done:
                            done.add(d + "-content")
                            bad.append("adj-%s-content" % d)
            for d in ("out", "in"):
                want = Counter(p[1] for p in o[d])
                got = Counter(x.split("|")[0] for x in ro[d].get(v, []))
                if want != got and d not in done:
                    done.add(d)
                    bad.append("adj-%s-%s" % (d, "stale" if sum(got.values()) > sum(want.values()) else ("missing" if sum(got.values()) < sum(want.values()) else "wrong")))
    return bad


def classes(aspects):
    """root-cause oriented grouping of the aspects that differ"""
    out = set()
    for a in aspects:
        if a.startswith("adj-") and a.endswith("-stale") or a == "listing-duplicates" or a in ("E-listing-extra", "getE-stale"):
            out.add("stale-edge-records")
        elif a in ("vlabels", "elabels", "label-index"):
            out.add("stale-label-index" if True else a)
        elif a.endswith("-missing"):
            out.add("elements-missing")
        elif a.endswith("-content") or a.endswith("-wrong"):
            out.add("wrong-content")
        elif a in ("V-listing-extra", "getV-stale"):
            out.add("stale-vertex-records")
        else:
            out.add(a)
    return out


def call_shape(call, before):
    """classify a call relative to the spec state before it"""
    op, g = call["op"], call.get("g")
    G = before.get(g)
    if op in ("AddGraph",):
        return "new"
    if op == "DeleteGraph":
        return "present" if G is not None else "absent"
    if G is None:
        return "no-graph"
    if op in ("DelVertex", "DelEdge"):
        tbl = G["V"] if op == "DelVertex" else G["E"]
        return "present" if call["id"] in tbl else "absent"
    ids = [(e["k"], e["r"]["id"]) for e in call.get("elems", [])]
    shape = []
    if len(set(ids)) < len(ids):
        shape.append("dup-in-batch")
    if any((k == "v" and i in G["V"]) or (k == "e" and i in G["E"]) for k, i in ids):
        shape.append("replace")
    return "+".join(shape) or "new"


LABEL_ASPECTS = {"vlabels", "elabels", "label-index"}


def check_history(hist, steps, obs_table, lenient_labels=True):
    """-> list of (step index, signature, detail).  Checking stops at the first divergent step of the
    behaviour (the state is corrupt from there on) - except for a divergence that concerns ONLY the label
    index/listings: it is reported once and the rest of the behaviour is still checked with the label
    aspects masked, so that a stale label index (a known finding for re-labelled elements) does not hide
    everything that happens later in the same history."""
    before = {}
    found = []
    mask = set()
    for n, (h, st) in enumerate(zip(hist, steps)):
        call = h["call"]
        after = nstate(h["after"])
        shape = call_shape(call, before)
        tag = "%s(%s)" % (call["op"], shape)
        want = h["res"]
        got = st["res"]
        if got == "panic":
            return found + [(n, "store %s: panic %s" % (tag, st.get("msg", "")[:60]), st.get("msg"))]
        if want != "any" and want != got:
            if want == "error":
                tag = "%s(invalid)" % call["op"] if shape != "no-graph" else tag
            return found + [(n, "store %s: returns %s, specified %s" % (tag, got, want), st.get("msg"))]
        if want == "error":
            tag = "%s(invalid)" % call["op"] if shape != "no-graph" else tag
        alt = nstate(h["alt"]) if "alt" in h else after
        # a failed batch with valid elements: nothing stored, or the valid elements stored - also when storing them changes
        # nothing that can be observed (the valid element equals the stored one): the timestamp may then move or not
        is_open = alt != after or (want == "error" and call["op"] in ("AddVertex", "AddEdge") and len(call.get("elems", [])) > 1
                                   and call.get("g") in before)
        verdict = None
        for cand in ([after, alt] if is_open else [after]):
            verdict = _aspects(cand, st, call, obs_table, mask)
            if verdict is None:
                return found + [(n, "harness: spec state missing from observation table", "")]
            if not verdict:
                break
        aspects = verdict
        if is_open:
            if aspects:
                return found + [(n, "store %s(mixed batch): neither nothing nor the valid elements stored: %s" % (call["op"], ",".join(sorted(classes(aspects)))),
                                 dict(aspects=sorted(set(aspects))))]
            return found      # which of the two happened is open: the history ends here
        if aspects:
            rec = (n, "store %s: %s" % (tag, ",".join(sorted(classes(aspects)))), dict(aspects=sorted(set(aspects))))
            if lenient_labels and set(aspects) <= LABEL_ASPECTS:
                found.append(rec)
                mask |= LABEL_ASPECTS
            else:
                return found + [rec]
        # timestamps
        for g, changed in (st.get("tsChanged") or {}).items():
            if g in h["changed"] and not changed:
                return found + [(n, "store %s: timestamp unchanged after a successful mutation" % tag, g)]
            if changed and g != call.get("g"):
                return found + [(n, "store %s: timestamp of another graph changed" % tag, g)]
            if changed and want == "error":
                return found + [(n, "store %s: timestamp changed by a failed call" % tag, g)]
        before = after
    return found


def _aspects(after, st, call, obs_table, mask):
    """aspects of the observation st that differ from Obs of the spec state `after` (None: state not in the table)"""
    if True:
        obs = obs_table.get(json.dumps(after, sort_keys=True))
        if obs is None:
            return None
        obs = dictify(obs)
        real = st["obs"]
        aspects = []
        for g in ("g1", "g2", "g3"):
            if (g in obs) != (g in real and "listed_but_unopenable" not in real.get(g, {})):
                aspects.append("graph-existence")
                continue
            if g in obs:
                if not real[g].get("listed", True):
                    aspects.append("graph-not-listed")
                asp = [a for a in cmp_graph(obs[g], real[g]) if a not in mask]
                if g != call.get("g") and asp:
                    aspects.append("other-graph-affected")
                else:
                    aspects += asp
        return [a for a in aspects if a not in mask]
