"""C19 - aggregations summarize exactly the rows they are given (Agg.tla).

TLC (Mode gen) enumerates every multiset of field values up to the tier's size over a value set with
all JSON kinds x aggregation parameters x combinations of two aggregations.  The harness runs
V().aggregate(...) through the production compiler and pipeline on a graph with one vertex per value.
TLC (Mode judge) then reads what the engine returned and evaluates the specification's acceptance
predicate for every case - ties, bucket choice under `size`, zero-count histogram buckets and
percentile approximation are accepted exactly as far as the property leaves them open."""
import json, os
from vlib import Inconclusive


def agg_shape(a):
    t = a["t"]
    if t == "term":
        return "term(size=%s)" % ("0" if a["size"] == 0 else "n")
    return t


def kinds(vals):
    ks = sorted({v[0] for v in vals})
    return "+".join(ks) if ks else "empty"


def run(ctx):
    res = ctx.tlc("agg", "Agg", "Agg_gen2.cfg" if ctx.tier == "quick" else "Agg_gen3.cfg", timeout=900)
    cases = res.msgs.get("case", [])
    if not cases:
        raise Inconclusive("no aggregation cases emitted")
    # one request per distinct input (the graph is built once), all aggregation lists for it
    groups = {}
    for i, c in enumerate(cases):
        groups.setdefault(json.dumps(c["vals"]), []).append(i)
    # every third input is aggregated through a mark ($m.x after as(m)) instead of the current element: the
    # specification's judgement is the same, the engine resolves the field through another path
    def via_mark(aggs):
        out = []
        for a in aggs:
            a = dict(a)
            if a.get("field") == "x":
                a["field"] = "$m.x"
            out.append(a)
        return out
    reqs = []
    for n, (k, idxs) in enumerate(groups.items()):
        r = dict(i=n, vals=json.loads(k), agglists=[cases[i]["aggs"] for i in idxs])
        if n % 4 == 1:
            r["pre"] = [dict(op="as", name="m")]
            r["agglists"] = [via_mark(a) for a in r["agglists"]]
        elif n % 4 == 3:
            # the first aggregation of the step reads the current element, the others read the same element through
            # the mark, on a backend that honours the do-not-load hint (harness/trav.NoLoadGraph): what one
            # aggregation of a step needs must not depend on the aggregations listed before it
            # the mark is set one step earlier: every vertex gets a self loop and out() walks it, so the rows (and the
            # judgement) stay the same while the marked element and the current element belong to different steps
            r["pre"] = [dict(op="as", name="m"), dict(op="out", labels=["selfloop"])]
            r["agglists"] = [a[:1] + via_mark(a[1:]) for a in r["agglists"]]
            r["noload"] = True
            r["selfloops"] = True
        elif n % 4 == 2:
            # the rows reach aggregate() WITHOUT a current element (outNull over a label no edge has), the values
            # are read through the mark: still one row per value, so the judgement is again the same
            r["pre"] = [dict(op="as", name="m"), dict(op="outNull", labels=["nosuchlabel"])]
            r["agglists"] = [via_mark(a) for a in r["agglists"]]
        reqs.append(r)
    inp = ctx.write_ndjson("agg_in.ndjson", reqs)
    outp = os.path.join(ctx.scratch, "agg_out.ndjson")
    ctx.harness(["agg", "-j", "10", "-timeout", "60s"], input_path=inp, output_path=outp, timeout=2400)
    gouts = {o["i"]: o for o in ctx.read_ndjson(outp) if "i" in o}
    if len(gouts) != len(reqs):
        raise Inconclusive("agg harness answered %d of %d requests" % (len(gouts), len(reqs)))
    outs = {}
    redo = []
    for n, (k, idxs) in enumerate(groups.items()):
        go = gouts[n]
        if "results" in go:
            for i, r in zip(idxs, go["results"]):
                r["i"] = i
                outs[i] = r
        elif "harness_err" in go:
            raise Inconclusive("agg harness error: %s" % go["harness_err"])
        else:
            redo += idxs   # the worker died somewhere in this group: run its cases one by one
    if redo:
        inp2 = ctx.write_ndjson("agg_in2.ndjson", [dict(i=i, vals=cases[i]["vals"], agglists=[cases[i]["aggs"]]) for i in redo])  # plain form
        outp2 = os.path.join(ctx.scratch, "agg_out2.ndjson")
        ctx.harness(["agg", "-j", "10", "-timeout", "30s"], input_path=inp2, output_path=outp2, timeout=2400)
        for o in ctx.read_ndjson(outp2):
            if "results" in o:
                r = o["results"][0]
                r["i"] = o["i"]
                outs[o["i"]] = r
            else:
                outs[o["i"]] = o
    if len(outs) != len(cases):
        raise Inconclusive("agg harness answered %d of %d cases" % (len(outs), len(cases)))
    obs = []
    for i, c in enumerate(cases):
        o = outs[i]
        shapes = "+".join(agg_shape(a) for a in c["aggs"])
        for bad in ("crash", "hang", "panic"):
            if bad in o:
                ctx.diverge("agg %s on %s input: %s %s" % (shapes, "empty" if not c["vals"] else "non-empty", bad, o[bad]),
                            "aggregate() made the engine %s" % bad, dict(case=c, outcome={k: v for k, v in o.items() if k != "trace"}, trace=o.get("trace", "")[:1500]))
        if any(b in o for b in ("crash", "hang", "panic", "harness_err", "wire_err")):
            if "harness_err" in o or "wire_err" in o:
                raise Inconclusive("agg harness error: %s" % (o.get("harness_err") or o.get("wire_err")))
            continue
        if o.get("err"):
            ctx.diverge("agg %s: well-typed aggregation rejected" % shapes, o["err"][:100], dict(case=c, outcome=o))
            continue
        rows = []
        pct_names = {a["name"] for a in c["aggs"] if a["t"] == "percentile"}
        nonint = False
        for r in o.get("rows", []):
            v = r["value"]
            if r["name"] in pct_names:
                v = int(round(v * 1000))
            else:
                if v != int(v):
                    nonint = True
                v = int(v)
            rows.append(dict(name=r["name"], key=r["key"], value=v, nan=bool(r.get("nan"))))
        if nonint:
            ctx.diverge("agg %s: fractional bucket count" % shapes, "a bucket count is not an integer", dict(case=c, outcome=o))
            continue
        obs.append(dict(i=i, vals=c["vals"], aggs=c["aggs"], rows=rows))
    # judgement by the specification
    text = "".join(json.dumps(o, separators=(",", ":")) + "\n" for o in obs)
    jr = ctx.tlc("agg", "Agg", "Agg_judge.cfg", files={"obs.ndjson": text}, workers=1, timeout=1800, count=False)
    verdicts = {v["i"]: v for v in jr.msgs.get("verdict", [])}
    if len(verdicts) != len(obs):
        raise Inconclusive("TLC judged %d of %d observations" % (len(verdicts), len(obs)))
    nontriv = 0
    for ob in obs:
        v = verdicts[ob["i"]]
        c = cases[ob["i"]]
        if len({json.dumps(x) for x in c["vals"]}) >= 1 and c["vals"]:
            nontriv += 1
        for k in v["bad"]:
            a = c["aggs"][k - 1]
            with_others = len(c["aggs"]) > 1
            sig = "agg %s wrong on %s values%s" % (agg_shape(a), kinds(ob["vals"]), " (alongside another aggregation)" if with_others else "")
            ctx.diverge(sig, "the buckets reported for a %s aggregation are not an admissible summary of the input rows" % a["t"],
                        dict(case=c, reported=[r for r in ob["rows"] if r["name"] == a["name"]]))
        if v["foreign"]:
            ctx.diverge("agg rows under an unknown aggregation name", "result rows carry a name no requested aggregation has",
                        dict(case=c, reported=ob["rows"]))
    for c in cases[:: max(1, len(cases) // 5)]:
        ctx.sample(c)
    ctx.cov.update(evaluations=len(cases), distinct_nontrivial=nontriv, traces_validated_against_impl=len(obs), exhaustive=True,
                   rule="all value sequences of length <= %d over 13 values of every JSON kind x 13 single aggregations and 6 pairs; "
                        "each run through V().aggregate() on a one-vertex-per-value graph and judged by Agg.tla; non-trivial = non-empty input"
                        % (2 if ctx.tier == "quick" else 3))
    ctx.assumptions += ["numeric text is kept out of histogram/percentile inputs (the property says 'numeric values'; whether \"1\" is numeric is open)",
                        "percentiles: only monotonicity in p and the [min,max] range are claimed (t-digest accuracy is not a state-machine property)",
                        "interval = 0 and aggregations without a type belong to C06 (must not crash), not to this check"]
