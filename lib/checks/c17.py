"""C17 - concurrent clients cannot corrupt or crash the server (trace validation).

ServerConc.tla is the property: GraphStore.tla's store (its Eff, instantiated) plus schemas
and jobs; clients run sessions; every call is Invoke, one atomic effect, Return.  TLC checks
FinalState / ReadProvenance / Up on a small instance exhaustively and draws the sessions
(-simulate).  harness/srvconc runs them with 2-8 client goroutines against a real in-process
GripServer (kvgraph over Badger, real grpc.Server over an in-memory listener), records every
Invoke/Return with stamps from one atomic counter, and reads the whole store back after the
last return.  ServerConcTrace.tla validates each history: the effect step is silent, TLC
searches for the linearisation; a history is accepted iff a state is reached in which all
events are consumed and the observed final state equals the state of the specification.

Data races are not decidable by a TLA+ model of the handlers; they falsify the atomic-effect
assumption of the model, so part of the histories is produced by a -race build and every
report of the race detector is a divergence (signature: the pair of racing functions)."""
import json, os, re, threading, time
from concurrent.futures import ThreadPoolExecutor

import storecmp
import vlib
from vlib import Inconclusive

FAMILY = "serverconc"
COMPS = ["g1", "g2", "schemas", "jobs", "static"]
GRAPHS = ["g1", "g2", "g3"]
ALL_SCOPE = ["g1", "g2", "g3", "schemas", "jobs"]


# ---------------------------------------------------------------- TLC plumbing
def extra_files():
    """GraphStore.tla (family store) is instantiated by ServerConc.tla for its state-independent operators;
    the INSTANCE line is regenerated so that variables added to GraphStore later are bound to a dummy"""
    with open(os.path.join(vlib.SPEC, "store", "GraphStore.tla")) as fh:
        gs = fh.read()
    m = re.search(r"^VARIABLES?\s+([^\n]+)$", gs, re.M)
    if not m:
        raise Inconclusive("GraphStore.tla: VARIABLES line not found")
    others = [v.strip() for v in m.group(1).split("\\*")[0].split(",") if v.strip() and v.strip() != "gs"]
    with open(os.path.join(vlib.SPEC, FAMILY, "ServerConc.tla")) as fh:
        sc = fh.read()
    line = "GS == INSTANCE GraphStore WITH gs <- store, HistLen <- 0" + "".join(", %s <- <<>>" % v for v in others)
    sc, k = re.subn(r"^GS == INSTANCE GraphStore WITH [^\n]*$", lambda _: line, sc, flags=re.M)
    if k != 1:
        raise Inconclusive("ServerConc.tla: INSTANCE line not found")
    return {"GraphStore.tla": gs, "ServerConc.tla": sc}


def model_cfg(n, k, alpha, invs):
    return ("CONSTANT NClients = %d\nCONSTANT CallsPer = %d\nCONSTANT Alpha = \"%s\"\nSPECIFICATION Spec\n%s\nCHECK_DEADLOCK FALSE\n"
            % (n, k, alpha, "\n".join("INVARIANT " + i for i in invs)))


def trace_cfg(realtime, checkfinal):
    return ("CONSTANT NClients = 1\nCONSTANT CallsPer = 1\nCONSTANT Alpha = \"full\"\n"
            "CONSTANT RealTime = %s\nCONSTANT CheckFinal = %s\n"
            "INIT TInit\nNEXT TNext\nINVARIANT Accepted\nCHECK_DEADLOCK FALSE\n"
            % ("TRUE" if realtime else "FALSE", "TRUE" if checkfinal else "FALSE"))


def model_check(ctx):
    """the property on the abstract server, exhaustively on a small instance"""
    alpha = "tiny" if ctx.tier == "quick" else "small"
    files = extra_files()
    files["mc.cfg"] = model_cfg(2, 2, alpha, ["TypeOK", "Up", "FinalState", "ReadProvenance", "JobsOK"])
    return ctx.tlc(FAMILY, "ServerConc", "mc.cfg", workers=8, timeout=1500, files=files,
                   label="FinalState, ReadProvenance, Up on 2 clients x 2 calls (%s alphabet), exhaustive" % alpha)


# ---------------------------------------------------------------- sessions
def d_of(data):
    """tagged data of the spec -> the number that names it (0: empty map, n: {x: n})"""
    m = data[1] if isinstance(data, list) and len(data) == 2 else None
    if not isinstance(m, dict) or not m:
        return 0
    return int(m["x"][1])


def compact_elem(e):
    r = e["r"]
    o = dict(k=e["k"], id=r["id"], label=r["label"], d=d_of(r["data"]))
    if e["k"] == "e":
        o["from"], o["to"] = r["from"], r["to"]
    return o


def compact_call(c):
    o = {k: v for k, v in c.items() if k not in ("elems", "w")}
    if "elems" in c:
        o["elems"] = [compact_elem(e) for e in c["elems"]]
    return o


def gen_sessions(ctx, plan):
    """plan: list of (clients, calls per client, walks per TLC worker) -> list of sessions (lists of call lists)"""
    out, seen = [], set()
    base = extra_files()

    def one(j, n, k, num):
        files = dict(base)
        files["gen.cfg"] = model_cfg(n, k, "full", ["EmitSess"])
        return ctx.tlc(FAMILY, "ServerConc", "gen.cfg", workers=8, simulate="num=%d" % num, depth=3 * n * k + 12, timeout=900,
                       files=files, count=False, seed=ctx.seed * 100 + j, label="session generation %d clients x %d calls" % (n, k))

    with ThreadPoolExecutor(max_workers=2) as ex:
        futs = [ex.submit(one, j, n, k, num) for j, (n, k, num) in enumerate(plan)]
        for f in futs:
            res = f.result()
            for m in res.msgs.get("sess", []):
                sess = [[compact_call(c) for c in s] for s in m["sess"]]
                key = json.dumps(sess, sort_keys=True)
                if key not in seen:
                    seen.add(key)
                    out.append(sess)
    return out


# ---------------------------------------------------------------- harness
def run_harness(ctx, reqs, race, tag, workers, timeout="200s"):
    inp = ctx.write_ndjson("srvconc_%s_in.ndjson" % tag, reqs)
    outp = os.path.join(ctx.scratch, "srvconc_%s_out.ndjson" % tag)
    env = {}
    if race:
        rdir = os.path.join(ctx.scratch, "race_%s" % tag)
        os.makedirs(rdir, exist_ok=True)
        env["GORACE"] = "log_path=%s/r halt_on_error=0 history_size=3" % rdir
    ctx.harness(["srvconc", "-j", str(workers), "-timeout", timeout], input_path=inp, output_path=outp, timeout=3000, race=race, env=env)
    outs = {o["i"]: o for o in ctx.read_ndjson(outp) if "i" in o}
    if len(outs) != len(reqs):
        raise Inconclusive("srvconc harness answered %d of %d histories" % (len(outs), len(reqs)))
    return outs


# ---------------------------------------------------------------- race reports
_FRAME = re.compile(r"^  (\S+)\(\)$")


def short(fn):
    return fn.replace("github.com/bmeg/grip/", "")


def parse_races(text):
    """-> list of (signature, report text); signature = the pair of top grip frames of the two accesses"""
    out = []
    for block in text.split("=================="):
        if "WARNING: DATA RACE" not in block:
            continue
        stacks, cur = [], None
        for line in block.splitlines():
            if re.match(r"^(Read|Write|Previous read|Previous write|Atomic|Previous atomic)[^:]* by ", line, re.I):
                cur = []
                stacks.append(cur)
                continue
            if line.startswith("Goroutine ") or not line.strip():
                cur = None
                continue
            m = _FRAME.match(line)
            if m and cur is not None:
                cur.append(m.group(1))
        tops = []
        for st in stacks[:2]:
            grip = [f for f in st if f.startswith("github.com/bmeg/grip/")]
            other = [f for f in st if not f.startswith("runtime.") and not f.startswith("verifharness/")]
            tops.append(short(grip[0]) if grip else (other[0] if other else (st[0] if st else "?")))
        while len(tops) < 2:
            tops.append("?")
        in_grip = any(f.startswith("github.com/bmeg/grip/") for st in stacks[:2] for f in st)
        out.append(("race %s / %s" % tuple(sorted(tops)), block.strip(), in_grip))
    return out


def blocked_site(stacks):
    """the grip frame most handler goroutines are blocked in"""
    sites = {}
    for g in re.split(r"\n\s*\n", stacks):
        if "github.com/bmeg/grip/server.(*GripServer)" not in g:
            continue
        m = re.search(r"^(github\.com/bmeg/grip/[^\s(]+(?:\([^)]*\))?[^\s(]*)\(", g, re.M)
        if m:
            sites[short(m.group(1))] = sites.get(short(m.group(1)), 0) + 1
    if not sites:
        return "(no handler goroutine found)"
    return max(sorted(sites), key=lambda k: sites[k])


# ---------------------------------------------------------------- traces
def norm_res(call, r):
    o = dict(res=r.get("res", "?"), elems=r.get("elems") or [], state=r.get("state", ""), meta=True)
    if call["op"] in ("GetJob",):
        o["meta"] = bool(r.get("sameid", True)) and r.get("graph", call["g"]) == call["g"]
    if call["op"] in ("Submit", "GetSchema") and o["res"] == "ok":
        o["meta"] = r.get("graph", call["g"]) == call["g"]
    return o


def trace_line(i, sessions, out):
    cl = []
    for c, calls in enumerate(sessions):
        recs = out["recs"][c]
        nsub = 0
        for call in calls:
            if call["op"] == "Submit":
                nsub += 1
                call["n"] = nsub
        cl.append([dict(call=call, ti=recs[k]["ti"], tr=recs[k]["tr"], res=norm_res(call, recs[k]["res"])) for k, call in enumerate(calls)])
    f = out["final"]
    store = [dict(g=g, V=f["store"][g]["V"], E=f["store"][g]["E"]) for g in GRAPHS if g in f["store"]]
    schemas = []
    for g in GRAPHS:
        s = f["schemas"].get(g, {})
        schemas.append(dict(g=g, has_served="served" in s, served=s.get("served") or [], has_stored="stored" in s, stored=s.get("stored") or []))
    jobs = []
    for name, j in sorted(f["jobs"].items()):
        c, k = name.split(".")
        jobs.append(dict(c=int(c), k=int(k), state=j["state"], meta=True))
    return dict(i=i, comps=list(COMPS), cl=cl, final=dict(up=bool(f["up"]), store=store, schemas=schemas, jobs=jobs))


def validate(ctx, lines, realtime=True, checkfinal=True, label="", timeout=2400):
    """-> {(history id, component): emitted record} for the accepted pairs"""
    files = extra_files()
    files["trace.cfg"] = trace_cfg(realtime, checkfinal)
    files["traces.ndjson"] = "".join(json.dumps(l, separators=(",", ":")) + "\n" for l in lines)
    res = ctx.tlc(FAMILY, "ServerConcTrace", "trace.cfg", workers=8, timeout=timeout, files=files, heap="6g", count=checkfinal,
                  label=label or "validation of %d histories (%s order)" % (len(lines), "real-time" if realtime else "per-client"))
    acc = {}
    for m in res.msgs.get("acc", []):
        acc.setdefault((m["i"], m["comp"]), []).append(m)
    return acc


def describe(call):
    s = "%s(%s" % (call["op"], call.get("g", ""))
    if "id" in call and call["id"]:
        s += "," + call["id"]
    if "q" in call:
        s += "," + call["q"]
    if "elems" in call:
        s += "," + "+".join(e["id"] for e in call["elems"])
    return s + ")"


EDITS = ("AddGraph", "DeleteGraph", "AddVertex", "AddEdge", "BulkAdd", "DelVertex", "DelEdge", "AddSchema", "Submit")
OPCLASS = dict(AddGraph="AddGraph", DeleteGraph="DeleteGraph", AddVertex="write", AddEdge="write", BulkAdd="write",
               DelVertex="DelVertex", DelEdge="DelEdge", AddSchema="AddSchema", Submit="Submit", GetJob="GetJob")


def comp_of(call):
    op = call["op"]
    if op in ("AddGraph", "DeleteGraph", "AddVertex", "AddEdge", "BulkAdd", "DelVertex", "DelEdge"):
        return call["g"]
    if op == "AddSchema":
        return "schemas"
    if op in ("Submit", "GetJob"):
        return "jobs"
    return "static"


def graph_rows(G):
    """spec graph (JSON of [V |-> .., E |-> ..]) or 'absent' -> set of element tuples"""
    if not isinstance(G, dict):
        return None
    out = set()
    V, E = storecmp.dictify(G.get("V")), storecmp.dictify(G.get("E"))
    for i, r in V.items():
        out.add(("v", i, r["label"], d_of(r["data"])))
    for i, r in E.items():
        out.add(("e", i, r["label"], r["from"], r["to"], d_of(r["data"])))
    return out


def row_tuple(e):
    return ("v", e["id"], e["label"], e["d"]) if e["k"] == "v" else ("e", e["id"], e["label"], e["from"], e["to"], e["d"])


PRIORITY = ["DeleteGraph", "AddGraph", "DelVertex", "DelEdge", "AddSchema", "write"]


def touched(call):
    op = call["op"]
    if op in ("AddGraph", "DeleteGraph"):
        return None                       # everything in the graph
    if op in ("DelVertex", "DelEdge"):
        return {call["id"]}
    ids = set()
    for e in call.get("elems", []):
        ids.add(e["id"])
        if e["k"] == "e":
            ids.update((e["from"], e["to"]))
    return ids


def culprit(line, comp, ids=None):
    """names the kind of edit involved in the overlap: among the edits on this object that overlap in time with another
    edit on it (and touch the given element ids, if any), the least atomic kind (graph deletion > vertex deletion >
    edge deletion > plain write).  Only used to name a divergence TLC has established."""
    calls = [(r, c) for c, recs in enumerate(line["cl"]) for r in recs if comp_of(r["call"]) == comp and r["call"]["op"] in EDITS]
    if ids is not None:
        calls = [(r, c) for r, c in calls if touched(r["call"]) is None or touched(r["call"]) & ids]
    kinds = set()
    for r, c in calls:
        for r2, c2 in calls:
            if c2 != c and r["ti"] < r2["tr"] and r2["ti"] < r["tr"]:
                kinds.add(OPCLASS[r["call"]["op"]])
    for k in PRIORITY:
        if k in kinds:
            return "concurrent " + k
    return "no overlapping edit"


def name_final_mismatch(line, comp, reachable):
    """names the shape of a final observation no order explains"""
    if comp == "schemas":
        calls = [(r, c) for c, recs in enumerate(line["cl"]) for r in recs if comp_of(r["call"]) == comp]
        fs = [s for s in line["final"]["schemas"] if s["g"] == "g1"][0]
        served, stored = {row_tuple(e) for e in fs["served"]}, {row_tuple(e) for e in fs["stored"]}
        alls = [{row_tuple(e) for e in r["call"]["elems"]} for r, c in calls]
        if stored not in alls and any(stored & a for a in alls):
            return "stored schema graph is not the schema of one AddSchema call (%s)" % culprit(line, comp)
        if served != stored:
            return "served schema differs from the stored schema graph (%s)" % culprit(line, comp)
        return "schema of no possible last AddSchema (%s)" % culprit(line, comp)
    if comp == "jobs":
        return "job status"
    obs = [g for g in line["final"]["store"] if g["g"] == comp]
    have = {row_tuple(e) for e in obs[0]["V"] + obs[0]["E"]} if obs else None
    cands = [graph_rows(G) for G in reachable]
    if have is None or all(c is None for c in cands):
        return "graph existence (%s)" % culprit(line, comp)
    # the elements in which the observation differs from the closest final states some order reaches
    diffs = sorted(((have - c) | (c - have) for c in cands if c is not None), key=len)
    ids = set()
    for d in diffs:
        if len(d) > len(diffs[0]):
            break
        for e in d:
            ids.add(e[1])
            if e[0] == "e":
                ids.update((e[3], e[4]))
    return "no order of the acknowledged edits explains it (%s)" % culprit(line, comp, ids)


def diagnose_all(ctx, rejected):
    """rejected: [(line, [components no order explains])] -> {(i, comp): (signature, what, detail)}"""
    lines = [dict(l, comps=comps) for l, comps in rejected]
    # (naming only: the final states reachable under the real-time order are enough to locate the difference)
    acc = validate(ctx, lines, realtime=True, checkfinal=False, label="diagnosis: final states reachable in %d rejected histories" % len(lines))
    out = {}
    for l, comps in rejected:
        for comp in comps:
            kind = "store" if comp in GRAPHS else ("schema" if comp == "schemas" else comp)
            ms = acc.get((l["i"], comp), [])
            if comp == "static":
                f = l["final"]
                if not f["up"]:
                    out[(l["i"], comp)] = ("server down after the sessions", "the server did not answer ListGraphs after the last return", {})
                elif any(g["g"] not in ("g1", "g2") for g in f["store"]):
                    out[(l["i"], comp)] = ("final-state store: a graph nobody created exists", "graph listing shows a graph no call created", {})
                else:
                    out[(l["i"], comp)] = ("read provenance: a read returned an element no invoked call wrote",
                                          "a concurrent reader observed an element (id, label, endpoints, data) that no client had written", {})
            elif ms:
                reach = [m["st"][0] for m in ms if m["st"]]
                shape = name_final_mismatch(l, comp, reach)
                out[(l["i"], comp)] = ("final-state %s: %s" % (kind, shape),
                                      "after all calls had returned, the observed %s is not the result of applying the acknowledged edits in any "
                                      "order that agrees with each client's own order" % comp, dict(component=comp, reachable_finals=reach[:8]))
            else:
                out[(l["i"], comp)] = ("history %s: the answers have no linearisation" % kind,
                                      "no placement of the atomic effects produces the answers the server gave for %s" % comp, dict(component=comp))
    return out


# ---------------------------------------------------------------- main
def plan_of(ctx):
    if ctx.tier == "quick":
        #        clients, calls, walks per worker (x8)
        return [(2, 10, 5), (3, 9, 6), (4, 8, 6), (6, 6, 5), (8, 5, 4)], 200, 70
    return [(2, 12, 50), (3, 10, 54), (4, 8, 54), (6, 6, 52), (8, 5, 52)], 1800, 240


def run(ctx):
    thorough = ctx.tier != "quick"
    plan, want, want_race = plan_of(ctx)
    # knobs for self-tests of the check (mutation runs): fewer histories, no exhaustive model run
    if os.environ.get("VERIF_C17_TRACES"):
        want = int(os.environ["VERIF_C17_TRACES"])
        want_race = int(os.environ.get("VERIF_C17_RACE", want // 3))

    # build both binaries while TLC works on the model
    build_err = []

    def build():
        try:
            ctx.build_harness("srvconc", race=False)
            ctx.build_harness("srvconc", race=True)
        except Exception as e:  # re-raised below
            build_err.append(e)

    bt = threading.Thread(target=build)
    bt.start()
    mc = model_check(ctx) if not os.environ.get("VERIF_C17_NOMC") else None
    sessions = gen_sessions(ctx, plan)
    bt.join()
    if build_err:
        raise build_err[0]
    ctx.rng.shuffle(sessions)
    sessions = sessions[:want]
    if len(sessions) < want * 0.8:
        raise Inconclusive("only %d sessions generated (wanted %d)" % (len(sessions), want))
    ctx.log("%d session sets generated" % len(sessions))

    # ---- run them: GOMAXPROCS sweep, jitter levels, part of them under the race detector
    reqs = []
    for i, sess in enumerate(sessions):
        reqs.append(dict(i=i, init=["g1"], sessions=sess, procs=[1, 2, 4, 8, 16][i % 5], jitter=[0, 1, 3][(i // 5) % 3],
                         seed=ctx.rng.randrange(1 << 30), fresh=40,
                         # every third history runs next to two environment clients that create and delete graphs of
                         # their own (isolated from everything the sessions name): the server's graph bookkeeping
                         # then runs concurrently with the owner's AddGraph/DeleteGraph
                         churn=(i % 3 == 2)))
    want_race = min(want_race, len(reqs))
    race_ids = {int(k * len(reqs) / want_race) for k in range(want_race)} if want_race else set()
    plain = [r for r in reqs if r["i"] not in race_ids]
    raced = [r for r in reqs if r["i"] in race_ids]
    # the StreamBatch probe (bulk path of the mongo/psql/elastic drivers), race build only
    probes = [dict(i=len(reqs) + j, probe="streambatch", batch=b, refuse=rf,
                   elems=[dict(k="v", id="a", label="L1", d=1), dict(k="v", id="b", label="L1", d=2),
                          dict(k="e", id="e1", label="K1", **{"from": "a", "to": "b"}, d=3),
                          dict(k="e", id="e2", label="K2", **{"from": "b", "to": "a"}, d=4)])
              for j, (b, rf) in enumerate([(50, []), (50, ["a", "e1"]), (1, ["b", "e2"]), (50, ["e2"])])]
    with ThreadPoolExecutor(max_workers=2) as ex:
        f1 = ex.submit(run_harness, ctx, plain, False, "plain", 6)
        f2 = ex.submit(run_harness, ctx, raced + probes, True, "race", 6)
        outs = f1.result()
        outs.update(f2.result())

    # ---- crashes, hangs, race reports
    lines, byid = [], {}
    races = {}
    late = []
    for r in reqs + probes:
        o = outs[r["i"]]
        if "harness_err" in o or "died" in o or "bad" in o or "marshal_err" in o:
            raise Inconclusive("srvconc harness: %s" % (o.get("harness_err") or o.get("died") or o.get("bad") or o.get("marshal_err")))
        for sig, text, in_grip in parse_races(o.get("races") or ""):
            races.setdefault(sig, []).append((r, text, in_grip))
        if "crash" in o:
            for sig, text, in_grip in parse_races(o.get("trace") or ""):
                races.setdefault(sig, []).append((r, text, in_grip))
            ctx.diverge("crash %s" % o["crash"], "the server process terminated while concurrent sessions were running",
                        dict(sessions=r.get("sessions"), procs=r.get("procs"), trace=o.get("trace", "")[-3000:]))
            continue
        if "probe" in r:
            if "hang" in o:
                raise Inconclusive("StreamBatch probe did not return")
            judge_probe(ctx, r, o)
            continue
        if "hang" in o or o.get("deadline"):
            late.append(r)
            continue
        if o.get("final_deadline"):
            ctx.notes.append("history %d: reading back the final state took more than 60 s (machine load): dropped" % r["i"])
            continue
        line = trace_line(r["i"], r["sessions"], o)
        lines.append(line)
        byid[r["i"]] = (r, o, line)
    # calls that did not return within the deadline: a hang is reported only if it happens again
    if late:
        again = run_harness(ctx, [dict(r, deadline_s=240) for r in late[:4]], False, "late", 2, timeout="600s")
        for r in late[:4]:
            o2 = again[r["i"]]
            if o2.get("deadline") or "hang" in o2:
                ctx.diverge("hang %s" % blocked_site(o2.get("stacks") or o2.get("trace") or ""),
                            "calls of concurrent sessions did not return within 45 s and, repeated, within 240 s (handlers blocked)",
                            dict(sessions=r["sessions"], procs=r["procs"], stacks=(o2.get("stacks") or o2.get("trace") or "")[:8000]))
            else:
                ctx.notes.append("history %d missed the 45 s deadline once and completed when repeated with 240 s (machine load): dropped" % r["i"])
        if len(late) > 4:
            ctx.notes.append("%d more histories missed the deadline and were not repeated" % (len(late) - 4))
    for sig, occ in sorted(races.items()):
        r, text, in_grip = occ[0]
        if not in_grip:
            ctx.notes.append("race report without a grip frame (not counted): %s" % sig)
            continue
        ctx.diverge(sig, "the Go race detector reports unsynchronised access to shared state (%d reports)" % len(occ),
                    dict(report=text[:6000], sessions=r.get("sessions"), procs=r.get("procs"), probe=r.get("probe")))

    # ---- binding self-test: falsified records must be rejected
    canaries = corrupt(ctx, lines)
    mode = os.environ.get("VERIF_C17_CORRUPT")
    if mode:
        # self-test of the whole path: falsify one field of one REAL record in place; the check has to report it
        for l in lines:
            if mode == "final" and any(g["V"] for g in l["final"]["store"]):
                g = [g for g in l["final"]["store"] if g["V"]][0]
                ctx.log("CORRUPTED history %s: dropped %s from the observed final %s" % (l["i"], g["V"][0], g["g"]))
                g["V"] = g["V"][1:]
                break
            hit = [r for recs in l["cl"] for r in recs if r["call"]["op"] in ("GetVertex", "Traversal") and r["res"]["res"] == "ok"]
            if mode == "read" and hit:
                hit[0]["res"]["elems"] = hit[0]["res"]["elems"] + [dict(k="v", id="a", label="L1", d=424242)]
                ctx.log("CORRUPTED history %s: %s returns a vertex nobody wrote" % (l["i"], describe(hit[0]["call"])))
                break
            hit = [r for recs in l["cl"] for r in recs if r["call"]["op"] == "AddVertex" and r["call"]["g"] == "g2" and r["res"]["res"] == "error"
                   and not any(x["call"]["op"] == "AddGraph" for rs in l["cl"] for x in rs)]
            if mode == "ack" and hit:
                hit[0]["res"]["res"] = "ok"
                ctx.log("CORRUPTED history %s: %s acknowledged although g2 never exists" % (l["i"], describe(hit[0]["call"])))
                break

    # ---- the owner's own view of the graph listing right after its acknowledged AddGraph / DeleteGraph (the owner is
    # the only client of the history that creates or deletes that graph, so every linearisation agrees on the answer)
    for l in lines:
        r, o, _ = byid[l["i"]]
        for calls, recs in zip(r["sessions"], o.get("recs") or []):
            for call, x in zip(calls, recs):
                res = x.get("res") or {}
                la = res.get("listed_after")
                if res.get("res") == "ok" and la in ("yes", "no") and la != ("yes" if call["op"] == "AddGraph" else "no"):
                    ctx.diverge("conc graph listing stale after acknowledged %s" % call["op"],
                                "right after its own %s was acknowledged the client's ListGraphs %s the graph (other clients were creating and deleting graphs of their own)"
                                % (call["op"], "does not show" if la == "no" else "still shows"),
                                dict(sessions=r["sessions"], procs=r["procs"], jitter=r["jitter"], churn=r.get("churn"), call=call, result=res))
    # ---- validation: real-time order first; what it rejects is tried again with the order the property asks for
    accepted, nonlin, rejected_rt = validate_all(ctx, lines, canaries)
    still = []
    for l in lines:
        bad = [cm for cm in COMPS if (l["i"], cm) not in accepted]
        if bad:
            still.append((l, bad))
    diag = diagnose_all(ctx, still) if still else {}
    for l, bad in still:
        r, o, _ = byid[l["i"]]
        for cm in bad:
            sig, what, detail = diag[(l["i"], cm)]
            ctx.diverge(sig, what, dict(sessions=r["sessions"], procs=r["procs"], jitter=r["jitter"], race_build=r["i"] in race_ids,
                                        recorded=l, detail=detail))
    for l in lines:
        r, o, _ = byid[l["i"]]
        # the complete observation of the accepted final state (lookups, adjacency) against Obs of the spec state
        real = o["final"]["obs"]
        for g in ("g1", "g2"):
            m = accepted.get((l["i"], g))
            if m and m[0]["obs"] and g in real:
                asp = [a for a in storecmp.cmp_graph(m[0]["obs"][0], real[g]) if a not in ("vlabels", "elabels", "label-index")]
                if asp:
                    ctx.diverge("final-state store: listings, lookups and adjacency disagree (%s)" % culprit(l, g),
                                "the element tables are explained by an order of the edits but lookups/adjacency of the same store disagree with them",
                                dict(sessions=r["sessions"], graph=g, aspects=sorted(set(asp)), classes=sorted(storecmp.classes(asp)),
                                     recorded=l, observed=real[g]))

    # ---- evidence
    ncalls = sum(len(s) for l in lines for s in l["cl"])
    overl = sum(1 for l in lines if overlapping(l))
    ctx.cov.update(evaluations=ncalls, traces_validated_against_impl=len(lines), distinct_nontrivial=overl,
                   histories=len(lines), histories_under_race_detector=len(raced), calls=ncalls,
                   accepted_real_time=len(lines) - len(rejected_rt), accepted_client_order_only=nonlin,
                   race_signatures=sorted(races), canaries_rejected=len(canaries), model_states=mc.distinct if mc else 0,
                   rule="histories = distinct session sets drawn by TLC (-simulate) from ServerConc.tla's full alphabet, 2-8 clients, <= 40 calls, "
                        "run once each with GOMAXPROCS in {1,2,4,8,16} and three jitter levels; non-trivial = histories in which at least two "
                        "calls of different clients that touch the same graph overlap in time and one of them is an acknowledged edit")
    for l in lines[:3]:
        ctx.sample(dict(clients=len(l["cl"]), calls=[[describe(r["call"]) + "=" + r["res"]["res"] for r in recs] for recs in l["cl"]],
                        final_store=l["final"]["store"]), limit=3)
    ctx.assumptions += [
        "an edit that returned an error is not acknowledged: it may or may not have taken effect; an acknowledged edit takes effect exactly once",
        "reads (GetVertex/GetEdge/Traversal/GetSchema) are held to provenance only, as the property states; they need not be linearisable",
        "kept out of the sessions because of sequential defects handled elsewhere (C03/C06/C18): re-adding an edge id with other endpoints or label "
        "(every edge id has one definition in all sessions), label listings and the label index (not compared in the final state), BulkAdd to a "
        "graph that may be deleted (server.BulkAdd closes its channel twice for a missing graph), re-creating an existing graph (only client 1 "
        "creates and deletes g2, alternately), schemas of graphs that are deleted (the schema cache is not invalidated by DeleteGraph)",
        "one backend: kvgraph over Badger; requests reach the handlers through a real grpc.Server over an in-memory listener with the accounts "
        "interceptors chained as in server.Serve; the HTTP gateway is not exercised",
        "GripServer.jStorage is assigned only inside Serve: the harness assigns the same jobstorage.NewFSJobStorage(<workdir>/jobs) through reflection",
        "job results are not compared (C11); a status must name a submitted job of the right graph and never go back from COMPLETE",
        "schedules are those the Go scheduler produces under the GOMAXPROCS sweep and client-side jitter; no preemption points are forced inside handlers",
        "race reports whose two stacks contain no grip frame (inside Badger/gRPC) are noted, not counted",
        "util.StreamBatch is not reachable through kvgraph; it is driven directly the way the mongo/psql/elastic drivers call it, over batch "
        "writers that refuse chosen ids, and held to BulkAdd's abstract meaning (error iff something was refused, the rest is stored)",
    ]


def validate_all(ctx, lines, canaries, chunk=500):
    accepted = {}
    with ThreadPoolExecutor(max_workers=2) as ex:
        futs = [ex.submit(validate, ctx, lines[a:a + chunk] + (canaries if a == 0 else []), True) for a in range(0, len(lines), chunk)]
        for f in futs:
            accepted.update(f.result())
    for cn in canaries:
        if all((cn["i"], cm) in accepted for cm in COMPS):
            raise Inconclusive("binding self-test: corrupted history %s was accepted" % cn["i"])
    rejected_rt = [l for l in lines if any((l["i"], cm) not in accepted for cm in COMPS)]
    nonlin = 0
    if rejected_rt:
        # fallback pass in the order the property text asks for; its state space is the product of the clients' positions,
        # so it runs in small batches under a time budget: what is not decided in time gets no verdict
        todo = [dict(l, comps=[cm for cm in COMPS if (l["i"], cm) not in accepted]) for l in rejected_rt]
        acc2, undecided = {}, 0
        budget = time.time() + (240 if ctx.tier == "quick" else 600)
        for a in range(0, len(todo), 12):
            try:
                left = int(budget - time.time())
                if left < 30:
                    raise Inconclusive("tlc timeout (budget used up)")
                acc2.update(validate(ctx, todo[a:a + 12], realtime=False, timeout=left))
            except Inconclusive as e:
                if "timeout" not in str(e):
                    raise
                for l in todo[a:a + 12]:
                    for cm in l["comps"]:
                        acc2[(l["i"], cm)] = [dict(i=l["i"], comp=cm, obs=[], st=[], undecided=True)]
                        undecided += 1
        if undecided:
            ctx.notes.append("%d (history, object) pairs rejected under the real-time order were not decided under the per-client order within "
                             "the time budget: no verdict for them" % undecided)
            ctx.cov["undecided_pairs"] = undecided
        for l in rejected_rt:
            for cm in COMPS:
                if (l["i"], cm) not in accepted and (l["i"], cm) in acc2:
                    accepted[(l["i"], cm)] = acc2[(l["i"], cm)]
                    nonlin += 0 if acc2[(l["i"], cm)][0].get("undecided") else 1
        if nonlin:
            ctx.notes.append("%d (history, object) pairs are explained only by an order that keeps each client's own order but not the "
                             "real-time order of non-overlapping calls of different clients (allowed by the property text)" % nonlin)
    return accepted, nonlin, rejected_rt


def overlapping(line):
    calls = [(r["ti"], r["tr"], c, r["call"], r["res"]["res"]) for c, recs in enumerate(line["cl"]) for r in recs]
    edits = ("AddGraph", "DeleteGraph", "AddVertex", "AddEdge", "BulkAdd", "DelVertex", "DelEdge", "AddSchema")
    for a in calls:
        if a[3]["op"] not in edits or a[4] != "ok":
            continue
        for b in calls:
            if b[2] != a[2] and b[3].get("g") == a[3].get("g") and a[0] < b[1] and b[0] < a[1]:
                return True
    return False


def judge_probe(ctx, r, o):
    p = o.get("probe") or {}
    if "harness_err" in p:
        raise Inconclusive("StreamBatch probe: " + p["harness_err"])
    refused = set(r["refuse"])
    want_err = bool(refused)
    if (p.get("res") == "error") != want_err:
        ctx.diverge("StreamBatch result: %s although %s" % (p.get("res"), "batches were refused" if want_err else "nothing was refused"),
                    "util.StreamBatch's result does not say whether an element was refused", dict(request=r, outcome=p))


def corrupt(ctx, lines):
    """three falsified copies of recorded histories; the trace spec has to reject each of them"""
    out = []
    # (a) the final store holds a vertex with data nobody wrote
    if lines:
        c = json.loads(json.dumps(lines[0]))
        c["i"] = "canary-corrupt-final"
        g1 = [g for g in c["final"]["store"] if g["g"] == "g1"]
        if g1 and g1[0]["V"]:
            g1[0]["V"][0]["d"] = 999999
        elif g1:
            g1[0]["V"] = [dict(k="v", id="a", label="L1", d=999999)]
        if g1:
            out.append(c)
    # (b) a read returns an element nobody wrote
    for l in lines:
        hit = [(ci, k) for ci, recs in enumerate(l["cl"]) for k, r in enumerate(recs)
               if r["call"]["op"] in ("GetVertex", "Traversal") and r["res"]["res"] == "ok"]
        if hit:
            c = json.loads(json.dumps(l))
            c["i"] = "canary-phantom-read"
            ci, k = hit[0]
            c["cl"][ci][k]["res"]["elems"] = [dict(k="v", id="a", label="L1", d=9999)]
            out.append(c)
            break
    # (c) the server is reported down
    if lines:
        c = json.loads(json.dumps(lines[0]))
        c["i"] = "canary-down"
        c["final"]["up"] = False
        out.append(c)
    if len(out) < 3:
        raise Inconclusive("binding self-test: could not build the corrupted histories")
    return out
