"""C09 - secondary-index answers equal a scan of the live documents.

spec/kvindex/KVIndex.tla is the oracle: state = registered field paths + live documents, the
queries are brute-force scans.  TLC is used twice per configuration:
  generation  all histories of AddField/RemoveField/AddDoc(insert or replace)/RemoveDoc up to a
              length bound (exhaustive cfgs), or random walks (-simulate) for long histories; every
              history is printed with the abstract state after each step;
  oracle      for every abstract state the histories visit TLC prints the answer of every query
              (ids per term, terms, counts, min, max, range counts, ascending listing) for every
              field/term/range of the universe.
harness/kvidx replays every history on kvindex.NewIndex over a real Badger store (emptied before
each history) and calls every public query method after the steps selected by an observation
schedule: after every step (the count queries write counters back, so this is one family of
interleavings), only after the last step (no query in between), or a random subset.  This file only
joins the two TLC outputs with the harness output and compares."""
import json
import os
import re
import shutil

from vlib import Inconclusive, SPEC

QUERIES_PER_FIELD = None  # filled from the universe


# ----------------------------------------------------------------------------- TLC output helpers
def _obj(x):
    """TLC prints an empty function as []"""
    return x if isinstance(x, dict) else {}


def norm_state(s):
    docs = _obj(s.get("docs"))
    return dict(fields=sorted(s.get("fields") or []), docs={d: _obj(v) for d, v in docs.items()})


def skey(s):
    return json.dumps(s, sort_keys=True, separators=(",", ":"))


def norm_op(o):
    o = dict(o)
    if o.get("op") == "AddDoc":
        o["v"] = _obj(o.get("v"))
    return o


def tla_term(t):
    return '<<"%s", %s>>' % (t[0], json.dumps(t[1]) if t[0] == "s" else int(t[1]))


def tla_fun(items):
    items = list(items)
    if not items:
        return "<<>>"
    return "(" + " @@ ".join('%s :> %s' % (json.dumps(k), v) for k, v in items) + ")"


def tla_state(s):
    return "[fields |-> {%s}, docs |-> %s]" % (
        ", ".join(json.dumps(f) for f in s["fields"]),
        tla_fun((d, tla_fun((p, tla_term(t)) for p, t in sorted(v.items()))) for d, v in sorted(s["docs"].items())))


def states_module(states):
    return ("---- MODULE KVIndexStates ----\nEXTENDS Integers, TLC\nStateSeq == <<\n" +
            ",\n".join(tla_state(s) for s in states) + "\n>>\n====\n")


def oracle_cfg(gen_cfg_text, bounds=None):
    """The oracle configuration is the CONSTANTS block of the generating cfg with the oracle's
    INIT/NEXT and invariants."""
    head = re.split(r"^(?:SPECIFICATION|INIT)\b", gen_cfg_text, flags=re.M)[0]
    if bounds:
        head = re.sub(r"Bounds <- \w+", "Bounds <- " + bounds, head)
    return head + "INIT OInit\nNEXT ONext\nINVARIANT Sanity\nINVARIANT EmitAnswers\nCHECK_DEADLOCK FALSE\n"


def run_oracle(ctx, cfg_name, states, bounds=None, label="oracle", timeout=900):
    """states: dict skey -> normalised state.  Returns dict skey -> answers per field."""
    with open(os.path.join(SPEC, "kvindex", cfg_name)) as fh:
        cfg_text = fh.read()
    lst = list(states.values())
    res = ctx.tlc("kvindex", "KVIndex", "oracle.cfg", workers=8, timeout=timeout, count=False, label=label,
                  files={"oracle.cfg": oracle_cfg(cfg_text, bounds), "KVIndexStates.tla": states_module(lst)})
    ans = {}
    for m in res.msgs.get("ans", []):
        ans[skey(norm_state(m["s"]))] = _obj(m["x"])
    missing = [k for k in states if k not in ans]
    if missing:
        raise Inconclusive("oracle run answered %d of %d states (first missing: %s)" % (len(ans), len(states), missing[0]))
    return ans


# ----------------------------------------------------------------------------- comparison
def tk(t):
    return json.dumps(t, separators=(",", ":"))


def cmp_set(method, got, want, extra="stale", missing="missing"):
    """got: list of canonical keys (duplicates possible), want: set of keys."""
    gs = set(got)
    if len(gs) != len(got):
        return (method, "duplicate-" + ("ids" if method.startswith("GetTermMatch") else "entries"))
    e, m = gs - want, want - gs
    if e and m:
        return (method, "wrong-" + extra.split("-")[-1] if False else "%s+%s" % (extra, missing))
    if e:
        return (method, extra)
    if m:
        return (method, missing)
    return None


def cmp_counts(method, got, want):
    """got: list of [term, count]; want: list of {t, c}."""
    g = {}
    for t, c in got:
        if tk(t) in g:
            return (method, "duplicate-term")
        g[tk(t)] = c
    w = {tk(r["t"]): r["c"] for r in want}
    e, m = set(g) - set(w), set(w) - set(g)
    if e and m:
        return (method, "stale-term+missing-term")
    if e:
        return (method, "stale-term")
    if m:
        return (method, "missing-term")
    if any(g[k] != w[k] for k in w):
        return (method, "wrong-count")
    return None


def compare_field(x, b):
    """x: oracle answers for one field, b: harness body for it.  Returns the list of differing
    queries as (method, shape, detail) in a fixed priority order (root cause first)."""
    out = []

    def add(p, detail):
        if p:
            out.append((p[0], p[1], detail))

    if "hang" in b:
        return [(b["hang"]["method"], "never-returns", b["hang"])]
    want_ids = {tk(r["t"]): set(r["ids"]) for r in x["match"]}
    for t, ids in b["match"]:
        w = want_ids.get(tk(t))
        if w is None:
            raise Inconclusive("oracle has no match answer for term %s" % t)
        add(cmp_set("GetTermMatch", ids, w, "stale-ids", "missing-ids"), dict(term=t, got=ids, want=sorted(w)))
    for t, ids in b["match1"]:
        w = want_ids[tk(t)]
        if len(ids) != min(1, len(w)) or not set(ids) <= w:
            add(("GetTermMatch(maxCount=1)", "wrong-ids"), dict(term=t, got=ids, want_subset_of=sorted(w)))
    wt = {tk(t) for t in x["terms"]}
    add(cmp_set("FieldTerms", [tk(t) for t in b["terms"]], wt, "stale-term", "missing-term"),
        dict(got=b["terms"], want=x["terms"]))
    add(cmp_counts("FieldStringTermCounts", b["scounts"], x["scounts"]), dict(got=b["scounts"], want=x["scounts"]))
    add(cmp_counts("FieldTermCounts", b["counts"], x["counts"]), dict(got=b["counts"], want=x["counts"]))
    add(cmp_counts("FieldTermCounts(second call)", b["counts2"], x["counts"]), dict(got=b["counts2"], want=x["counts"]))
    add(cmp_set("FieldTerms(after counts)", [tk(t) for t in b.get("terms2", [])], wt, "stale-term", "missing-term"),
        dict(got=b.get("terms2"), want=x["terms"]))
    gn, wn = list(b["numbers"]), list(x["numbers"])
    if sorted(map(str, gn)) != sorted(map(str, wn)):
        ge, we = list(gn), list(wn)
        for v in list(ge):
            if v in we:
                ge.remove(v)
                we.remove(v)
        shape = "stale+missing" if ge and we else ("stale-entries" if ge else "missing-entries")
        add(("FieldNumbers", shape), dict(got=gn, want=wn))
    elif gn != wn:
        add(("FieldNumbers", "not-ascending"), dict(got=gn, want=wn))
    if x["hasnum"]:
        if b["min"] != x["min"]:
            add(("FieldTermNumberMin", "wrong-value"), dict(got=b["min"], want=x["min"], numbers=wn))
        if b["max"] != x["max"]:
            add(("FieldTermNumberMax", "wrong-value"), dict(got=b["max"], want=x["max"], numbers=wn))
    wr = {(r["lo"], r["hi"]): r for r in x["ranges"]}
    for lo, hi, got in b["ranges"]:
        r = wr.get((lo, hi))
        if r is None:
            raise Inconclusive("oracle has no range answer for %s..%s" % (lo, hi))
        inner = {e["k"]: e["c"] for e in r["in"]}
        edge = {e["k"]: e["c"] for e in r["edge"]}
        g = {}
        shape = None
        for k, c in got:
            if k in g:
                shape = "duplicate-number"
            g[k] = c
        if shape is None:
            if any(k not in g for k in inner):
                shape = "missing-number"
            elif any(k not in inner and k not in edge for k in g):
                shape = "out-of-range-or-stale-number"
            elif any(g[k] != (inner.get(k, edge.get(k))) for k in g):
                shape = "wrong-count"
        if shape:
            add(("FieldTermNumberRange", shape), dict(lo=lo, hi=hi, got=got, inside=r["in"], at_limits_open=r["edge"]))
    return out


class Comparer:
    def __init__(self, ctx, answers, defs):
        self.ctx, self.answers, self.defs = ctx, answers, defs
        self.cache = {}
        self.compared = 0

    def problems(self, state_key, state, obs_id):
        key = (state_key, obs_id)
        if key in self.cache:
            return self.cache[key]
        body = self.defs.get(obs_id)
        if body is None:
            raise Inconclusive("harness referenced an observation it never defined (%s)" % obs_id)
        x = self.answers[state_key]
        out = []
        for f in state["fields"]:
            if f not in body:
                raise Inconclusive("harness did not observe registered field %s" % f)
            if "harness_err" in body[f]:
                raise Inconclusive("harness error: %s" % body[f]["harness_err"])
            for (m, shape, detail) in compare_field(x[f], body[f]):
                out.append((m, shape, dict(detail, field=f)))
        for f, b in body.items():
            if f not in state["fields"] and "hang" in b:
                out.append((b["hang"]["method"], "never-returns (unregistered field)", dict(field=f, hang=b["hang"])))
        self.compared += 1
        self.cache[key] = out
        return out


# ----------------------------------------------------------------------------- one configuration
def shm_dir(ctx):
    return os.path.join("/dev/shm", os.path.basename(ctx.scratch))


def shm_env(ctx):
    """Badger syncs every commit: keep the stores of the replay in memory-backed scratch when there is one."""
    d = shm_dir(ctx)
    try:
        os.makedirs(d, exist_ok=True)
        return {"VERIF_SHM": d}
    except OSError:
        return {}


def obs_all(n):
    return [True] * n


def obs_last(n):
    return [False] * (n - 1) + [True]


def replay_and_compare(ctx, name, universe, behaviours, answers, emb="halves", jobs=8, qtimeout=10, timeout=1500,
                       corrupt=False):
    """behaviours: list of dict(steps=[ops], states=[(skey, state) per step], obs=[bool per step], sched=str).
    Replays them and records the first divergence of each behaviour."""
    setup = dict(setup=True, fields=universe["fields"], terms=universe["terms"], bounds=universe["bounds"], emb=emb,
                 qtimeout_s=qtimeout)
    lines = [setup] + [dict(i=i, steps=b["steps"], obs=b["obs"]) for i, b in enumerate(behaviours)]
    inp = ctx.write_ndjson("kvidx_%s_in.ndjson" % name, lines)
    outp = inp.replace("_in.", "_out.")
    ctx.harness(["kvidx", "-j", str(jobs), "-timeout", "120s"], input_path=inp, output_path=outp, timeout=timeout,
                env=shm_env(ctx))
    outs, defs = {}, {}
    for o in ctx.read_ndjson(outp):
        if "i" in o:
            outs[o["i"]] = o
            for k, v in (o.get("defs") or {}).items():
                defs[k] = v
    if len(outs) != len(behaviours):
        raise Inconclusive("harness answered %d of %d behaviours" % (len(outs), len(behaviours)))
    if corrupt:
        # self-test of the binding: falsify one expected value
        for k, x in answers.items():
            for f, a in x.items():
                if a["counts"]:
                    a["counts"][0]["c"] += 1
                    break
            else:
                continue
            break
    cmpr = Comparer(ctx, answers, defs)
    found = {}  # signature -> [count, [examples]]
    nontrivial = 0
    observations = 0
    for i, b in enumerate(behaviours):
        o = outs[i]
        if "harness_err" in o:
            raise Inconclusive("harness: %s" % o["harness_err"])
        if "died" in o:
            raise Inconclusive("worker died without a Go panic: %s" % o.get("trace", "")[-500:])
        first = None
        if "crash" in o or "hang" in o:
            kind = "crash" if "crash" in o else "hang"
            first = ("kvindex %s: %s" % (kind, o[kind]), "a history made the index code %s" % kind,
                     dict(steps=b["steps"], obs=b["obs"], emb=emb, trace=o.get("trace", "")[-3000:]))
        errs = {e["k"]: e for e in o.get("errs", [])}
        pan = o.get("panic")
        nt = False
        for k in range(len(b["steps"])):
            if first:
                break
            if pan and pan["k"] == k:
                site = re.sub(r"0x[0-9a-f]+|\d+", "N", pan["panic"].splitlines()[0])[:100]
                first = ("kvindex panic in %s: %s" % (pan["op"], site), "panic in the calling goroutine",
                         dict(steps=b["steps"][:k + 1], obs=b["obs"][:k + 1], emb=emb, panic=pan["panic"][:2000]))
                break
            if k in errs:
                e = errs[k]
                cls = re.sub(r"[\x00-\x1f]|[^ -~]", "?", e["err"])
                cls = re.sub(r"(key|document) \S+", r"\1 _", cls)[:80]
                first = ("kvindex.%s returns error" % e["op"],
                         "%s failed (%s) on a history the property covers; the operation is not performed" % (e["op"], cls),
                         dict(steps=b["steps"][:k + 1], obs=b["obs"][:k + 1], emb=emb, step=k, error=e["err"]))
                break
            oid = o["o"][k] if k < len(o.get("o", [])) else None
            if not b["obs"][k]:
                continue
            if oid is None:
                raise Inconclusive("behaviour %d: step %d was to be observed but was not" % (i, k))
            observations += 1
            sk, st = b["states"][k]
            if st["fields"] and any(set(v) & set(st["fields"]) for v in st["docs"].values()):
                nt = True
            probs = cmpr.problems(sk, st, oid)
            if probs:
                m, shape, detail = probs[0]
                first = ("kvindex.%s %s" % (m, shape),
                         "%s differs from the scan of the live documents (%s) after step %d = %s [observed: %s]; also differing here: %s"
                         % (m, shape, k + 1, json.dumps(b["steps"][k]), b["sched"],
                            ", ".join(sorted({"%s %s" % (p[0], p[1]) for p in probs[1:]})) or "nothing"),
                         dict(steps=b["steps"][:k + 1], obs=b["obs"][:k + 1], emb=emb, step=k, live=st, query=m, detail=detail))
        nontrivial += 1 if nt else 0
        if first:
            ent = found.setdefault(first[0], [0, []])
            ent[0] += 1
            ent[1].append((len(first[2].get("steps", [])), first))
    for sig, (n, exs) in sorted(found.items()):
        exs.sort(key=lambda e: e[0])
        for _, (s, what, rep) in exs[:4]:
            ctx.diverge(s, "%s (%d behaviours of %s)" % (what, n, name), rep)
    ctx.log("%s[%s]: %d behaviours, %d observations (%d distinct state/answer pairs compared), %d divergent: %s" % (
        name, emb, len(behaviours), observations, cmpr.compared, sum(v[0] for v in found.values()),
        {k: v[0] for k, v in found.items()} or "none"))
    nq = len(universe["terms"]) * 2 + 8 + len([1 for a in universe["bounds"] for c in universe["bounds"] if a <= c])
    return dict(behaviours=len(behaviours), observations=observations, nontrivial=nontrivial,
                queries=observations * nq * max(1, len(universe["fields"])), divergent={k: v[0] for k, v in found.items()})


def gen_exhaustive(ctx, cfg):
    res = ctx.tlc("kvindex", "KVIndex", cfg, workers=8, timeout=900, label="generate")
    uni = res.msgs["universe"][0]
    nodes = res.msgs.get("node", [])
    if not nodes:
        raise Inconclusive("no histories emitted by %s" % cfg)
    res.msgs.clear()
    by_h = {}
    states = {}
    maxlen = 0
    for n in nodes:
        h = [norm_op(o) for o in n["h"]]
        s = norm_state(n["s"])
        k = skey(s)
        states.setdefault(k, s)
        by_h[json.dumps(h, sort_keys=True)] = (h, k)
        maxlen = max(maxlen, len(h))
    del nodes
    behaviours = []
    for hk, (h, k) in by_h.items():
        sts = []
        for j in range(1, len(h) + 1):
            kk = by_h[json.dumps(h[:j], sort_keys=True)][1]
            sts.append((kk, states[kk]))
        if len(h) == maxlen:
            behaviours.append(dict(steps=h, states=sts, obs=obs_all(len(h)), sched="after every step"))
        if len(h) >= 2:
            behaviours.append(dict(steps=h, states=sts, obs=obs_last(len(h)), sched="only after the last step"))
    return uni, states, behaviours, dict(histories=len(by_h), maxlen=maxlen, tlc_states=res.distinct)


def gen_walks(ctx, cfg, num, depth, seed=None):
    res = ctx.tlc("kvindex", "KVIndex", cfg, workers=8, timeout=900, simulate="num=%d" % num, depth=depth + 1,
                  seed=seed, label="random walks")
    uni = res.msgs["universe"][0]
    walks = res.msgs.get("walk", [])
    if not walks:
        raise Inconclusive("no walks emitted by %s" % cfg)
    seen = set()
    states = {}
    behaviours = []
    for w in walks:
        h = [norm_op(o) for o in w["h"]]
        hk = json.dumps(h, sort_keys=True)
        if hk in seen:
            continue
        seen.add(hk)
        sts = []
        for s in w["ss"]:
            s = norm_state(s)
            k = skey(s)
            states.setdefault(k, s)
            sts.append((k, states[k]))
        n = len(h)
        mask = [ctx.rng.random() < 0.3 for _ in range(n - 1)] + [True]
        behaviours.append(dict(steps=h, states=sts, obs=obs_all(n), sched="after every step"))
        behaviours.append(dict(steps=h, states=sts, obs=obs_last(n), sched="only after the last step"))
        behaviours.append(dict(steps=h, states=sts, obs=mask, sched="after a random subset of the steps"))
    return uni, states, behaviours, dict(histories=len(seen), maxlen=depth)


def uni_norm(u):
    return dict(fields=sorted(u["fields"]), docs=sorted(u["docs"]), terms=sorted(u["terms"], key=tk), bounds=sorted(u["bounds"]))


# ----------------------------------------------------------------------------- volume probe
def volume_probe(ctx, n, corrupt=False):
    """FieldTermNumberRange over more distinct numbers than the implementation's result buffer:
    n documents with n distinct numbers, one observation at the end.  Expected answers come from
    the same oracle (KVIndex_vol.cfg: wide range limits)."""
    steps = [dict(op="AddField", f="f")]
    docs = {}
    for j in range(n):
        d = "v%04d" % j
        v = {"f": ["n", j - n // 2]}
        docs[d] = v
        steps.append(dict(op="AddDoc", d=d, v=v))
    st = dict(fields=["f"], docs=docs)
    k = skey(st)
    answers = run_oracle(ctx, "KVIndex_vol.cfg", {k: st}, label="oracle volume n=%d" % n)
    with open(os.path.join(SPEC, "kvindex", "KVIndex_vol.cfg")) as fh:
        pass
    uni = dict(fields=["f"], docs=[], terms=[["s", "a"], ["n", 0], ["n", 3]], bounds=[-1000, -3, 0, 3, 1000])
    sts = [(None, None)] * (len(steps) - 1) + [(k, st)]
    b = dict(steps=steps, states=sts, obs=obs_last(len(steps)), sched="only after the last step")
    return replay_and_compare(ctx, "volume%d" % n, uni, [b], answers, jobs=1, qtimeout=4, timeout=300)


# ----------------------------------------------------------------------------- driver
PLAN = {
    # (exhaustive cfgs, [(sim cfg, walks, depth, embeddings)], volume sizes)
    "quick": dict(exh=[("KVIndex_q1.cfg", ["halves"]), ("KVIndex_q2.cfg", ["halves"])],
                  sim=[("KVIndex_sim.cfg", 250, 24, ["halves", "extreme"])], volume=[150, 260]),
    "thorough": dict(exh=[("KVIndex_t1.cfg", ["halves", "extreme"]), ("KVIndex_t2.cfg", ["halves"])],
                     sim=[("KVIndex_sim.cfg", 2500, 30, ["halves", "extreme"])], volume=[150, 260]),
}


def run(ctx):
    try:
        _run(ctx)
    finally:
        shutil.rmtree(shm_dir(ctx), ignore_errors=True)


def _run(ctx):
    corrupt = os.environ.get("C09_SELFTEST_CORRUPT") == "1"
    if ctx.replay:
        return run_replay(ctx)
    plan = PLAN[ctx.tier]
    tot = dict(behaviours=0, observations=0, nontrivial=0, queries=0)
    parts = []

    def account(name, emb, r, info):
        for k in tot:
            tot[k] += r[k]
        parts.append(dict(cfg=name, embedding=emb, **dict(info, **{k: r[k] for k in ("behaviours", "observations", "divergent")})))

    for cfg, embs in plan["exh"]:
        uni, states, behaviours, info = gen_exhaustive(ctx, cfg)
        answers = run_oracle(ctx, cfg, states, label="oracle " + cfg)
        ctx.log("%s: %d histories (all up to length %d), %d abstract states, %d replays" % (
            cfg, info["histories"], info["maxlen"], len(states), len(behaviours)))
        for emb in embs:
            r = replay_and_compare(ctx, cfg.split(".")[0].replace("KVIndex_", ""), uni_norm(uni), behaviours, answers,
                                   emb=emb, corrupt=corrupt)
            account(cfg, emb, r, dict(info, exhaustive=True))
        if len(ctx.cov["samples"]) < 3:
            b = behaviours[len(behaviours) // 2]
            ctx.sample(dict(cfg=cfg, steps=b["steps"], observed=b["sched"], live_after_last_step=b["states"][-1][1],
                            expected_answers_after_last_step=answers[b["states"][-1][0]]))
        del behaviours, answers, states
    for cfg, num, depth, embs in plan["sim"]:
        for n, emb in enumerate(embs):
            uni, states, behaviours, info = gen_walks(ctx, cfg, num, depth, seed=ctx.seed * 7919 + n)
            answers = run_oracle(ctx, cfg, states, label="oracle " + cfg)
            ctx.log("%s: %d random histories of length %d, %d abstract states" % (cfg, info["histories"], depth, len(states)))
            r = replay_and_compare(ctx, "sim_" + emb, uni_norm(uni), behaviours, answers, emb=emb)
            account(cfg, emb, r, dict(info, exhaustive=False))
    hangs = 0
    for n in plan["volume"]:
        r = volume_probe(ctx, n)
        account("KVIndex_vol.cfg n=%d" % n, "halves", r, dict(histories=1, maxlen=n + 1, exhaustive=False))
    ctx.cov.update(
        evaluations=tot["queries"], distinct_nontrivial=tot["nontrivial"], traces_validated_against_impl=tot["behaviours"],
        exhaustive=True, runs=parts,
        rule="evaluations = public query calls compared (per observation: 2 GetTermMatch per universe term, FieldTerms x2, "
             "FieldNumbers, Min, Max, one FieldTermNumberRange per limit pair lo<=hi, FieldStringTermCounts, FieldTermCounts x2, "
             "per universe field); distinct_nontrivial = replayed (history, observation schedule) pairs in which some observed "
             "state has a live document under a registered field; exhaustive = every history of the exhaustive cfgs up to their "
             "length bound is replayed (the random walks and the volume probe are samples)")
    ctx.assumptions += [
        "documents only carry paths that are registered when the document is added, and a path is (re-)registered only while no "
        "live document carries it: what the index holds for documents added before a field was registered is left open by the "
        "property (\"currently live documents\")",
        "queries on a path that is not registered are only probed for termination, their answers are not compared",
        "AddField of a registered path and RemoveField of an unregistered one are not generated",
        "FieldTermNumberRange(lo,hi): numbers strictly inside must be reported, numbers outside [lo,hi] must not; whether a number "
        "equal to a limit is reported is left open (if reported its count must be exact); lo>hi is not queried",
        "FieldTermNumberMin/Max on a field without numbers are not compared; result order is only demanded of FieldNumbers",
        "terms are strings and float64 (other JSON types make AddDoc fail as unsupported and are not generated); no empty string, "
        "no -0.0/NaN/Inf; numbers are spec integers mapped by a strictly increasing embedding (k/2, and a table of float64 "
        "sign/magnitude boundary values)",
        "documents are written with KVIndex.AddDoc; AddDocTx on a write-only batch (as kvgraph uses it) is not exercised here",
        "store: Badger only, emptied before every history; single client (no concurrent calls)",
    ]


def run_replay(ctx):
    with open(ctx.replay) as fh:
        rep = json.load(fh)["replay"]
    steps = rep["steps"]
    # rebuild the abstract states of the stored history with TLC is not possible without the cfg; the
    # replay file stores the live documents of the divergent step, which is all the oracle needs
    st = norm_state(rep["live"]) if "live" in rep else None
    if st is None:
        raise Inconclusive("replay file has no observed state")
    k = skey(st)
    cfg = "KVIndex_vol.cfg" if len(steps) > 40 else "KVIndex_sim.cfg"
    answers = run_oracle(ctx, cfg, {k: st})
    with open(os.path.join(SPEC, "kvindex", cfg)) as fh:
        pass
    if cfg == "KVIndex_vol.cfg":
        uni = dict(fields=["f"], docs=[], terms=[["s", "a"], ["n", 0], ["n", 3]], bounds=[-1000, -3, 0, 3, 1000])
    else:
        uni = dict(fields=["f", "g.h"], docs=[], terms=[["s", "a"], ["s", "b"]] + [["n", n] for n in (-4, -2, -1, 0, 1, 2, 4)],
                   bounds=[-5, -3, -1, 0, 1, 3, 5])
    sts = [(None, None)] * (len(steps) - 1) + [(k, st)]
    obs = rep.get("obs") or obs_last(len(steps))
    obs = [bool(x) for x in obs[:-1]] + [True]
    # earlier observations are executed (they change counters) but only the last one is compared
    b = dict(steps=steps, states=[(k, st)] * len(steps), obs=obs, sched="as recorded")
    only_last = dict(b, states=sts)
    replay_and_compare_last(ctx, uni, only_last, answers, rep.get("emb", "halves"))


def replay_and_compare_last(ctx, uni, b, answers, emb):
    real_obs = list(b["obs"])
    setup = dict(setup=True, fields=uni["fields"], terms=uni["terms"], bounds=uni["bounds"], emb=emb, qtimeout_s=4)
    inp = ctx.write_ndjson("kvidx_replay_in.ndjson", [setup, dict(i=0, steps=b["steps"], obs=real_obs)])
    outp = inp.replace("_in.", "_out.")
    ctx.harness(["kvidx", "-j", "1"], input_path=inp, output_path=outp, env=shm_env(ctx))
    o = [x for x in ctx.read_ndjson(outp) if "i" in x][0]
    if o.get("errs"):
        e = o["errs"][0]
        ctx.diverge("kvindex.%s returns error" % e["op"], e["err"], dict(steps=b["steps"]))
        return
    defs = o.get("defs") or {}
    last = len(b["steps"]) - 1
    sk, st = b["states"][last]
    probs = Comparer(ctx, answers, defs).problems(sk, st, o["o"][last])
    for m, shape, detail in probs[:1]:
        ctx.diverge("kvindex.%s %s" % (m, shape), "reproduced from the replay file", dict(steps=b["steps"], detail=detail))
    ctx.log("replay: %d differing queries" % len(probs))
