"""C09 - secondary-index answers equal a scan of the live documents.

spec/kvindex/KVIndex.tla is the oracle: state = registered field paths + live documents + the
<<document, path>> pairs whose value is OPEN (the path was removed, and possibly registered again,
after the document was added: the property does not say whether the index reports such a value), the
queries are brute-force scans.  TLC is used twice per configuration:
  generation  all histories of AddField/RemoveField/AddDoc(insert or replace)/RemoveDoc up to a
              length bound (exhaustive cfgs), or random walks (-simulate) for long histories; every
              history is printed with the abstract state after each step;
  oracle      for every abstract state the histories visit TLC prints the accepted answers of every
              query (ids per term, terms, counts, min, max, range counts, ascending listing) for
              every field/term/range of the universe: the scan over the carriers whose value is firm
              plus each subset of the open ones - exactly one answer where nothing is open.
harness/kvidx replays every history on kvindex.NewIndex over a real Badger store (emptied before
each history) and calls every public query method after the steps selected by an observation
schedule: after every step (the count queries write counters back, so this is one family of
interleavings), only after the last step (no query in between), or a random subset.  This file only
joins the two TLC outputs with the harness output and compares."""
import json
import os
import re
import shutil

from vlib import Inconclusive, SPEC

# ----------------------------------------------------------------------------- TLC output helpers
def _obj(x):
    """TLC prints an empty function as []"""
    return x if isinstance(x, dict) else {}


def norm_state(s):
    """fields, docs and the open <<doc, path>> pairs (see KVIndex.tla: values the index may or may not report)"""
    docs = _obj(s.get("docs"))
    return dict(fields=sorted(s.get("fields") or []), docs={d: _obj(v) for d, v in docs.items()},
                open=sorted([str(p[0]), str(p[1])] for p in (s.get("open") or [])))


def open_of(st, registered_only=True):
    """the open pairs of a state (by default those under a registered path: the ones a query can meet)"""
    return [p for p in st.get("open", []) if not registered_only or p[1] in st["fields"]]


def skey(s):
    return json.dumps(s, sort_keys=True, separators=(",", ":"))


def norm_op(o):
    o = dict(o)
    if o.get("op") == "AddDoc":
        o["v"] = _obj(o.get("v"))
    return o


def tla_term(t):
    return '<<"%s", %s>>' % (t[0], json.dumps(t[1]) if t[0] == "s" else int(t[1]))


def tla_fun(items):
    items = list(items)
    if not items:
        return "<<>>"
    return "(" + " @@ ".join('%s :> %s' % (json.dumps(k), v) for k, v in items) + ")"


def tla_state(s):
    return "[fields |-> {%s}, docs |-> %s, open |-> {%s}]" % (
        ", ".join(json.dumps(f) for f in s["fields"]),
        tla_fun((d, tla_fun((p, tla_term(t)) for p, t in sorted(v.items()))) for d, v in sorted(s["docs"].items())),
        ", ".join("<<%s, %s>>" % (json.dumps(d), json.dumps(f)) for d, f in s.get("open", [])))


def states_module(states):
    return ("---- MODULE KVIndexStates ----\nEXTENDS Integers, TLC\nStateSeq == <<\n" +
            ",\n".join(tla_state(s) for s in states) + "\n>>\n====\n")


def oracle_cfg(gen_cfg_text, bounds=None, sanity=True):
    """The oracle configuration is the CONSTANTS block of the generating cfg with the oracle's
    INIT/NEXT and invariants."""
    head = re.split(r"^(?:SPECIFICATION|INIT)\b", gen_cfg_text, flags=re.M)[0]
    if bounds:
        head = re.sub(r"Bounds <- \w+", "Bounds <- " + bounds, head)
    return head + "INIT OInit\nNEXT ONext\n%sINVARIANT EmitAnswers\nCHECK_DEADLOCK FALSE\n" % (
        "INVARIANT Sanity\n" if sanity else "")


def run_oracle(ctx, cfg_name, states, bounds=None, label="oracle", timeout=900, sanity=True):
    """states: dict skey -> normalised state.  Returns dict skey -> answers per field."""
    with open(os.path.join(SPEC, "kvindex", cfg_name)) as fh:
        cfg_text = fh.read()
    lst = list(states.values())
    res = ctx.tlc("kvindex", "KVIndex", "oracle.cfg", workers=8, timeout=timeout, count=False, label=label,
                  files={"oracle.cfg": oracle_cfg(cfg_text, bounds, sanity), "KVIndexStates.tla": states_module(lst)})
    run_oracle.universe = uni_norm(res.msgs["universe"][0])
    ans = {}
    for m in res.msgs.get("ans", []):
        ans[skey(norm_state(m["s"]))] = _obj(m["x"])
    missing = [k for k in states if k not in ans]
    if missing:
        raise Inconclusive("oracle run answered %d of %d states (first missing: %s)" % (len(ans), len(states), missing[0]))
    return ans


# ----------------------------------------------------------------------------- comparison
def tk(t):
    return json.dumps(t, separators=(",", ":"))


def cmp_set(method, got, want, extra="stale", missing="missing"):
    """got: list of canonical keys (duplicates possible), want: set of keys."""
    gs = set(got)
    if len(gs) != len(got):
        return (method, "duplicate-" + ("ids" if method.startswith("GetTermMatch") else "entries"))
    e, m = gs - want, want - gs
    if e and m:
        return (method, "%s+%s" % (extra, missing))
    if e:
        return (method, extra)
    if m:
        return (method, missing)
    return None


def cmp_counts(method, got, want):
    """got: list of [term, count]; want: list of {t, c}."""
    g = {}
    for t, c in got:
        if tk(t) in g:
            return (method, "duplicate-term")
        g[tk(t)] = c
    w = {tk(r["t"]): r["c"] for r in want}
    e, m = set(g) - set(w), set(w) - set(g)
    if e and m:
        return (method, "stale-term+missing-term")
    if e:
        return (method, "stale-term")
    if m:
        return (method, "missing-term")
    if any(g[k] != w[k] for k in w):
        return (method, "wrong-count")
    return None


class View:
    """One accepted answer set of a field: the scan over the firm carriers plus one subset of the open ones."""

    def __init__(self, x):
        self.x = x
        self.ids = {tk(r["t"]): set(r["ids"]) for r in x["match"]}
        self.terms = {tk(t) for t in x["terms"]}
        self.ranges = {(r["lo"], r["hi"]): r for r in x["ranges"]}
        self.size = sum(len(v) for v in self.ids.values())


def field_queries(b, known_ids):
    """b: harness body of one field.  Yields (method, check) per query CALL in a fixed priority order (root cause
    first); check(view) returns None if the call's answer is the one of that view, else (shape, detail)."""

    def q_match(t, ids):
        def check(v):
            w = v.ids.get(tk(t))
            if w is None:
                raise Inconclusive("oracle has no match answer for term %s" % t)
            d = dict(term=t, got=ids, want=sorted(w))
            if any(i not in known_ids for i in ids):
                return ("ids-of-no-document(%s-term)" % ("number" if t[0] == "n" else "string"), d)
            p = cmp_set("GetTermMatch", ids, w, "stale-ids", "missing-ids")
            return (p[1], d) if p else None
        return check

    def q_match1(t, ids):
        def check(v):
            w = v.ids[tk(t)]
            if len(ids) != min(1, len(w)) or not set(ids) <= w:
                return ("wrong-ids", dict(term=t, got=ids, want_subset_of=sorted(w)))
            return None
        return check

    def q_terms(method, got):
        def check(v):
            p = cmp_set(method, [tk(t) for t in got], v.terms, "stale-term", "missing-term")
            return (p[1], dict(got=got, want=v.x["terms"])) if p else None
        return check

    def q_counts(method, got, key):
        def check(v):
            p = cmp_counts(method, got, v.x[key])
            return (p[1], dict(got=got, want=v.x[key])) if p else None
        return check

    def q_numbers(gn):
        def check(v):
            wn = list(v.x["numbers"])
            if sorted(map(str, gn)) != sorted(map(str, wn)):
                ge, we = list(gn), list(wn)
                for e in list(ge):
                    if e in we:
                        ge.remove(e)
                        we.remove(e)
                shape = "stale+missing" if ge and we else ("stale-entries" if ge else "missing-entries")
                return (shape, dict(got=gn, want=wn))
            if gn != wn:
                return ("not-ascending", dict(got=gn, want=wn))
            return None
        return check

    def q_minmax(key, got):
        def check(v):
            # on a field without numbers the result is not compared
            if v.x["hasnum"] and got != v.x[key]:
                return ("wrong-value", dict(got=got, want=v.x[key], numbers=list(v.x["numbers"])))
            return None
        return check

    def q_range(lo, hi, got):
        def check(v):
            r = v.ranges.get((lo, hi))
            if r is None:
                raise Inconclusive("oracle has no range answer for %s..%s" % (lo, hi))
            inner = {e["k"]: e["c"] for e in r["in"]}
            edge = {e["k"]: e["c"] for e in r["edge"]}
            g = {}
            shape = None
            for k, c in got:
                if k in g:
                    shape = "duplicate-number"
                g[k] = c
            if shape is None:
                if any(k not in g for k in inner):
                    shape = "missing-number"
                elif any(k not in inner and k not in edge for k in g):
                    shape = "out-of-range-or-stale-number"
                elif any(g[k] != (inner.get(k, edge.get(k))) for k in g):
                    shape = "wrong-count"
            return (shape, dict(lo=lo, hi=hi, got=got, inside=r["in"], at_limits_open=r["edge"])) if shape else None
        return check

    for t, ids in b["match"]:
        yield "GetTermMatch", q_match(t, ids)
    for t, ids in b["match1"]:
        yield "GetTermMatch(maxCount=1)", q_match1(t, ids)
    yield "FieldTerms", q_terms("FieldTerms", b["terms"])
    yield "FieldStringTermCounts", q_counts("FieldStringTermCounts", b["scounts"], "scounts")
    yield "FieldTermCounts", q_counts("FieldTermCounts", b["counts"], "counts")
    yield "FieldTermCounts(second call)", q_counts("FieldTermCounts(second call)", b["counts2"], "counts")
    yield "FieldTerms(after counts)", q_terms("FieldTerms(after counts)", b.get("terms2", []))
    yield "FieldNumbers", q_numbers(list(b["numbers"]))
    yield "FieldTermNumberMin", q_minmax("min", b["min"])
    yield "FieldTermNumberMax", q_minmax("max", b["max"])
    for lo, hi, got in b["ranges"]:
        yield "FieldTermNumberRange", q_range(lo, hi, got)


def compare_field(acc, b, known_ids):
    """acc: what the oracle accepts for one field - {firm, open, alts}: the carriers whose value must be reported,
    the carriers whose value may be, and the answers of every query for every view firm + (subset of open).
    b: harness body for the field.  A query call agrees if its answer is the one of SOME view (each call on its
    own: the index is not asked to treat an open value alike in all its queries); without open values there is
    exactly one view and the comparison is exact.  Returns the differing calls as (method, shape, detail)."""
    if "hang" in b:
        return [(b["hang"]["method"], "never-returns", b["hang"])]
    views = sorted((View(x) for x in acc["alts"]), key=lambda v: (v.size, skey(v.x)))
    if not views or (not acc["open"] and len(views) != 1):
        raise Inconclusive("oracle printed %d views for a field with open carriers %s" % (len(views), acc["open"]))
    out = []
    for method, check in field_queries(b, known_ids):
        best = None
        for v in views:
            p = check(v)
            if p is None:
                best = None
                break
            # reported against the view that explains most: one-sided shapes before mixed ones, then the smallest view
            if best is None or ("+" in best[0] and "+" not in p[0]):
                best = p
        if best:
            detail = best[1]
            if acc["open"]:
                detail = dict(detail, must_report=sorted(acc["firm"]), may_report=sorted(acc["open"]),
                              want_is="the accepted answer nearest to the one got; none of the %d accepted answers matches" % len(views))
            out.append((method, best[0], detail))
    return out


class Comparer:
    def __init__(self, answers, defs, universe):
        self.answers, self.defs = answers, defs
        self.known_ids = set(universe.get("docs") or [])
        self.cache = {}
        self.compared = 0

    def problems(self, state_key, state, obs_id):
        key = (state_key, obs_id)
        if key in self.cache:
            return self.cache[key]
        body = self.defs.get(obs_id)
        if body is None:
            raise Inconclusive("harness referenced an observation it never defined (%s)" % obs_id)
        x = self.answers[state_key]
        out = []
        for f in state["fields"]:
            if f not in body:
                raise Inconclusive("harness did not observe registered field %s" % f)
            if "harness_err" in body[f]:
                raise Inconclusive("harness error: %s" % body[f]["harness_err"])
            for (m, shape, detail) in compare_field(x[f], body[f], self.known_ids | set(state["docs"])):
                out.append((m, shape, dict(detail, field=f)))
        for f, b in body.items():
            if f not in state["fields"] and "hang" in b:
                out.append((b["hang"]["method"], "never-returns (unregistered field)", dict(field=f, hang=b["hang"])))
        self.compared += 1
        self.cache[key] = out
        return out


# ----------------------------------------------------------------------------- replay
def shm_dir(ctx):
    return os.path.join("/dev/shm", os.path.basename(ctx.scratch))


def shm_env(ctx):
    """Badger syncs every commit: keep the stores of the replay in memory-backed scratch when there is one."""
    d = shm_dir(ctx)
    try:
        os.makedirs(d, exist_ok=True)
        return {"VERIF_SHM": d}
    except OSError:
        return {}


def obs_all(n):
    return [True] * n


def obs_last(n):
    return [False] * (n - 1) + [True]


class Beh:
    """One replay: a history, the abstract state after each step, an observation schedule."""
    __slots__ = ("steps", "states", "obs", "sched")

    def __init__(self, steps, states, obs, sched):
        self.steps, self.states, self.obs, self.sched = steps, states, obs, sched


def execute(ctx, name, universe, behaviours, emb, jobs=8, qtimeout=10, timeout=1500, fresh=False, via=None):
    """Runs the behaviours through harness/kvidx; returns (responses by index, observation bodies by id)."""
    inp = os.path.join(ctx.scratch, "kvidx_%s_in.ndjson" % name)
    with open(inp, "w") as fh:
        fh.write(json.dumps(dict(setup=True, fields=universe["fields"], terms=universe["terms"], ranges=universe["ranges"],
                                 emb=emb, qtimeout_s=qtimeout), separators=(",", ":")) + "\n")
        for i, b in enumerate(behaviours):
            req = dict(i=i, steps=b.steps, obs=b.obs)
            if fresh:
                req["fresh"] = True
            if via:
                req["via"] = via
            fh.write(json.dumps(req, separators=(",", ":")) + "\n")
    outp = inp.replace("_in.", "_out.")
    ctx.harness(["kvidx", "-j", str(jobs), "-timeout", "120s"], input_path=inp, output_path=outp, timeout=timeout,
                env=shm_env(ctx))
    outs, defs = {}, {}
    for o in ctx.read_ndjson(outp):
        if "i" in o:
            for k, v in (o.pop("defs", None) or {}).items():
                defs[k] = v
            outs[o["i"]] = o
    if len(outs) != len(behaviours):
        raise Inconclusive("harness answered %d of %d behaviours" % (len(outs), len(behaviours)))
    if not ctx.keep:
        os.unlink(inp)
        os.unlink(outp)
    return outs, defs


def first_divergence(b, o, cmpr, emb, via=None):
    """The first step of behaviour b at which the real index departs from the spec, as
    (signature, what, replay object), or None.  Also returns the number of observations compared."""
    if "harness_err" in o:
        raise Inconclusive("harness: %s" % o["harness_err"])
    if "died" in o:
        raise Inconclusive("worker died without a Go panic: %s" % o.get("trace", "")[-500:])
    site = "kvindex[batch write]" if via == "batch" else "kvindex"
    base = dict(steps=b.steps, obs=b.obs, emb=emb, via=via or "AddDoc")
    if "touch_hang" in o:
        raise Inconclusive("a count query did not return while replaying: %s" % json.dumps(o["touch_hang"])[:600])
    if "crash" in o or "hang" in o:
        kind = "crash" if "crash" in o else "hang"
        return ("%s %s: %s" % (site, kind, o[kind]), "a history made the index code %s" % kind,
                dict(base, trace=o.get("trace", "")[-3000:])), 0
    errs = {e["k"]: e for e in o.get("errs", [])}
    pan = o.get("panic")
    nobs = 0
    for k in range(len(b.steps)):
        cut = dict(steps=b.steps[:k + 1], obs=b.obs[:k + 1], emb=emb, step=k, via=via or "AddDoc")
        if pan and pan["k"] == k:
            psite = re.sub(r"0x[0-9a-f]+|\d+", "N", pan["panic"].splitlines()[0])[:100]
            return ("%s panic in %s: %s" % (site, pan["op"], psite), "panic in the calling goroutine",
                    dict(cut, panic=pan["panic"][:2000])), nobs
        if k in errs:
            e = errs[k]
            cls = re.sub(r"[^ -~]", "?", e["err"])
            return ("%s.%s returns error" % (site, e["op"]),
                    "%s failed (%s) on a history the property covers: the operation is not performed"
                    % (e["op"], cls[:120]), dict(cut, error=cls)), nobs
        if b.obs[k] in (False, 0, 2):
            continue
        oid = o["o"][k] if k < len(o.get("o", [])) else None
        if oid is None:
            raise Inconclusive("step %d was to be observed but was not" % k)
        nobs += 1
        sk, st = b.states[k]
        probs = cmpr.problems(sk, st, oid)
        if probs:
            m, shape, detail = probs[0]
            also = ", ".join(sorted({"%s %s" % (p[0], p[1]) for p in probs[1:]})) or "nothing"
            return ("%s.%s %s" % (site, m, shape),
                    "%s differs from the scan of the live documents (%s) after step %d = %s [observed %s]; also differing there: %s"
                    % (m, shape, k + 1, json.dumps(b.steps[k]), b.sched, also),
                    dict(cut, live=st, query=m, detail=detail, sched=b.sched)), nobs
    return None, nobs


def nontrivial(b):
    for k, (sk, st) in enumerate(b.states):
        if b.obs[k] not in (False, 0, 2) and st and st["fields"] and any(set(v) & set(st["fields"]) for v in st["docs"].values()):
            return True
    return False


def replaces(b):
    return any(op["op"] == "AddDoc" and k > 0 and op["d"] in b.states[k - 1][1]["docs"] for k, op in enumerate(b.steps))


def meets_open(b):
    """some observed state has an open value under a registered path"""
    return any(b.obs[k] not in (False, 0, 2) and st and open_of(st) for k, (sk, st) in enumerate(b.states))


def corrupt_answers(answers):
    """self-test of the binding: falsify one expected count"""
    for k, x in answers.items():
        for f, acc in x.items():
            if not acc["open"] and acc["alts"][0]["counts"]:
                acc["alts"][0]["counts"][0]["c"] += 1
                return


def replay_and_compare(ctx, name, universe, behaviours, answers, emb="halves", jobs=8, qtimeout=10, timeout=1500, via=None):
    """Screening: all behaviours in per-behaviour namespaces of shared stores.  Verdict: the shortest
    divergent behaviours of every signature are re-run alone on a fresh, empty store; only what
    reproduces there is reported as a divergence."""
    if os.environ.get("C09_SELFTEST_CORRUPT") == "1":
        corrupt_answers(answers)
    if via:
        name = "%s_%s" % (name, via)
    outs, defs = execute(ctx, name, universe, behaviours, emb, jobs=jobs, qtimeout=qtimeout, timeout=timeout, via=via)
    cmpr = Comparer(answers, defs, universe)
    found = {}  # signature -> [count, [(length, behaviour index)]]
    observations = nt = mo = 0
    for i, b in enumerate(behaviours):
        first, nobs = first_divergence(b, outs[i], cmpr, emb, via)
        observations += nobs
        if nontrivial(b):
            nt += 1
        if meets_open(b):
            mo += 1
        if first:
            ent = found.setdefault(first[0], [0, []])
            ent[0] += 1
            ent[1].append((len(first[2]["steps"]), i))
    del outs
    ctx.log("%s[%s]: %d behaviours, %d observations (%d distinct state/answer pairs compared), %d divergent: %s" % (
        name, emb, len(behaviours), observations, cmpr.compared, sum(v[0] for v in found.values()),
        {k: v[0] for k, v in found.items()} or "none"))
    # confirmation on fresh stores
    cand = []
    for sig, (n, exs) in sorted(found.items()):
        exs.sort()
        for _, i in exs[:3]:
            cand.append((sig, n, behaviours[i]))
    if cand:
        outs2, defs2 = execute(ctx, name + "_confirm", universe, [c[2] for c in cand], emb, jobs=min(4, len(cand)),
                               qtimeout=qtimeout, timeout=600, fresh=True, via=via)
        cmpr2 = Comparer(answers, defs2, universe)
        confirmed = set()
        for j, (sig, n, b) in enumerate(cand):
            first, _ = first_divergence(b, outs2[j], cmpr2, emb, via)
            if first and first[0] == sig:
                confirmed.add(sig)
                ctx.diverge(sig, "%s (first divergence of %d behaviours of %s)" % (first[1], n, name), first[2])
            elif first and first[0] != sig and first[0] not in found:
                # alone on an empty store the behaviour departs in another way: that is what reproduces
                confirmed.add(sig)
                ctx.diverge(first[0], "%s (%s, seen as '%s' among other behaviours)" % (first[1], name, sig), first[2])
        lost = [sig for sig in found if sig not in confirmed]
        if lost:
            raise Inconclusive("divergences seen in the shared store did not reproduce on a fresh store: %s" % lost)
    nq = len(universe["terms"]) + 8 + len(universe["ranges"])
    return dict(behaviours=len(behaviours), observations=observations, nontrivial=nt, met_open=mo,
                queries=observations * nq * max(1, len(universe["fields"])), divergent={k: v[0] for k, v in found.items()})


def gen_exhaustive(ctx, cfg):
    res = ctx.tlc("kvindex", "KVIndex", cfg, workers=8, timeout=900, label="generate")
    uni = res.msgs["universe"][0]
    nodes = res.msgs.get("node", [])
    if not nodes:
        raise Inconclusive("no histories emitted by %s" % cfg)
    res.msgs.clear()
    by_h = {}
    states = {}
    maxlen = 0
    for n in nodes:
        h = [norm_op(o) for o in n["h"]]
        s = norm_state(n["s"])
        k = skey(s)
        states.setdefault(k, s)
        by_h[json.dumps(h, sort_keys=True)] = (h, k)
        maxlen = max(maxlen, len(h))
        # a cfg that prints only some histories ("closedhist") gives the states after every step with each of them
        for j, s in enumerate(n.get("ss") or []):
            s = norm_state(s)
            k = skey(s)
            states.setdefault(k, s)
            by_h.setdefault(json.dumps(h[:j + 1], sort_keys=True), (None, k))
    del nodes
    behaviours = []
    full_seen = set()
    for hk, (h, k) in by_h.items():
        if h is None:
            continue  # a prefix that is not itself one of the printed histories
        sts = []
        for j in range(1, len(h) + 1):
            kk = by_h[json.dumps(h[:j], sort_keys=True)][1]
            sts.append((kk, states[kk]))
        if len(h) == maxlen:
            # queries after every step.  The same prefix is shared by many histories: its full observation is made
            # (and compared) in one of them, the others only run the queries that write (2), so that the
            # implementation state is the same
            obs = []
            for j in range(1, len(h) + 1):
                pk = json.dumps(h[:j], sort_keys=True)
                if pk in full_seen:
                    obs.append(2)
                else:
                    full_seen.add(pk)
                    obs.append(1)
            behaviours.append(Beh(h, sts, obs, "after every step"))
        if len(h) >= 2:
            behaviours.append(Beh(h, sts, obs_last(len(h)), "only after the last step"))
    nh = sum(1 for v in by_h.values() if v[0] is not None)
    return uni, states, behaviours, dict(histories=nh, maxlen=maxlen, tlc_states=res.distinct,
                                         step_kinds=step_kinds(behaviours))


def gen_walks(ctx, cfg, num, seed=None):
    with open(os.path.join(SPEC, "kvindex", cfg)) as fh:
        depth = int(re.search(r"MaxLen = (\d+)", fh.read()).group(1))
    # one simulation worker: the set of walks is then a function of the seed.  TLC evaluates the invariants
    # (and so prints) on every candidate successor of a walk's last state: keep one walk per prefix
    res = ctx.tlc("kvindex", "KVIndex", cfg, workers=1, timeout=900, simulate="num=%d" % num, depth=depth + 1,
                  seed=seed, label="random walks")
    uni = res.msgs["universe"][0]
    walks = res.msgs.get("walk", [])
    if not walks:
        raise Inconclusive("no walks emitted by %s" % cfg)
    seen = set()
    states = {}
    behaviours = []
    for w in walks:
        h = [norm_op(o) for o in w["h"]]
        hk = json.dumps(h[:-1], sort_keys=True)
        if hk in seen:
            continue
        seen.add(hk)
        sts = []
        for s in w["ss"]:
            s = norm_state(s)
            k = skey(s)
            states.setdefault(k, s)
            sts.append((k, states[k]))
        n = len(h)
        mask = [ctx.rng.random() < 0.3 for _ in range(n - 1)] + [True]
        behaviours.append(Beh(h, sts, obs_all(n), "after every step"))
        behaviours.append(Beh(h, sts, obs_last(n), "only after the last step"))
        behaviours.append(Beh(h, sts, mask, "after a random subset of the steps"))
    return uni, states, behaviours, dict(histories=len(seen), maxlen=depth, step_kinds=step_kinds(behaviours[::3]))


def step_kinds(behaviours):
    """How often each kind of step occurs in the generated histories (vacuity evidence).  The kinds are read off
    the abstract states TLC printed: an AddDoc on a live id is a replacement, a RemoveDoc on an absent id a no-op."""
    c = {}
    seen = set()
    for b in behaviours:
        if id(b.steps) in seen:
            continue
        seen.add(id(b.steps))
        for k, op in enumerate(b.steps):
            kind = op["op"]
            prev = b.states[k - 1][1] if k > 0 else dict(fields=[], docs={}, open=[])
            if prev is None:
                continue
            if kind == "AddDoc":
                kind = "AddDoc(replace)" if op["d"] in prev["docs"] else "AddDoc(insert)"
            elif kind == "RemoveDoc":
                kind = "RemoveDoc(live)" if op["d"] in prev["docs"] else "RemoveDoc(absent)"
            elif kind == "RemoveField":
                kind = "RemoveField(carried)" if any(op["f"] in v for v in prev["docs"].values()) else "RemoveField(unused)"
            elif kind == "AddField":
                # a path registered again while live documents still carry it: their values are open
                kind = "AddField(carried: open values)" if any(op["f"] in v for v in prev["docs"].values()) else "AddField(unused)"
            if kind.startswith(("AddDoc", "RemoveDoc")) and any(p[0] == op["d"] for p in prev.get("open", [])):
                kind += " of a document with open values"
            c[kind] = c.get(kind, 0) + 1
    return c


def uni_norm(u):
    return dict(fields=sorted(u["fields"]), docs=sorted(u["docs"]), terms=sorted(u["terms"], key=tk),
                ranges=sorted(u["ranges"]))


# ----------------------------------------------------------------------------- volume probe
def volume_probe(ctx, sizes):
    """FieldTermNumberRange over more distinct numbers than the implementation's result buffer
    holds: n documents with n distinct numbers, one observation at the end.  The expected answers
    come from the same oracle (KVIndex_vol.cfg: wide range limits).  A query that does not return
    is accepted as an observation only if the goroutine dump shows it blocked in a channel send
    inside kvindex and every size reproduces it (DESIGN 3, outcome classes)."""
    behaviours, states = [], {}
    for n in sizes:
        steps = [dict(op="AddField", f="f")]
        docs = {}
        for j in range(n):
            d = "v%04d" % j
            docs[d] = {"f": ["n", j - n // 2]}
            steps.append(dict(op="AddDoc", d=d, v=docs[d]))
        st = dict(fields=["f"], docs=docs, open=[])
        k = skey(st)
        states[k] = st
        behaviours.append(Beh(steps, [(None, None)] * (len(steps) - 1) + [(k, st)], obs_last(len(steps)),
                              "only after the last step"))
    # the oracle's own sanity laws are checked on the small universes; their naive recursion is slow on hundreds of documents
    res_answers = run_oracle(ctx, "KVIndex_vol.cfg", states, label="oracle volume", sanity=False)
    uni = run_oracle.universe
    outs, defs = execute(ctx, "volume", uni, behaviours, "halves", jobs=1, qtimeout=4, timeout=300, fresh=True)
    cmpr = Comparer(res_answers, defs, uni)
    hangs = []
    nobs = 0
    for i, b in enumerate(behaviours):
        first, n1 = first_divergence(b, outs[i], cmpr, "halves")
        nobs += n1
        if not first:
            continue
        sig, what, rep = first
        if "never-returns" in sig:
            stack = rep["detail"].get("stack", "")
            if "chan send" not in stack or "FieldTermNumberRange" not in stack:
                raise Inconclusive("volume probe: a query did not return within the deadline but no kvindex goroutine is "
                                   "blocked in a channel send:\n" + stack[:1500])
            hangs.append((sig, what, dict(rep, steps="AddField f, then %d AddDoc with distinct numbers" % (len(b.steps) - 1),
                                          obs="last", live="%d documents" % (len(b.steps) - 1))))
        else:
            rep = dict(rep, steps=rep["steps"][:3] + ["... %d steps" % len(rep["steps"])], live="(large)")
            ctx.diverge(sig, what + " (volume probe)", rep)
    if hangs:
        if len(hangs) != len(behaviours):
            raise Inconclusive("volume probe: blocking did not reproduce for every size (%d of %d)" % (len(hangs), len(behaviours)))
        ctx.diverge(hangs[0][0], "FieldTermNumberRange never returns when more distinct numbers fall into the range than its result "
                    "channel buffers (it fills the channel before returning it); reproduced for sizes %s" % (sizes,), hangs[0][2])
    ctx.log("volume probe sizes %s: %d observations, %d blocked" % (sizes, nobs, len(hangs)))
    nq = len(uni["terms"]) + 8 + len(uni["ranges"])
    return dict(behaviours=len(behaviours), observations=nobs, nontrivial=len(behaviours), queries=nobs * nq,
                divergent={h[0]: 1 for h in hangs})


# ----------------------------------------------------------------------------- driver
B = ("halves", "batch")   # documents written with AddDocTx on a write-only batch (kvgraph's way)
H, X = ("halves", None), ("extreme", None)
PLAN = {
    # _qo/_to: deeper, over one field, two documents and two terms, only the histories that meet open values
    "quick": dict(exh=[("KVIndex_q1.cfg", [H]), ("KVIndex_q2.cfg", [H, B]), ("KVIndex_qo.cfg", [H, B])],
                  sim=[("KVIndex_sim.cfg", 100, [H, X]), ("KVIndex_simnr.cfg", 60, [B])], volume=[120, 150]),
    "thorough": dict(exh=[("KVIndex_t0.cfg", [H]), ("KVIndex_q1.cfg", [X]), ("KVIndex_t1.cfg", [H]), ("KVIndex_t2.cfg", [H, B]),
                          ("KVIndex_to.cfg", [H, B])],
                     sim=[("KVIndex_simt.cfg", 400, [H, X]), ("KVIndex_simnr.cfg", 200, [B])], volume=[120, 150]),
}

FILTERED = ("KVIndex_qo.cfg", "KVIndex_to.cfg")

ASSUMPTIONS = [
    "documents only carry paths that are registered when the document is added.  A path may be removed and registered again "
    "while live documents carry it; the value such a document has for the path is OPEN until the document is added again "
    "or removed: whether the index reports values that were there before a (re-)registration is not stated by the property "
    "(kvgraph: 'TODO reindex existing data').  Every query call may then count any subset of the open values: its answer "
    "must be the scan over the documents whose value is firm (path registered when the document was last added and not "
    "removed since) plus some subset of the open ones, chosen per call.  In a state without open values the comparison is exact",
    "KVIndex_qo/_to go deeper (length 6/7, one path, two documents, one string and one number term, RemoveDoc of live ids "
    "only) and replay exactly the histories that meet an open value under a registered path; their batch-write variant "
    "leaves out the histories that replace a document (the known finding of that path would hide anything after it)",
    "queries on a path that is not registered are only probed for termination, their answers are not compared",
    "AddField of a registered path and RemoveField of an unregistered one are not generated",
    "FieldTermNumberRange(lo,hi): numbers strictly inside must be reported, numbers outside [lo,hi] must not; whether a number "
    "equal to a limit is reported is left open (if reported its count must be exact); lo>hi is not queried",
    "FieldTermNumberMin/Max on a field without numbers are not compared; result order is only demanded of FieldNumbers; "
    "GetTermMatch with maxCount=1 must return one of the matching ids",
    "terms are strings and float64 (other JSON types make AddDoc fail as unsupported and are not generated); no empty string, "
    "no -0.0/NaN/Inf; numbers are spec integers mapped by a strictly increasing embedding (k/2, and a table of float64 "
    "sign/magnitude boundary values: +-MaxFloat64, +-MaxFloat64/2, +-1e200, +-1e100, +-SmallestNonzeroFloat64, 0)",
    "documents are written with KVIndex.AddDoc; the histories of the 2-field exhaustive cfg (queries after the last step) "
    "and replacement-free random walks (Avoid = {replace}) are also replayed with AddDocTx on a write-only batch, the way "
    "kvgraph feeds the index",
    "store: Badger only; single client (no concurrent calls); all behaviours are screened in per-behaviour namespaces "
    "(field path and document id renamed injectively) of shared stores with a new KVIndex object each, and every divergence "
    "is reported only after it reproduced alone on a newly created empty store",
]


def run(ctx):
    try:
        if ctx.replay:
            run_replay(ctx)
        else:
            _run(ctx)
    finally:
        shutil.rmtree(shm_dir(ctx), ignore_errors=True)


def _run(ctx):
    plan = dict(PLAN[ctx.tier])
    only = os.environ.get("C09_ONLY")  # development aid: comma separated substrings of cfg names
    if only:
        keep = lambda c: any(x in c for x in only.split(","))
        plan = dict(exh=[e for e in plan["exh"] if keep(e[0])], sim=[e for e in plan["sim"] if keep(e[0])],
                    volume=plan["volume"] if keep("KVIndex_vol.cfg") else [])
        ctx.notes.append("partial run: C09_ONLY=%s" % only)
    tot = dict(behaviours=0, observations=0, nontrivial=0, queries=0, met_open=0)
    parts = []

    def account(name, emb, r, info):
        for k in tot:
            tot[k] += r.get(k, 0)
        parts.append(dict(cfg=name, embedding=emb, **dict(info, **{k: r.get(k, 0) for k in ("behaviours", "observations", "met_open", "divergent")})))

    for cfg, embs in plan["exh"]:
        uni, states, behaviours, info = gen_exhaustive(ctx, cfg)
        answers = run_oracle(ctx, cfg, states, label="oracle " + cfg)
        ctx.log("%s: %d histories (all %sup to length %d), %d abstract states, %d replays" % (
            cfg, info["histories"], "that meet open values, " if cfg in FILTERED else "", info["maxlen"], len(states),
            len(behaviours)))
        for emb, via in embs:
            # the batch-write variant replays every history with the queries after its last step only
            sel = behaviours if via is None else [b for b in behaviours if b.sched == "only after the last step"]
            if via == "batch" and cfg in FILTERED:
                # replacing a document through a write-only batch is the known finding of that path
                sel = [b for b in sel if not replaces(b)]
            r = replay_and_compare(ctx, cfg.split(".")[0].replace("KVIndex_", ""), uni_norm(uni), sel, answers,
                                   emb=emb, via=via)
            account(cfg, emb, r, dict(info, exhaustive=True, written_with=via or "AddDoc"))
        if len(ctx.cov["samples"]) < 3:
            # a sample with some content: most documents under registered fields after the last step
            b = max(behaviours[:4000], key=lambda x: sum(len(set(v) & set(x.states[-1][1]["fields"]))
                                                         for v in x.states[-1][1]["docs"].values()))
            ctx.sample(dict(cfg=cfg, steps=b.steps, observed=b.sched, live_after_last_step=b.states[-1][1],
                            expected_answers_after_last_step=answers[b.states[-1][0]]))
        del behaviours, answers, states
    # random walks: generate all of them first, then one oracle run per universe (JVM starts are the fixed cost)
    sims = []
    for cfg, num, embs in plan["sim"]:
        for n, (emb, via) in enumerate(embs):
            uni, states, behaviours, info = gen_walks(ctx, cfg, num, seed=ctx.seed * 7919 + n)
            sims.append((cfg, emb, via, uni_norm(uni), states, behaviours, info))
    by_uni = {}
    for cfg, emb, via, uni, states, behaviours, info in sims:
        g = by_uni.setdefault(json.dumps(uni, sort_keys=True), dict(cfg=cfg, states={}))
        g["states"].update(states)
    for g in by_uni.values():
        # the oracle's sanity laws are checked on every state of the exhaustive universes above
        g["answers"] = run_oracle(ctx, g["cfg"], g["states"], label="oracle " + g["cfg"], sanity=False)
    for cfg, emb, via, uni, states, behaviours, info in sims:
        answers = by_uni[json.dumps(uni, sort_keys=True)]["answers"]
        ctx.log("%s: %d random histories of length %d, %d abstract states" % (cfg, info["histories"], info["maxlen"], len(states)))
        r = replay_and_compare(ctx, "sim_" + emb, uni, behaviours, answers, emb=emb, via=via)
        account(cfg, emb, r, dict(info, exhaustive=False, written_with=via or "AddDoc"))
    del sims, by_uni
    if plan["volume"]:
        r = volume_probe(ctx, plan["volume"])
        account("KVIndex_vol.cfg n=%s" % plan["volume"], "halves", r, dict(histories=len(plan["volume"]), exhaustive=False))
    ctx.cov.update(
        evaluations=tot["queries"], distinct_nontrivial=tot["nontrivial"], traces_validated_against_impl=tot["behaviours"],
        observations=tot["observations"], behaviours_observing_open_values=tot["met_open"], exhaustive=True, runs=parts,
        rule="evaluations = public query calls compared (per observation and universe field: GetTermMatch per universe term, "
             "FieldTerms x2, FieldNumbers, FieldTermNumberMin, FieldTermNumberMax, one FieldTermNumberRange per limit pair, "
             "FieldStringTermCounts, FieldTermCounts x2); distinct_nontrivial = replayed (history, observation schedule) pairs in "
             "which some observed state has a live document under a registered field; behaviours_observing_open_values = those "
             "in which some observed state has an open value under a registered path (comparison against the accepted answer "
             "sets); exhaustive = every history of the exhaustive cfgs up to their length bound is replayed, for KVIndex_qo/_to "
             "every history that meets an open value (random walks and the volume probe are samples)")
    ctx.assumptions += ASSUMPTIONS


def run_replay(ctx):
    """bin/check C09 --replay <file>: re-runs the stored history alone on a fresh store and compares the
    observation after its last step with the oracle's answers for the stored live documents."""
    with open(ctx.replay) as fh:
        rep = json.load(fh)["replay"]
    steps = rep["steps"]
    if not isinstance(steps, list) or "live" not in rep or not isinstance(rep["live"], dict):
        raise Inconclusive("replay file carries no complete history (volume probe: run the check itself)")
    st = norm_state(rep["live"])
    k = skey(st)
    answers = run_oracle(ctx, "KVIndex_sim.cfg", {k: st})
    uni = run_oracle.universe
    obs = list(rep.get("obs") or obs_last(len(steps)))[:len(steps)]
    obs[-1] = True
    states = [(None, None)] * (len(steps) - 1) + [(k, st)]
    b = Beh(steps, states, obs, rep.get("sched", "as recorded"))
    via = rep.get("via") if rep.get("via") == "batch" else None
    outs, defs = execute(ctx, "replay", uni, [b], rep.get("emb", "halves"), jobs=1, qtimeout=4, fresh=True, via=via)
    o = outs[0]
    # earlier observations are executed (the count queries write) but only the last one is compared
    o["o"] = [None] * (len(steps) - 1) + [o["o"][-1] if o.get("o") else None]
    b.obs = obs_last(len(steps))
    first, _ = first_divergence(b, o, Comparer(answers, defs, uni), rep.get("emb", "halves"), via)
    if first:
        ctx.diverge(first[0], first[1] + " (reproduced from the replay file)", first[2])
    ctx.log("replay: %s" % (first[0] if first else "no divergence"))
