"""C12 - mark/jump loops are exact and terminate under every schedule.

(a) JumpLoop.tla (one process per goroutine of jump.go / queue.go, bounded channels) is model-checked
    exhaustively for small configurations: NoPanic, NoDup, Exact (sink bag = iterative definition),
    CleanClose and Termination under weak fairness.
(b) REAL mark/jump traversals shaped like those configurations run on the engine under GOMAXPROCS and
    jitter sweeps; the verif taps record the protocol events of the mark and jump goroutines and TLC
    (JumpLoopTrace.tla) must find an interleaving of the model that explains every recorded event with
    its scalars and ends with exactly the rows the traversal returned.
(c) the returned rows are also compared with the iterative definition printed by the specification.
A worker that panics or a reproduced hang is a divergence (crash site / 'never terminates')."""
import json, os, re
from collections import Counter
from vlib import Inconclusive

CAPS1 = dict(CapIn=1, CapBody=1, CapJ=1, CapQ=1, CapOut=1)


def cfg_text(c, caps, spec="Spec", invs=("NoPanic", "NoDup", "Exact", "CleanClose", "TypeOK"), props=("Termination",), faithful=False):
    lines = ["CONSTANTS"] + [" %s = %s" % (k, c[k]) for k in ("N", "D", "Fan", "NJ", "NF", "FT")]
    lines += [" %s = %s" % (k, v) for k, v in caps.items()] + [" Faithful = %s" % ("TRUE" if faithful else "FALSE")]
    lines += ["SPECIFICATION " + spec] + ["INVARIANT " + i for i in invs] + ["PROPERTY " + p for p in props] + ["CHECK_DEADLOCK FALSE"]
    return "\n".join(lines) + "\n"


def shape(c):
    return "N%d D%d fan%d jumps%d fwd%dx%d" % (c["N"], c["D"], c["Fan"], c["NJ"], c["NF"], c["FT"])


def C(N, D, Fan=1, NJ=1, NF=0, FT=0):
    return dict(N=N, D=D, Fan=Fan, NJ=NJ, NF=NF, FT=FT)


def run(ctx):
    quick = ctx.tier == "quick"
    # ---------------------------------------------------------------- (a) model checking
    models = [(C(2, 2), dict(CAPS1))] if quick else \
             [(C(2, 2), dict(CAPS1)), (C(3, 3), dict(CAPS1, CapBody=2, CapQ=2)), (C(2, 2, Fan=2), dict(CAPS1, CapBody=2)),
              (C(2, 2, NJ=2), dict(CAPS1)), (C(1, 2, NF=1, FT=1), dict(CAPS1)), (C(2, 3, Fan=2), dict(CAPS1, CapQ=2))]
    for c, caps in models:
        ctx.tlc("jumploop", "JumpLoop", "gen.cfg", files={"gen.cfg": cfg_text(c, caps)}, timeout=1500, workers=16, label=shape(c))
    # two forward jumps closing in one poll cycle: with the removal-by-stale-index the code had before the fix
    # (Faithful = TRUE) the model loses travelers / runs out of range; with the repaired removal everything holds
    if not quick:
        c2 = C(1, 1, NF=2, FT=1)
        r = ctx.tlc("jumploop", "JumpLoop", "gen.cfg", files={"gen.cfg": cfg_text(c2, CAPS1, props=(), faithful=True)}, timeout=1500,
                    expect_violation=True, count=False, label="regression scenario " + shape(c2))
        ctx.notes.append("model of the pre-fix removal by stale index, two forward jumps: %s" % (r.violation or "no violation"))
        ctx.tlc("jumploop", "JumpLoop", "gen.cfg", files={"gen.cfg": cfg_text(c2, CAPS1)}, timeout=1500, label="repaired removal " + shape(c2))
    # ---------------------------------------------------------------- (b) real runs
    configs = [C(2, 2), C(2, 2, Fan=2), C(2, 2, NJ=2), C(1, 2, NF=1, FT=1), C(1, 2, NF=2, FT=1)]
    if not quick:
        configs += [C(3, 3), C(4, 2), C(2, 4), C(3, 2, Fan=2), C(3, 2, NJ=2), C(2, 2, NF=1, FT=2), C(2, 2, NF=2, FT=2), C(1, 3, Fan=2, NJ=2)]
    procs = [1, 2, 16] if quick else [1, 2, 4, 16]
    seeds = range(2) if quick else range(4)
    reqs = []
    for ci, c in enumerate(configs):
        for p in procs:
            for jit in (0, 2):
                for s in (list(seeds) + [100 + x for x in seeds] if c["NF"] == 2 and p == 1 else seeds):
                    reqs.append(dict(i=len(reqs), cfg=ci, procs=p, jitter=jit, seed=ctx.seed * 1000 + s, **c))
    inp = ctx.write_ndjson("loop_in.ndjson", reqs)
    outp = os.path.join(ctx.scratch, "loop_out.ndjson")
    ctx.harness(["loop", "-j", "6", "-timeout", "45s"], input_path=inp, output_path=outp, timeout=3000)
    outs = {o["i"]: o for o in ctx.read_ndjson(outp) if "i" in o}
    if len(outs) != len(reqs):
        raise Inconclusive("loop harness answered %d of %d runs" % (len(outs), len(reqs)))
    by_cfg = {}
    for r in reqs:
        o = outs[r["i"]]
        c = configs[r["cfg"]]
        if "died" in o or "harness_err" in o or "wire_err" in o:
            raise Inconclusive("loop harness failure: %s" % json.dumps({k: o[k] for k in o if k != "trace"})[:300])
        for bad in ("crash", "hang"):
            if bad in o:
                what = "never terminates" if bad == "hang" else "crashes the process"
                site = o[bad] if bad == "crash" else ""
                ctx.diverge("loop %s: %s" % (bad, site or "mark/jump traversal does not finish"),
                            "a mark/jump traversal %s" % what, dict(config=c, run=r, trace=(o.get("trace") or "")[:3000]))
        if "crash" in o or "hang" in o:
            continue
        if o.get("err"):
            raise Inconclusive("loop program rejected by the compiler: %s" % o["err"])
        by_cfg.setdefault(r["cfg"], []).append((r, o))
    ctx.log("loop runs: %d answered, %d usable in %d configurations" % (len(outs), sum(len(v) for v in by_cfg.values()), len(by_cfg)))
    # ---------------------------------------------------------------- (c') volume runs
    # many travelers in flight (more than the 50-slot queue channels hold): rows only, compared with the
    # iterative definition the specification prints for the configuration (no trace validation at this size)
    vol_cfgs = [C(150, 3), C(40, 3, Fan=2), C(60, 2, NJ=2)] if quick else [C(150, 3), C(160, 4), C(200, 3), C(40, 3, Fan=2), C(60, 3, Fan=2), C(60, 2, NJ=2), C(100, 3, NF=1, FT=50)]
    vreqs = []
    for ci, c in enumerate(vol_cfgs):
        for p in ([2, 16] if quick else [1, 2, 4, 16]):
            for s in (range(2) if quick else range(4)):
                vreqs.append(dict(i=len(vreqs), cfg=ci, procs=p, jitter=0, seed=ctx.seed * 1000 + s, notrace=True, **c))
    vinp = ctx.write_ndjson("loopvol_in.ndjson", vreqs)
    voutp = os.path.join(ctx.scratch, "loopvol_out.ndjson")
    ctx.harness(["loop", "-j", "4", "-timeout", "120s"], input_path=vinp, output_path=voutp, timeout=3000)
    vouts = {o["i"]: o for o in ctx.read_ndjson(voutp) if "i" in o}
    if len(vouts) != len(vreqs):
        raise Inconclusive("loop harness answered %d of %d volume runs" % (len(vouts), len(vreqs)))
    vexp = {}
    for ci, c in enumerate(vol_cfgs):
        try:
            r = ctx.tlc("jumploop", "JumpLoop", "gen.cfg", files={"gen.cfg": cfg_text(c, CAPS1, invs=("TypeOK",), props=())}, simulate="num=1", depth=2,
                        timeout=600, workers=1, count=False, label="expected rows " + shape(c))
        except Inconclusive as e:
            if "StackOverflow" not in str(e) or ci == 0:
                raise
            # a limit of the tool (the recursive bag operator), not of grip: the configuration is left out
            ctx.notes.append("volume configuration %s left out: TLC could not print its expected rows (stack depth)" % shape(c))
            continue
        if not r.msgs.get("expected"):
            raise Inconclusive("the specification did not print the expected rows for %s" % shape(c))
        e = Counter()
        for x in r.msgs["expected"][0]:
            e[(x[0], x[1])] += x[2]
        vexp[ci] = e
    for r in vreqs:
        o = vouts[r["i"]]
        c = vol_cfgs[r["cfg"]]
        if r["cfg"] not in vexp:
            continue
        if "died" in o or "harness_err" in o or "wire_err" in o:
            raise Inconclusive("loop harness failure: %s" % json.dumps({k: o[k] for k in o if k != "trace"})[:300])
        for bad in ("crash", "hang"):
            if bad in o:
                ctx.diverge("loop %s: %s" % (bad, o[bad] if bad == "crash" else "mark/jump traversal with many travelers in flight does not finish"),
                            "a mark/jump traversal %s" % ("never terminates" if bad == "hang" else "crashes the process"), dict(config=c, run=r, trace=(o.get("trace") or "")[:3000]))
        if "crash" in o or "hang" in o:
            continue
        got = Counter((x[0], x[1]) for x in o.get("rows", []) if isinstance(x, list))
        if got != vexp[r["cfg"]]:
            exp = vexp[r["cfg"]]
            kind = "lost" if (exp - got) and not (got - exp) else ("duplicated" if (got - exp) and not (exp - got) else "lost and duplicated")
            ctx.diverge("loop result %s travelers (many in flight)" % kind, "the rows returned by a mark/jump traversal with many travelers in flight differ from the iterative definition",
                        dict(config=c, run=r, expected_rows=sum(exp.values()), got_rows=sum(got.values()), missing=sorted((exp - got).elements())[:10], extra=sorted((got - exp).elements())[:10]))
    ctx.log("volume runs: %d" % len(vreqs))
    # ---------------------------------------------------------------- (d) counter loops on the graph family
    # LoopSem.tla: the documented set/increment/has/jump loop on arbitrary small graphs (self loops, parallel
    # edges, cycles, dangling edges); the rows must be the walks the iterative definition gives
    sres = ctx.tlc("jumploop", "LoopSem", "LoopSem.cfg", timeout=900, workers=8, label="counter-loop semantics")
    sgraphs = sres.msgs["graphs"][0]
    scases = sres.msgs.get("loop", [])
    if not scases:
        raise Inconclusive("LoopSem.tla emitted no cases")
    sl = [dict(setup=True, graphs=sgraphs, driver="badger")] + [dict(i=i, g=c["g"], prog=c["prog"], only="prod") for i, c in enumerate(scases)]
    sinp = ctx.write_ndjson("loopsem_in.ndjson", sl)
    soutp = os.path.join(ctx.scratch, "loopsem_out.ndjson")
    ctx.harness(["trav", "-j", "8", "-timeout", "60s"], input_path=sinp, output_path=soutp, timeout=3000)
    souts = {o["i"]: o for o in ctx.read_ndjson(soutp) if "i" in o}
    if len(souts) != len(scases):
        raise Inconclusive("trav harness answered %d of %d counter-loop cases" % (len(souts), len(scases)))
    for i, c in enumerate(scases):
        o = souts[i]
        if "died" in o or "harness_err" in o or "wire_err" in o:
            raise Inconclusive("counter-loop harness failure: %s" % json.dumps({k: o[k] for k in o if k != "trace"})[:300])
        bad = next((b for b in ("crash", "hang") if b in o), None)
        if bad:
            ctx.diverge("loop %s: %s" % (bad, o[bad] if bad == "crash" else "counter loop does not finish"),
                        "the documented counter loop %s" % ("never terminates" if bad == "hang" else "crashes the process"),
                        dict(case={k: c[k] for k in ("g", "d", "variant", "prog")}, trace=(o.get("trace") or "")[:2500]))
            continue
        p = o.get("prod") or {}
        if p.get("err") or p.get("panic"):
            ctx.diverge("loop counter program rejected or panicked", str(p.get("err") or p.get("panic"))[:120], dict(case=c, outcome=p))
            continue
        exp = Counter({k: v for k, v in (c["expect"].items() if isinstance(c["expect"], dict) else []) if v})
        got = Counter(r.get("gid") for r in p.get("rows", []))
        if exp != got:
            kind = "lost" if (exp - got) and not (got - exp) else ("duplicated" if (got - exp) and not (exp - got) else "wrong")
            ctx.diverge("loop result %s travelers (counter loop, variant %s)" % (kind, c["variant"]),
                        "the rows of the documented set/increment/jump loop differ from the walks of the iterative definition",
                        dict(case={k: c[k] for k in ("g", "d", "variant", "prog")}, graph=sgraphs[c["g"] - 1], expected=dict(exp), got=dict(got)))
    ctx.log("counter-loop cases: %d" % len(scases))
    # ---------------------------------------------------------------- (b)+(c) validation
    ntr = [0]
    undecided = []
    from concurrent.futures import ThreadPoolExecutor

    def validate(ci_items):
        ci, items = ci_items
        c = configs[ci]
        lines = []
        # every run's rows are checked below; protocol traces are validated for a bounded number of runs per
        # configuration (the forward-jump configurations have the largest silent state spaces)
        cap = (8 if c["NF"] == 2 else 12) if quick else (6 if c["NF"] == 2 else 12)
        allv = items[:: max(1, len(items) // cap)][:cap]
        # one TLC job per chunk of traces: the silent state space of the larger configurations makes a trace cost
        # up to a minute on a loaded machine, and every job has its own deadline
        chunk = 12 if quick else 6
        exp = None
        for k0 in range(0, len(allv), chunk):
            exp = validate_chunk(ci, c, allv[k0:k0 + chunk]) or exp
        # (c) rows against the iterative definition
        for r, o in items:
            got = Counter((x[0], x[1]) for x in o["rows"] if isinstance(x, list))
            foreign = [x for x in o["rows"] if not isinstance(x, list)]
            if exp is not None and (got != exp or foreign):
                kind = "lost" if (exp - got) and not (got - exp) else ("duplicated" if (got - exp) and not (exp - got) else "wrong")
                ctx.diverge("loop result %s travelers (%s)" % (kind, "two jumps" if c["NJ"] == 2 else ("forward jump" if c["NF"] else "one jump")),
                            "the rows returned by a mark/jump traversal differ from the iterative definition",
                            dict(config=c, run=r, expected=sorted(exp.elements()), got=sorted(got.elements()), foreign=foreign[:3]))

    def validate_chunk(ci, c, vitems):
        lines = []
        for r, o in vitems:
            t = dict(o["trace"])
            for k in ("mark", "jump1", "jump2"):
                t.setdefault(k, [])
            t = dict(mark=t["mark"], jump1=t["jump1"], jump2=t["jump2"], rows=[x for x in o["rows"] if isinstance(x, list)])
            lines.append(json.dumps(t, separators=(",", ":")))
        cfg = cfg_text(c, CAPS1, spec="TraceSpec", invs=("NotAllAccepted",), props=())
        # the depth-first search accepts a trace quickly, but a few traces of the larger configurations send it
        # into a silent state space of 10^8 states: every job has a budget, a chunk that exhausts it is retried
        # trace by trace, and a trace that exhausts its own budget is counted as undecided (never as rejected)
        try:
            res = ctx.tlc("jumploop", "JumpLoopTrace", "trace.cfg", files={"trace.cfg": cfg, "traces.ndjson": "\n".join(lines) + "\n"},
                          workers=1, dfs=True, timeout=900, expect_violation=True, count=False, label="traces " + shape(c))
        except Inconclusive as e:
            if "timeout" not in str(e):
                raise
            res = None
        exp = None
        if res is not None and res.msgs.get("expected"):
            exp = Counter()
            for x in res.msgs["expected"][0]:
                exp[(x[0], x[1])] += x[2]
        if res is not None and res.violation == "NotAllAccepted":
            ntr[0] += len(vitems)
            return exp
        # some trace was rejected: find which ones
        for r, o in vitems:
            t = dict(o["trace"])
            for k in ("mark", "jump1", "jump2"):
                t.setdefault(k, [])
            one = json.dumps(dict(mark=t["mark"], jump1=t["jump1"], jump2=t["jump2"], rows=[x for x in o["rows"] if isinstance(x, list)]))
            try:
                r1 = ctx.tlc("jumploop", "JumpLoopTrace", "trace.cfg", files={"trace.cfg": cfg, "traces.ndjson": one + "\n"},
                             workers=1, dfs=True, timeout=600, expect_violation=True, count=False, label="single trace " + shape(c))
            except Inconclusive as e:
                if "timeout" not in str(e):
                    raise
                undecided.append(shape(c))
                continue
            if exp is None and r1.msgs.get("expected"):
                exp = Counter()
                for x in r1.msgs["expected"][0]:
                    exp[(x[0], x[1])] += x[2]
            if r1.violation == "NotAllAccepted":
                ntr[0] += 1
            else:
                ctx.diverge("loop protocol trace rejected (%s)" % ("two jumps" if c["NJ"] == 2 else ("forward jump" if c["NF"] else "one jump")),
                            "the recorded mark/jump events of a real traversal are not a behaviour of JumpLoop.tla",
                            dict(config=c, run=r, trace=o["trace"], rows=o["rows"]))
        return exp

    with ThreadPoolExecutor(max_workers=4) as ex:
        list(ex.map(validate, sorted(by_cfg.items())))
    ntr = ntr[0]
    if undecided:
        ctx.notes.append("%d trace(s) undecided within the search budget (configurations: %s); their rows were still compared" % (len(undecided), ", ".join(sorted(set(undecided)))))
        ctx.cov["traces_undecided"] = len(undecided)
        if len(undecided) > max(3, ntr // 4):
            raise Inconclusive("%d of %d traces could not be decided within the search budget" % (len(undecided), ntr + len(undecided)))
    for r in reqs[:: max(1, len(reqs) // 4)]:
        ctx.sample(dict(config=configs[r["cfg"]], procs=r["procs"], jitter=r["jitter"], events=sum(len(v) for v in (outs[r["i"]].get("trace") or {}).values()) if isinstance(outs[r["i"]].get("trace"), dict) else None))
    ctx.cov.update(evaluations=len(reqs), distinct_nontrivial=len(configs) * len(procs) * 2, traces_validated_against_impl=ntr,
                   rule="real loop traversals for %d configurations (travelers, passes, fan-out, one or two cyclic jumps, forward jumps) x GOMAXPROCS %s x jitter on/off x seeds; "
                        "each run's protocol events validated by TLC against JumpLoop.tla and its rows against the iterative definition; "
                        "distinct = configuration x GOMAXPROCS x jitter" % (len(configs), procs))
    ctx.assumptions += ["loop bodies are order-preserving steps (out()); nested marks and non-order-preserving bodies (both) are outside the property's quantifier",
                        "events are ordered per goroutine only; queue, body, feeder and sink steps are inferred by TLC",
                        "schedule forcing through gating taps (DESIGN 4 C12 b) is not implemented; schedules are sampled by GOMAXPROCS/jitter sweeps and the model covers all interleavings for small bounds"]
