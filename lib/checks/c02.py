"""C02 - query planning (index rewrite, load elision) never changes answers.

Same state space as C01 (Traversal.tla).  Every state is executed through the production
compiler on a backend that honours the load hint (NoLoadGraph), through the production
compiler on plain kvgraph, and through the literal pipeline (no optimizer, all steps
loaded); all three must be admissible results of the specification, which also makes the
equivalent spellings of a label/id filter agree with one another."""
import travrun, travcmp


def cfgs(ctx):
    if ctx.tier == "quick":
        return [("Traversal_plan3q.cfg", None, None), ("Traversal_elide4.cfg", None, None), ("Traversal_spell3q.cfg", None, None),
                ("Traversal_sim.cfg", "num=25", 8)]
    return [("Traversal_plan3.cfg", None, None), ("Traversal_elide5.cfg", None, None), ("Traversal_spell3.cfg", None, None),
            ("Traversal_wide2.cfg", None, None), ("Traversal_sim.cfg", "num=600", 8)]


def run(ctx, variants=("noload", "literal", "prod"), prop_prefix="plan"):
    total = nontriv = 0
    for cfg, sim, depth in cfgs(ctx):
        graphs, states = travrun.gen_states(ctx, cfg, simulate=sim, depth=depth)
        states = travrun.thin(ctx, states, 8 if ctx.tier == "quick" else 600)
        outs = travrun.replay(ctx, graphs, states, tag=cfg.split(".")[0])
        for v in variants:
            bad = travrun.failures(states, outs, v)
            mini = travrun.minimal(states, bad)
            for i, r in sorted(mini.items()):
                s = states[i]
                for kind, detail in r:
                    sig = "%s-%s: %s at %s" % (prop_prefix, v, kind, travcmp.ops(s["prog"]))
                    ctx.diverge(sig, "%s %s" % (kind, detail), dict(variant=v, graph=graphs[s["g"] - 1], state=s, outcome=outs[i].get(v, outs[i])))
        total += len(states)
        nontriv += sum(1 for s in states if s["status"] == "ok" and s["rows"])
        for s in states[:: max(1, len(states) // 3)]:
            ctx.sample(dict(graph=s["g"], prog=s["prog"], status=s["status"], ty=s["ty"], rows=len(s["rows"])))
    ctx.cov.update(evaluations=total * len(variants), distinct_nontrivial=nontriv, traces_validated_against_impl=total,
                   rule="all programs over the Traversal.tla alphabet (tier bound) on the 7-graph family, each run on the "
                        "hint-honouring backend, plain kvgraph and the literal pipeline; non-trivial = well-typed, non-empty untruncated result")
