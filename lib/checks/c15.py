"""C15 - a gripper-mapped graph is exactly the graph its mapping describes.

Gripper.tla defines worlds (external tables + vertex/edge mappings) and GraphOf(world), the graph
the property says GRIP must expose.  GripperTraversal.tla is Traversal.tla (the documented traversal
semantics, unchanged) over the family GraphOf(world), with an alphabet weighted towards the starts
the gripper driver plans itself.  Every state is replayed on the real driver: the world's tables are
served by the repository's own table server (in-process gRPC), gripper.NewTabularGraph builds the
graph and the program runs through graph.Compiler() + pipeline.Run; the rows must be admissible for
the spec state.  GraphOf(world) is also loaded into kvgraph and the same program run there
(cross-check; a deviation both backends share is engine behaviour, C01's subject, and only noted).
GripperWrites.tla: every write call is refused and the graph stays GraphOf(world).

Edge identity is the link row (spec name "<mapping>/<row id>").  The id STRING the driver gives an
edge is not fixed by the property: ids are normalised to the (from, label, to) triple they denote,
learnt for the driver from its own E() listing, so that an edge must still carry ONE id on every
access path; programs that mention an edge id are translated through the same table."""
import copy, json, os
from collections import Counter
import vlib, travrun, travcmp
from vlib import Inconclusive

WORKERS = 8
TAGGED_WORLDS = {"hyphen": ("E(ids)", "row id contains '-'"), "vol-nested": ("", "nested prefixes, 150 lookups")}


def trav_text():
    with open(os.path.join(vlib.SPEC, "traversal", "Traversal.tla")) as fh:
        return fh.read()


def plans(ctx):
    """(cfg of spec/gripper (GT_<label>.cfg), world family, simulate, depth, cap on distinct()-bearing states, cap on replayed states)"""
    if ctx.tier == "quick":
        ps = [("hand_mix2", "hand", None, None, 4, None), ("gen_lead1", "gen", None, None, 0, None)]
    else:
        ps = [("hand_all2", "hand", None, None, 40, None), ("hand_lead3", "hand", None, None, 10, None),
              ("gen_lead2", "gen", None, None, 5, 12000), ("gen_all1", "gen", None, None, 5, 10000),
              ("hand_sim", "hand", "num=400", 7, 5, 20000), ("vol", "vol", None, None, 0, None)]
    only = os.environ.get("VERIF_C15_PLANS")   # debugging aid: comma-separated plan labels
    return [p for p in ps if not only or p[0] in only.split(",")]


# ---------------------------------------------------------------- edge-id normalisation

def triple(e):
    return "~%s|%s|%s" % (e.get("from"), e.get("label"), e.get("to"))


def spec_idmap(graph):
    E = graph.get("E")
    return {eid: triple(e) for eid, e in E.items()} if isinstance(E, dict) else {}


def learn_idmap(outcome):
    """driver edge id -> triple, from the driver's own E() listing"""
    m = {}
    for r in (outcome or {}).get("rows") or []:
        if r.get("k") == "e" and not r.get("nil"):
            t = triple(r)
            if m.setdefault(r.get("gid"), t) != t:
                m[r.get("gid")] = "~ambiguous-id"
    return m


def canon_elem(o, idmap):
    if isinstance(o, dict) and o.get("k") == "e" and "gid" in o:
        o = dict(o)
        o["gid"] = idmap.get(o["gid"], o["gid"])
    return o


def canon_out(o, idmap):
    if not isinstance(o, dict):
        return o
    k = o.get("k")
    if k == "e":
        return canon_elem(o, idmap)
    if k == "s" and isinstance(o.get("m"), dict):
        return dict(k="s", m={n: canon_elem(e, idmap) for n, e in o["m"].items()})
    if k == "p":
        p = []
        for e in o.get("p") or []:
            if isinstance(e, dict):
                e = ["v", e["vertex"]] if "vertex" in e else (["e", e["edge"]] if "edge" in e else ["?", ""])
            if isinstance(e, list) and len(e) == 2 and e[0] == "e":
                e = ["e", idmap.get(e[1], e[1])]
            p.append(e)
        return dict(k="p", p=p)
    return o


def canon_state(s, idmap):
    t = dict(s)
    t["rows"] = [dict(org=r["org"], o=canon_out(r["o"], idmap)) for r in s["rows"]]
    return t


def canon_outcome(out, idmap):
    if not isinstance(out, dict) or "rows" not in out or out.get("rows") is None:
        return out
    t = dict(out)
    t["rows"] = [canon_out(r, idmap) for r in out["rows"]]
    return t


def edge_ids_in(prog, graph):
    E = graph.get("E") if isinstance(graph.get("E"), dict) else {}
    ids = []
    for st in prog:
        if st["op"] in ("E", "hasId"):
            ids += [i for i in st.get("ids", []) if i in E]
    return ids


def translate(prog, graph, real_by_triple):
    """program with the spec's edge names replaced by the ids the driver shows; None when an edge
    named by the program has no single driver id (parallel edges: the driver's id is shared)."""
    E = graph.get("E") if isinstance(graph.get("E"), dict) else {}
    triples = Counter(triple(e) for e in E.values())
    out = []
    for st in prog:
        if st["op"] in ("E", "hasId"):
            ids = []
            for i in st.get("ids", []):
                if i in E:
                    t = triple(E[i])
                    if triples[t] != 1 or len(real_by_triple.get(t, [])) != 1:
                        return None
                    ids.append(real_by_triple[t][0])
                else:
                    ids.append(i)
            st = dict(st, ids=ids)
        out.append(st)
    return out


# ---------------------------------------------------------------- running

CACHED = [False]   # tables served through gripper.DriverCache over slow scans (the deployment form)


def run_harness(ctx, tag, worlds, graphs, reqs, jobs=10, timeout=1500, req_timeout="60s"):
    lines = [dict(setup=True, worlds=worlds, graphs=graphs, cached=CACHED[0])] + reqs
    inp = ctx.write_ndjson("%s_in.ndjson" % tag, lines)
    outp = os.path.join(ctx.scratch, "%s_out.ndjson" % tag)
    ctx.harness(["gripperh", "-j", str(jobs), "-timeout", req_timeout], input_path=inp, output_path=outp, timeout=timeout)
    outs = {o["i"]: o for o in ctx.read_ndjson(outp) if "i" in o}
    if len(outs) != len(reqs):
        raise Inconclusive("harness answered %d of %d requests (%s)" % (len(outs), len(reqs), tag))
    return outs


def run_states(ctx, tag, worlds, graphs, reqs, req_timeout="60s", retry_timeout="120s"):
    """light requests on many workers; distinct()-bearing ones (a temporary Badger store per run) on few with a long
    deadline.  A request that hangs is run again with a longer deadline: only a hang that persists is an observation."""
    heavy = [r for r in reqs if "prog" in r and any(st["op"] == "distinct" for st in r["prog"])]
    hid = {r["i"] for r in heavy}
    light = [r for r in reqs if r["i"] not in hid]
    outs = {}
    if light:
        outs.update(run_harness(ctx, tag + "_l", worlds, graphs, light, req_timeout=req_timeout))
    if heavy:
        outs.update(run_harness(ctx, tag + "_h", worlds, graphs, heavy, jobs=3, req_timeout="150s"))
    by_i = {r["i"]: r for r in reqs}
    hung = [i for i, o in outs.items() if "hang" in o]
    if len(hung) > 40:
        raise Inconclusive("%d requests hang (%s): machine overloaded or a systematic hang; first: %s" % (len(hung), tag, json.dumps(by_i[hung[0]])[:300]))
    if hung:
        again = run_harness(ctx, tag + "_retry", worlds, graphs, [by_i[i] for i in hung], jobs=4, req_timeout=retry_timeout)
        for i in hung:
            if "hang" not in again[i]:
                outs[i] = again[i]
    return outs


def thin_heavy(ctx, states, cap, label):
    """distinct() opens a temporary Badger store per run (seconds on a busy machine): a seeded sample of those states"""
    heavy = [i for i, s in enumerate(states) if travrun.is_heavy(s)]
    if len(heavy) <= cap:
        return states
    ctx.rng.shuffle(heavy)
    drop = set(heavy[cap:])
    ctx.notes.append("%s: %d of %d distinct()-bearing states replayed (cost cap of this tier)" % (label, cap, len(heavy)))
    return [s for i, s in enumerate(states) if i not in drop]


def start_shape(prog):
    s = prog[0]
    head = s["op"] + ("(ids)" if s.get("ids") else "")
    return ">".join([head] + [x["op"] for x in prog[1:]])


def verdict(state, out, idmap):
    """-> list of (kind, detail) of one backend's outcome against the spec state"""
    if out is None:
        return [("no-outcome", "")]
    if "wire_err" in out:
        return [("harness", out["wire_err"])]
    return travcmp.check_outcome(canon_state(state, idmap["spec"]), canon_outcome(out, idmap["real"]))


def bag(out, idmap):
    return Counter(travcmp.canon_row(r) for r in (canon_outcome(out, idmap).get("rows") or [])) if isinstance(out, dict) else None


def learn(ctx, tag, worlds, graphs):
    reqs = [dict(i=i, g=i + 1, only="gripper", prog=[dict(op="E", ids=[])]) for i in range(len(worlds))]
    outs = run_harness(ctx, tag + "_learn", worlds, graphs, reqs)
    maps = []
    for i in range(len(worlds)):
        o = outs[i]
        if "crash" in o or "hang" in o or "harness_err" in o:
            maps.append(dict(real={}, by_triple={}, spec=spec_idmap(graphs[i])))
            continue
        real = learn_idmap(o.get("gripper"))
        by_triple = {}
        for gid, t in real.items():
            by_triple.setdefault(t, []).append(gid)
        maps.append(dict(real=real, by_triple=by_triple, spec=spec_idmap(graphs[i])))
    return maps


def reattribute(ctx, label, worlds, graphs, states, reqs, maps, mini, outs, repeats=40):
    """A minimal failing program P+[s] blames s only if P reliably passes: the proper prefixes of every minimal failing
    program are run again a few times on the driver, and a prefix that fails then takes the blame (the driver iterates
    Go maps when a graph is built, so some of its defects show only for some builds: each re-run builds the graph anew)."""
    key = lambda g, prog: json.dumps([g, prog], sort_keys=True)
    index = {key(s["g"], s["prog"]): i for i, s in enumerate(states)}
    prefixes = {}
    for i in mini:
        s = states[i]
        if mini[i][0][0] in ("crash", "hang"):
            continue
        js = [index.get(key(s["g"], s["prog"][:n])) for n in range(1, len(s["prog"]))]
        prefixes[i] = [j for j in js if j is not None and reqs[j].get("only") != "kv"]
    todo = sorted({j for js in prefixes.values() for j in js})
    if not todo:
        return mini, outs
    rr, owner = [], []
    for _ in range(min(repeats, max(8, 6000 // len(todo)))):
        for j in todo:
            rr.append(dict(reqs[j], i=len(rr), only="gripper", fresh=True))
            owner.append(j)
    again = run_harness(ctx, label + "_prefixes", worlds, graphs, rr)
    failing = {}
    for k, j in enumerate(owner):
        o = again[k]
        if "crash" in o or "hang" in o or "harness_err" in o:
            continue
        r = verdict(states[j], o.get("gripper"), maps[states[j]["g"] - 1])
        if r and j not in failing:
            failing[j] = (r, o)
    out_mini, outs = {}, dict(outs)
    for i, r in mini.items():
        blamed = next((j for j in prefixes.get(i, []) if j in failing), None)
        if blamed is None:
            out_mini[i] = r
        else:
            out_mini[blamed] = failing[blamed][0]
            outs[blamed] = failing[blamed][1]
    return out_mini, outs


def traversal_part(ctx, trav, label, family, sim, depth, cap, maxstates, totals):
    res = ctx.tlc("gripper", "GripperTraversal", "GT_%s.cfg" % label, workers=WORKERS, simulate=sim, depth=depth, timeout=900,
                  files={"Traversal.tla": trav}, label=label)
    worlds, graphs = res.msgs["worlds"][0], res.msgs["graphs"][0]
    states, seen = [], set()
    for s in res.msgs.get("st", []):
        k = json.dumps([s["g"], s["prog"]], sort_keys=True)
        if k not in seen:
            seen.add(k)
            states.append(s)
    if not states:
        raise Inconclusive("TLC emitted no states for %s" % label)
    states = thin_heavy(ctx, states, cap, label)
    if maxstates and len(states) > maxstates:
        # keep every start, a seeded sample of the longer programs
        short = [s for s in states if len(s["prog"]) <= 1]
        rest = [s for s in states if len(s["prog"]) > 1]
        ctx.rng.shuffle(rest)
        ctx.notes.append("%s: %d of %d states replayed (seeded sample)" % (label, maxstates, len(states)))
        states = short + rest[: max(0, maxstates - len(short))]
    selftest = os.environ.get("VERIF_C15_SELFTEST")    # binding self-tests (AGENT_GUIDE rule 7a), never set in normal runs
    if selftest == "corrupt-world":                     # the driver is given another mapping than the spec describes
        worlds = copy.deepcopy(worlds)
        worlds[0]["vmap"][0]["label"] += "-corrupted"
    maps = learn(ctx, label, worlds, graphs)
    reqs, skipped = [], 0
    for i, s in enumerate(states):
        g = graphs[s["g"] - 1]
        d = dict(i=i, g=s["g"], prog=s["prog"])
        if edge_ids_in(s["prog"], g):
            gp = translate(s["prog"], g, maps[s["g"] - 1]["by_triple"])
            if gp is None:
                d["only"] = "kv"
                skipped += 1
            else:
                d["gprog"] = gp
        reqs.append(d)
    outs = run_states(ctx, label, worlds, graphs, reqs, **(dict(req_timeout="30s", retry_timeout="45s") if family == "vol" else {}))
    if selftest == "corrupt-real":                      # one recorded field of one real outcome is falsified
        o = next(outs[i] for i, s in enumerate(states) if s["status"] == "ok" and (outs[i].get("gripper") or {}).get("rows")
                 and outs[i]["gripper"]["rows"][0].get("k") == "v")
        o["gripper"]["rows"][0]["label"] += "-corrupted"
    ctx.log("%s: replayed %d states on gripper and kvgraph (%d named a parallel edge: kvgraph only)" % (label, len(states), skipped))
    bad, shared, kvonly, ex_shared, ex_kv = {}, 0, 0, None, None
    for i, s in enumerate(states):
        o = outs[i]
        m = maps[s["g"] - 1]
        kvmap = dict(spec=m["spec"], real=m["spec"])
        if "crash" in o or "hang" in o:
            k = "crash" if "crash" in o else "hang"
            bad[i] = [(k, o[k])]
            continue
        if "harness_err" in o:
            raise Inconclusive("harness error on state %d: %s" % (i, o["harness_err"]))
        rk = verdict(s, o.get("kv"), kvmap) if "kv" in o else []
        if reqs[i].get("only") == "kv":
            kvonly += bool(rk)
            continue
        rg = verdict(s, o.get("gripper"), m)
        if rg:
            if rk and s["status"] == "ok" and bag(o.get("gripper"), m["real"]) == bag(o.get("kv"), m["spec"]) \
                    and not (o.get("gripper") or {}).get("err"):
                shared += 1   # both real backends agree with one another: not this property's subject
                ex_shared = ex_shared or "%s on '%s': %s" % (start_shape(s["prog"]), worlds[s["g"] - 1]["name"], rg[0][0])
                continue
            bad[i] = rg
        elif rk:
            kvonly += 1
            ex_kv = ex_kv or "%s on '%s': %s" % (start_shape(s["prog"]), worlds[s["g"] - 1]["name"], rk[0][0])
    if shared:
        ctx.notes.append("%s: %d states where gripper and kvgraph agree with one another but not with Traversal.tla (engine behaviour, C01/C02), e.g. %s" % (label, shared, ex_shared))
    if kvonly:
        ctx.notes.append("%s: %d states where only the kvgraph cross-check deviates from Traversal.tla (kvgraph behaviour, C01/C02/C03), e.g. %s" % (label, kvonly, ex_kv))
    mini = travrun.minimal(states, bad)
    mini, outs = reattribute(ctx, label, worlds, graphs, states, reqs, maps, mini, outs)
    for i, r in sorted(mini.items()):
        s = states[i]
        wname = worlds[s["g"] - 1]["name"]
        for kind, detail in r:
            sig = "gripper %s at %s" % (kind if kind not in ("crash", "hang") else kind + " " + str(detail), start_shape(s["prog"]))
            if wname in TAGGED_WORLDS and start_shape(s["prog"]).startswith(TAGGED_WORLDS[wname][0]):
                if kind == "hang":
                    sig = "gripper hang"
                sig += " [%s]" % TAGGED_WORLDS[wname][1]   # the one feature this world was built around: keep it apart
            ctx.diverge(sig, "%s %s on world '%s'" % (kind, detail, wname),
                        dict(world=worlds[s["g"] - 1], graph=graphs[s["g"] - 1], state=s, gripper_program=reqs[i].get("gprog", s["prog"]),
                             outcome=outs[i]))
    totals["states"] += len(states)
    totals["nontriv"] += sum(1 for s in states if s["status"] == "ok" and s["rows"])
    totals["bad"] += len(bad)
    totals["worlds"] += len(worlds)
    totals["lead"] += sum(1 for s in states if len(s["prog"]) > 1 and s["prog"][1]["op"] == "hasLabel")
    for s in states[:: max(1, len(states) // 2)]:
        ctx.sample(dict(world=worlds[s["g"] - 1]["name"], prog=s["prog"], status=s["status"], ty=s["ty"], rows=len(s["rows"])))
    return worlds, graphs, maps


def writes_part(ctx, family, totals):
    res = ctx.tlc("gripper", "GripperWrites", "GW_%s.cfg" % family, workers=WORKERS, timeout=600, label="writes-" + family)
    worlds, graphs = res.msgs["worlds"][0], res.msgs["graphs"][0]
    cases = res.msgs.get("wr", [])
    if not cases:
        raise Inconclusive("TLC emitted no write histories")
    maps = learn(ctx, "writes", worlds, graphs)
    reqs = []
    for i, c in enumerate(cases):
        m = maps[c["w"] - 1]
        E = graphs[c["w"] - 1].get("E") if isinstance(graphs[c["w"] - 1].get("E"), dict) else {}
        ws = []
        for x in c["calls"] if isinstance(c["calls"], list) else []:
            call = dict(x["call"])
            if call["op"] == "DelEdge" and call["gid"] in E:   # name an edge the driver really shows
                real = m["by_triple"].get(triple(E[call["gid"]]), [])
                if real:
                    call["gid"] = real[0]
            ws.append(call)
        reqs.append(dict(i=i, g=c["w"], writes=ws))
    outs = run_states(ctx, "writes", worlds, graphs, reqs)
    base_bad = set()
    order = sorted(range(len(cases)), key=lambda i: len(reqs[i]["writes"]))   # the empty history of every world first
    for i in order:
        c = cases[i]
        o = outs[i]
        m = maps[c["w"] - 1]
        rep = dict(world=worlds[c["w"] - 1], case=c, calls=reqs[i]["writes"], outcome=o)
        if "crash" in o or "hang" in o:
            k = "crash" if "crash" in o else "hang"
            ctx.diverge("gripper write %s %s" % (k, o[k]), "write history %s" % k, rep)
            continue
        if "harness_err" in o:
            raise Inconclusive("harness error on write case %d: %s" % (i, o["harness_err"]))
        for r in o.get("results") or []:
            if r.get("panic"):
                ctx.diverge("gripper %s panics" % r["op"], "write call panicked: %s" % r["panic"][:80], rep)
            elif not r.get("err"):
                ctx.diverge("gripper %s accepted" % r["op"], "write call returned no error on a read-only graph", rep)
        for key, rows in (("v", c["vrows"]), ("e", c["erows"])):
            exp = Counter(travcmp.canon_row(canon_out(r, m["spec"])) for r in (rows if isinstance(rows, list) else []))
            got = bag(o.get(key), m["real"])
            if got != exp:
                nocall = not reqs[i]["writes"]
                if nocall:
                    base_bad.add((c["w"], key))
                what = "vertex" if key == "v" else "edge"
                if nocall or (c["w"], key) in base_bad:
                    ctx.diverge("gripper %s() listing is not GraphOf" % key.upper(), "the exposed %s listing is not the mapped graph (before any write call)" % what, rep)
                else:
                    ctx.diverge("gripper %s() listing changed by write calls" % key.upper(),
                                "the exposed %s listing is no longer the mapped graph after %s" % (what, ">".join(x["op"] for x in reqs[i]["writes"])), rep)
    totals["writes"] += len(cases)
    ctx.sample(dict(world=worlds[cases[-1]["w"] - 1]["name"], write_history=[x["call"]["op"] for x in cases[-1]["calls"]], expected="all refused, graph unchanged"))


def run(ctx):
    trav = trav_text()
    totals = dict(states=0, nontriv=0, bad=0, worlds=0, writes=0, lead=0)
    for label, family, sim, depth, cap, maxstates in plans(ctx):
        traversal_part(ctx, trav, label, family, sim, depth, cap, maxstates, totals)
    # once more with every table behind gripper.DriverCache and scans that take a while: lookups by field reach a
    # cache that is still loading (the same states, the same expectations)
    CACHED[0] = True
    try:
        label, family, sim, depth, cap, maxstates = plans(ctx)[0]
        traversal_part(ctx, trav, label, family, sim, depth, cap, 6000 if ctx.tier == "quick" else 20000, totals)
    finally:
        CACHED[0] = False
    writes_part(ctx, "hand", totals)
    if ctx.tier != "quick":
        writes_part(ctx, "gen", totals)
    ctx.cov.update(evaluations=totals["states"] * 2 + totals["writes"], distinct_nontrivial=totals["nontriv"],
                   traces_validated_against_impl=totals["states"] + totals["writes"], exhaustive=False,
                   failing_states=totals["bad"], write_histories=totals["writes"], leading_hasLabel_states=totals["lead"],
                   rule="every program over the GripperTraversal alphabet up to the tier's length bound on GraphOf(world) for the 14 "
                        "hand-written worlds (missing/empty/dangling link fields, shared label, nested prefixes, repeated links, both "
                        "directions, foreign-key column, empty tables) and the generated family (all link tables of <= 2 rows over "
                        "4x4 endpoint kinds, 153 worlds), each run on gripper.TabularGraph and on kvgraph; plus all write histories "
                        "of <= 2 calls per world; non-trivial = well-typed with a non-empty untruncated result")
    ctx.assumptions += [
        "edge properties are taken to be the link row's fields (the property text fixes properties only for vertices; the driver does the same at every site)",
        "the id string of an edge is not fixed by the property: ids are compared through the (from,label,to) triple they denote, learnt from the driver's own E() listing; has(_gid)/render(_gid)/distinct() are explored on vertices only; programs naming one of several parallel edges (same triple) run on kvgraph only",
        "worlds are well-formed: unique prefixes, unique row ids per table, no two rows describing the same vertex id (prefix 'p'+'q1' vs 'pq'+'1'), endpoint fields hold text or are absent; prefixes and labels do not contain '-' (the driver's edge ids are from-label-to joined by '-'; a row id with '-' is world 14)",
        "the external table service is the repository's SimpleTableServicer over an in-memory gripper.Driver written for the harness (lookup by id, by text field equality, full scan in table order)",
        "rows are compared as multisets; outside the alphabet as in C01 (duplicate ids in V([a,a]), labels on edge-to-vertex moves, path after select/fields/unwind)",
    ]
