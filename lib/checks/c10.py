"""C10 (key-value part) - every embedded key-value driver behaves as the same ordered map.

KV.tla is a sorted-map state machine whose actions are the calls of kvi.KVInterface (point
reads, writes, deletes, prefix deletes, View sessions with Seek/SeekReverse/Next observed
through Valid/Key/Value, Update transactions with read-your-writes, BulkWrite sessions).  TLC
prints complete call histories, each call with the answer of the sorted map: exhaustively for
short histories over a small key universe from several initial contents, and as long random
walks (-simulate) over all keys of length <= 2 over {0x00,'a','b'}.  harness/kvdrv replays every
history on Badger, Bolt, LevelDB and Pebble (opened with kvi.NewKVInterface) and reports what
each call returned; this module compares call by call, and the full contents (forward scan)
after every mutating top-level call.

Replay economy: opening Badger costs ~1.5 s, so histories are replayed in chains on one store,
separated by a reset made of interface calls (Delete of every key the history wrote + a scan that
must be empty; history-1.reset.history-2 is itself a history of the interface).  Every reported
divergence is first re-run alone on a fresh store (and, if it only shows in the chain, with the
chain as replay)."""
import json
import zlib, os, shutil, tempfile, collections
from vlib import Inconclusive, KNOWN

DRIVERS = ["badger", "bolt", "level", "pebble"]
OPNAME = dict(ItGet="it.Get", TxGet="tx.Get", TxHasKey="tx.HasKey", TxSet="tx.Set", TxDelete="tx.Delete",
              TxView="tx.View", BulkSet="bulk.Set", Commit="Update(commit)", BulkEnd="BulkWrite(return)",
              Bulk="BulkWrite", Abort="Update(abort)", BulkAbort="BulkWrite(abort)")
POSITIONING = ("Seek", "SeekReverse", "Next")

# trigger shapes (op, w) of known findings, for the second generation pass (DESIGN 2.2).
# signature prefix -> shapes that KV.tla must avoid so that the rest of each history is still compared
KNOWN_TRIGGERS = {
}


def plans(tier):
    """(cfg, simulate, depth, label, chain length); -simulate num= is per TLC worker (8 workers)"""
    if tier == "quick":
        return [("KV_quick.cfg", None, None, "pairs", 100),
                ("KV_quick_iter.cfg", None, None, "iter", 100),
                ("KV_quick_tx.cfg", None, None, "tx", 100),
                ("KV_sim.cfg", "num=19", 83, "walks", 10)]
    return [("KV_thorough.cfg", None, None, "triples", 200),
            ("KV_thorough_z.cfg", None, None, "zero-byte", 200),
            ("KV_thorough_iter.cfg", None, None, "iter", 200),
            ("KV_thorough_tx.cfg", None, None, "tx", 200),
            ("KV_sim.cfg", "num=190", 83, "walks", 20)]


# ----------------------------------------------------------------------------- generation
def generate(ctx, cfg, simulate, depth, avoid=None):
    files = None
    if avoid:
        shapes = ", ".join('<<"%s", "%s">>' % (o, w) for o, w in sorted(avoid))
        files = {"KVParams.tla": "---- MODULE KVParams ----\nAvoidShapes == { %s }\n====\n" % shapes}
    res = ctx.tlc("kv", "KV", cfg, workers=8, simulate=simulate, depth=depth, timeout=900, files=files)
    seen, out = set(), []
    for b in res.msgs.get("beh", []):
        key = json.dumps(b["h"], sort_keys=True)
        if key in seen or not b["h"]:
            continue
        seen.add(key)
        out.append(b)
    if not out:
        raise Inconclusive("TLC emitted no history for %s" % cfg)
    return out


def wire(h):
    """what the harness gets: the calls without the expected answers"""
    return [dict(op=s["op"], k=s["k"], v=s["v"], c=s["c"]) for s in h]


# ----------------------------------------------------------------------------- comparison
def rows(snap):
    return [[r["k"], r["v"]] for r in snap]


def cmp_state(exp_rows, got_rows, note):
    if note:
        return "scan: " + note.split(":")[0], note
    if got_rows == exp_rows:
        return None
    e = {json.dumps(r[0]): r[1] for r in exp_rows}
    g = {json.dumps(r[0]): r[1] for r in got_rows}
    if len(g) != len(got_rows):
        kind = "a key is listed twice"
    elif set(g) > set(e) and all(g[k] == e[k] for k in e):
        kind = "keys survive"
    elif set(g) < set(e) and all(g[k] == e[k] for k in g):
        kind = "keys are missing"
    elif g == e:
        kind = "wrong order"
    elif set(g) == set(e):
        kind = "wrong values"
    else:
        kind = "other keys"
    return "state-differs", "%s: specified contents %s, forward scan returns %s" % (kind, exp_rows, got_rows)


def cmp_step(st, got):
    """first difference between the specified answer of a call and what the driver returned:
    None or (shape, detail)"""
    exp = st["r"]
    t = got.get("t")
    if t == "panic":
        return "panic: " + got.get("panic", "?"), got.get("stack", "")[:1500]
    if t == "hang":
        return "hang", "the call did not return within %s" % got.get("after")
    if t in ("bad-step", "desync"):
        raise Inconclusive("harness protocol: %s %s at %s" % (t, got.get("why"), st["op"]))
    et = exp["t"]
    if et == "open":
        return None
    shape = None
    if et == "found":
        if t != "found":
            shape = "absent-for-present"
        elif got.get("v") != exp["v"]:
            shape = "wrong-value"
    elif et == "absent":
        if t != "absent":
            shape = "found-for-absent"
    elif et in ("true", "false"):
        if t != et:
            shape = "true-for-absent" if t == "true" else "false-for-present"
    elif et == "ok":
        if t != "ok":
            shape = "error: %s" % got.get("err", "?")[:60]
    elif et == "at":
        if t != "at" or got.get("k") != exp["k"]:
            shape = "wrong-position"      # invalid although a key qualifies, or valid at another key
        elif got.get("v") != exp["v"]:
            shape = "wrong-value"
    elif et == "inv":
        if t != "inv":
            shape = "wrong-position"      # valid although no key qualifies
    else:
        raise Inconclusive("unknown answer kind %r" % et)
    if shape:
        return shape, "specified answer %s, driver returned %s" % (
            {k: v for k, v in exp.items() if k == "t" or v not in ([], "")}, {k: v for k, v in got.items() if k not in ("scan",)})
    if st["c"]:
        if "scan" not in got:
            raise Inconclusive("harness did not scan after %s" % st["op"])
        return cmp_state(rows(st["s"]), got["scan"], got.get("scan_note"))
    return None


def signature(drv, st, shape):
    if "returned-buffer-overwritten" in shape:
        # one root cause whatever call the scan followed: an iterator hands out a buffer it writes to later
        return "kv %s iterator: returned-buffer-overwritten" % drv
    op = OPNAME.get(st["op"], st["op"])
    w = st["w"]
    if w.startswith("empty-prefix"):
        w = "empty-prefix"
    if st["op"] in POSITIONING or w.startswith("empty-"):
        return "kv %s %s %s: %s" % (drv, op, w, shape)
    return "kv %s %s: %s" % (drv, op, shape)


def first_divergence(drv, beh, out):
    """-> None | dict(step, signature, what, shape)"""
    res = out.get("res")
    if res is None:
        raise Inconclusive("harness returned no result list: %s" % str(out)[:300])
    h = beh["h"]
    for j, st in enumerate(h):
        got = res[j] if j < len(res) else None
        if got is None:
            if out.get("hung") or out.get("final_note", "").startswith("hang"):
                break
            raise Inconclusive("call %d (%s) of a history was not executed on %s" % (j, st["op"], drv))
        d = cmp_step(st, got)
        if d:
            return dict(step=j, shape=d[0], signature=signature(drv, st, d[0]), what="%s; %s" % (describe(st), d[1]),
                        op=st["op"], w=st["w"])
        if st["r"]["t"] == "open":
            return None
    note = out.get("final_note") or ""
    if out.get("hung") and not note:
        return None
    if note.startswith("panic") or note.startswith("hang"):
        kind = note.split(" ")[0]
        return dict(step=len(h), shape=kind, signature="kv %s final scan: %s" % (drv, note[:80]), what=note, op="Scan", w="")
    if not beh["fo"]:
        if out.get("final") is None:
            raise Inconclusive("no final scan from the harness on %s" % drv)
        d = cmp_state(rows(beh["f"]), out["final"], note)
        if d:
            # a session left open by the end of the history was closed with a nil return
            last = {"top": "end", "bulk": "BulkWrite(return)", "view": "View(return)"}.get(beh["m"], "Update(commit)")
            return dict(step=len(h), shape=d[0], signature="kv %s %s: %s" % (drv, last, d[0]),
                        what="after the history (%s) %s" % (last, d[1]), op="Final", w=beh["m"])
    return None


def keytxt(k):
    return "'" + "".join({0: "\\x00", 1: "a", 2: "b"}.get(x, "?") for x in k) + "'"


def describe(st):
    op = OPNAME.get(st["op"], st["op"])
    if st["op"] in ("Set", "TxSet", "BulkSet"):
        return "%s(%s,'%s') [%s]" % (op, keytxt(st["k"]), st["v"], st["w"])
    if st["op"] in ("View", "Update", "Bulk", "ViewEnd", "Commit", "BulkEnd", "Abort", "BulkAbort", "TxView", "Next"):
        return "%s [%s]" % (op, st["w"])
    return "%s(%s) [%s]" % (op, keytxt(st["k"]), st["w"])


# ----------------------------------------------------------------------------- replay
class Replayer:
    def __init__(self, ctx):
        self.ctx = ctx
        base = "/dev/shm" if os.path.isdir("/dev/shm") and os.access("/dev/shm", os.W_OK) else ctx.scratch
        self.kvtmp = tempfile.mkdtemp(prefix="verif_c10_kv_", dir=base)
        self.round = 0
        self.stores_opened = 0

    def close(self):
        shutil.rmtree(self.kvtmp, ignore_errors=True)

    def run(self, lines, jobs=8, call_timeout="3s", sup_timeout="120s", timeout=1700):
        self.round += 1
        # two embeddings of the symbolic byte alphabet 0 < 1 < 2: (0x00, 'a', 'b') and (0x00, 'a', 0xff); which
        # one a behaviour gets depends on its content only, so that a re-run of the same behaviour uses the same
        for l in lines:
            l["hi"] = zlib.crc32(json.dumps(l.get("h") or l.get("chain"), sort_keys=True).encode()) % 2 == 1
        inp = self.ctx.write_ndjson("kv_%d_in.ndjson" % self.round, lines)
        outp = inp.replace("_in.", "_out.")
        self.ctx.harness(["kvdrv", "-j", str(jobs), "-timeout", sup_timeout], input_path=inp, output_path=outp,
                         timeout=timeout, env={"VERIF_KV_TMP": self.kvtmp, "VERIF_KV_CALL_TIMEOUT": call_timeout})
        outs = {}
        for o in self.ctx.read_ndjson(outp):
            if "i" in o:
                outs[o["i"]] = o
                self.stores_opened += o.get("opens", 0)
        if len(outs) != len(lines):
            raise Inconclusive("harness answered %d of %d requests" % (len(outs), len(lines)))
        for o in outs.values():
            if "open_err" in o:
                raise Inconclusive("a store could not be opened: %s" % o["open_err"])
            if "died" in o:
                raise Inconclusive("worker died without a Go panic: %s" % o.get("trace", "")[-400:])
        return outs

    def chains(self, behs, chain_len, hang_shapes):
        """Replays every history on every driver in chains.  Histories are cut before a call whose shape
        is already known to hang on that driver (hang_shapes[drv]); chains lost to a hang or to a dead
        worker are re-run.  -> {(drv, idx): (effective history record, harness output, chain id)}"""
        results = {}
        chainlog = {}
        pending = {d: list(range(len(behs))) for d in DRIVERS}
        cid = 0
        for attempt in range(12):
            lines, meta = [], []
            for d in DRIVERS:
                todo = []
                for idx in pending[d]:
                    b = cut(behs[idx], hang_shapes[d])
                    if b is not None:
                        todo.append((idx, b))
                for a in range(0, len(todo), chain_len):
                    part = todo[a:a + chain_len]
                    lines.append(dict(i=len(lines), drv=d, chain=[wire(b["h"]) for _, b in part]))
                    meta.append((d, part, cid))
                    chainlog[cid] = (d, [b for _, b in part])
                    cid += 1
                pending[d] = []
            if not lines:
                break
            # interleave the drivers so that the slow ones do not end up alone on the workers
            by = {d: [i for i, m in enumerate(meta) if m[0] == d] for d in DRIVERS}
            order = [by[d][k] for k in range(max(len(v) for v in by.values())) for d in DRIVERS if k < len(by[d])]
            lines = [dict(lines[i], i=n) for n, i in enumerate(order)]
            meta = [meta[i] for i in order]
            outs = self.run(lines, call_timeout="5s")
            hung_new = []
            for n, (d, part, c) in enumerate(meta):
                o = outs[n]
                got = o.get("outs") or []
                if "crash" in o or "hang" in o:
                    got = []   # the whole worker died (panic off the calling goroutine, or stuck): re-run one by one below
                for pos, ((idx, b), g) in enumerate(zip(part, got)):
                    results[(d, idx)] = (b, g, c, pos)
                    if g.get("hung"):
                        j = next((j for j, r in enumerate(g["res"]) if r and r.get("t") == "hang"), None)
                        if j is not None and (b["h"][j]["op"], b["h"][j]["w"]) not in hang_shapes[d]:
                            hung_new.append((d, idx, b, j))
                lost = [idx for idx, _ in part[len(got):]]
                if ("crash" in o or "hang" in o) and len(part) > 1:
                    pending[d] += lost          # retry in chains; a chain of one is the final answer
                elif "crash" in o or "hang" in o:
                    idx, b = part[0]
                    kind = "crash" if "crash" in o else "hang"
                    results[(d, idx)] = (b, dict(worker=kind, site=o[kind], trace=o.get("trace", "")), c, 0)
                else:
                    pending[d] += lost
            # a call that overran the short in-chain deadline is a hang only if it also overruns a generous
            # deadline alone on a fresh store; otherwise the machine was slow and the history is replayed again
            if hung_new:
                pick = {}
                for d, idx, b, j in hung_new:
                    pick.setdefault((d, b["h"][j]["op"], b["h"][j]["w"]), (d, idx, b, j))
                keys = list(pick)
                o2 = self.run([dict(i=n, drv=pick[k][0], h=wire(pick[k][2]["h"][: pick[k][3] + 1])) for n, k in enumerate(keys)],
                              jobs=4, call_timeout="30s", sup_timeout="90s")
                for n, k in enumerate(keys):
                    r = o2[n]
                    if r.get("hung") or "hang" in r:
                        hang_shapes[k[0]].add((k[1], k[2]))
                    else:
                        self.ctx.notes.append("slow machine: %s %s [%s] overran 5 s in a chain but returned when re-run alone" % k)
                for d, idx, b, j in hung_new:
                    if (b["h"][j]["op"], b["h"][j]["w"]) not in hang_shapes[d]:
                        del results[(d, idx)]
                        pending[d].append(idx)
            if attempt >= 1:
                chain_len = max(1, chain_len // 4)  # whatever keeps killing workers is isolated quickly
        if any(pending.values()):
            raise Inconclusive("histories left unreplayed after 12 rounds: %s" % {d: len(v) for d, v in pending.items()})
        return results, chainlog


def cut(beh, shapes):
    """prefix of a history that stops before the first call of a shape in `shapes` (a prefix of a
    history is a history; the answers of its calls are unchanged).  None if nothing is left."""
    if not shapes:
        return beh
    h = beh["h"]
    for j, st in enumerate(h):
        if (st["op"], st["w"]) in shapes:
            if j == 0:
                return None
            # the contents at the cut are not emitted by TLC unless the last kept call carries them
            return dict(h=h[:j], m="cut", fo=True, f=[], cut=True)
    return beh


# ----------------------------------------------------------------------------- the check
def run(ctx):
    rp = Replayer(ctx)
    try:
        if ctx.replay:
            return run_replay(ctx, rp)
        return run_check(ctx, rp)
    finally:
        rp.close()


def known_avoid():
    """trigger shapes of the findings listed as known for C10"""
    shapes = set()
    try:
        with open(KNOWN) as fh:
            ks = [k for k in json.load(fh).get("findings", []) if k.get("property") == "C10" and k.get("status") == "known"]
    except Exception:
        ks = []
    for k in ks:
        for pref, sh in KNOWN_TRIGGERS.items():
            if k["signature"].startswith(pref):
                shapes |= set(sh)
    return shapes


def run_check(ctx, rp, corrupt=None):
    corrupt = corrupt if corrupt is not None else os.environ.get("VERIF_C10_SELFTEST_CORRUPT")
    hang_shapes = {d: set() for d in DRIVERS}
    found = collections.OrderedDict()     # signature -> list of occurrences
    shapes_seen = set()
    calls = histories = nontrivial = 0
    abort_notes = collections.Counter()
    err_notes = collections.Counter()
    avoid = known_avoid()
    passes = [None] + ([avoid] if avoid else [])
    for pno, av in enumerate(passes):
        for cfg, sim, depth, label, chain_len in plans(ctx.tier):
            if av and not sim:
                continue   # second pass (known-finding triggers avoided): random walks only
            behs = generate(ctx, cfg, sim, depth, avoid=av)
            if corrupt and pno == 0:
                corrupt_one(behs, corrupt)
                corrupt = None
            ctx.log("%s%s: %d histories, %d calls" % (label, " (avoiding known triggers)" if av else "", len(behs),
                                                      sum(len(b["h"]) for b in behs)))
            results, chainlog = rp.chains(behs, chain_len, hang_shapes)
            for (d, idx), (b, out, cid, pos) in sorted(results.items(), key=lambda kv: (kv[0][1], kv[0][0])):
                if "worker" in out:
                    sig = "kv %s worker %s: %s" % (d, out["worker"], out["site"])
                    occ = dict(drv=d, beh=b, step=None, signature=sig, shape=out["worker"], cid=cid, pos=pos, chainlog=chainlog,
                               what="the process %s while replaying the history: %s" % (
                                   "died" if out["worker"] == "crash" else "hung", out["site"]))
                    found.setdefault(sig, []).append(occ)
                    continue
                dv = first_divergence(d, b, out)
                upto = dv["step"] if dv else len(b["h"])
                for st, r in list(zip(b["h"], out["res"]))[:upto]:
                    if r is None:
                        continue
                    shapes_seen.add((d, st["op"], st["w"], st["r"]["t"]))
                    if st["op"] in POSITIONING and st["r"]["t"] in ("at", "inv"):
                        err_notes[(d, st["op"], st["r"]["t"], "error" if r.get("err") else "nil")] += 1
                    if st["r"]["t"] == "open" and "scan" in r and not b.get("cut"):
                        abort_notes[(d, st["op"], st["w"], abort_effect(b, r))] += 1
                calls += upto
                if dv:
                    dv.update(drv=d, beh=b, cid=cid, pos=pos, chainlog=chainlog)
                    found.setdefault(dv["signature"], []).append(dv)
            histories += len(behs)
            nontrivial += sum(1 for b in behs if any(s["c"] and s["s"] for s in b["h"]))
            for b in (behs[len(behs) // 3:][:1] if not sim else behs[:2]):
                ctx.sample(dict(cfg=cfg, history=[describe(s) + " -> " + ans(s) for s in b["h"]], final=rows(b["f"]),
                                final_open=b["fo"]))
    merge_inverted(found)
    for sig, occs in found.items():
        ctx.log("candidate divergence (%d histories): %s" % (len(occs), sig))
    confirm(ctx, rp, found)
    # ---- evidence
    ops = sorted({(o, w) for _, o, w, _ in shapes_seen})
    ctx.cov.update(
        evaluations=calls, distinct_nontrivial=len(shapes_seen), traces_validated_against_impl=histories * len(DRIVERS),
        exhaustive=(ctx.tier == "thorough" or ctx.tier == "quick"),
        histories=histories, histories_with_nonempty_checked_contents=nontrivial, stores_opened=rp.stores_opened,
        call_shapes_compared_per_driver={d: len({x for x in shapes_seen if x[0] == d}) for d in DRIVERS},
        rule="evaluations = calls replayed on a real driver and compared with the answer printed by TLC (up to the first "
             "divergence of each history); distinct_nontrivial = distinct (driver, call, situation label w of KV.tla, kind of "
             "specified answer) combinations compared, %d call situations in all; the exhaustive configurations replay EVERY "
             "history of their bound (see tlc_runs), the random walks are a sample" % len(ops))
    ctx.cov["not_compared_by_design"] = {
        "store_after_callback_error": {"%s %s [%s]: %s" % k: v for k, v in sorted(abort_notes.items())},
        "error_result_of_positioning_calls": {"%s %s spec=%s returned=%s" % k: v for k, v in sorted(err_notes.items())},
    }
    if any(hang_shapes.values()):
        ctx.notes.append("histories were cut before calls of shapes found to hang: %s" % {d: sorted(v) for d, v in hang_shapes.items() if v})
    ctx.assumptions += ASSUMPTIONS


ASSUMPTIONS = [
    "keys: byte strings of length 1..2 over {0x00,'a','b'} are written; the empty key is used only as argument of Get/HasKey/"
    "it.Get/tx.Get/tx.HasKey (specified: absent), Seek (specified: first key) and DeletePrefix (specified: deletes everything); "
    "writes with the empty key are not generated (Badger and Bolt reject them, the interface is silent); SeekReverse(\"\") is not "
    "generated (Badger reads it as 'from the end')",
    "values \"\", \"x\", \"y\"; a nil and an empty value are not distinguished",
    "SeekReverse(t) is specified as 'greatest key <= t' (what kvindex relies on), Next after it moves to smaller keys",
    "the error results of Seek/SeekReverse/Next are not compared (Badger/LevelDB/Pebble return an error when the position becomes "
    "invalid, Bolt's Next returns nil): the position is compared through Valid/Key/Value; counts are in coverage.not_compared_by_design",
    "Next/Key/Value are only issued on an iterator the specification says is valid; Valid() is not called before the first Seek",
    "iterator visibility of the same transaction's uncommitted writes is open: tx.View is generated only while the transaction "
    "has written nothing",
    "the store after an Update/BulkWrite callback returned an error is open (Badger and Bolt roll back, LevelDB and Pebble keep "
    "the writes: two against two, and the property text does not name rollback); the history ends there and what each driver "
    "did is only counted in coverage.not_compared_by_design",
    "no top-level call is made from inside a callback; one goroutine; no reopen (C04) and no concurrency (C17) here",
    "stores live on a RAM disk when /dev/shm is writable (durability is not part of C10); histories share a store in chains "
    "separated by Delete-everything-written + empty-scan resets, every reported divergence is re-run on a fresh store",
    "the second sentence of C10 (same graph history on each driver) is checked elsewhere (store family)",
]


def ans(s):
    r = s["r"]
    if r["t"] == "at":
        return "at(%s,'%s')" % (keytxt(r["k"]), r["v"])
    if r["t"] == "found":
        return "found('%s')" % r["v"]
    return r["t"]


def abort_effect(b, r):
    """what a driver did with the writes of an aborted callback (informational)"""
    j = len(b["h"]) - 1
    before = None
    for st in reversed(b["h"][:j]):
        if st["c"]:
            before = rows(st["s"])
            break
    if before is None:
        before = []
    if b["h"][j]["w"] == "no-writes":
        return "nothing to keep"
    return "rolled back" if r["scan"] == before else "writes (partly) kept"


def merge_inverted(found):
    """one defect, one signature: (1) a divergence seen with the empty key/prefix AND with ordinary keys at the
    same call and of the same shape is not about the empty key; (2) true-for-absent and false-for-present at one
    call site are an inverted test"""
    def move(src, dst):
        found.setdefault(dst, [])
        found[dst] += found.pop(src)
        for o in found[dst]:
            o["signature"] = dst
    for sig in list(found):
        for w in (" empty-key", " empty-prefix"):
            if w + ": " in sig and sig.replace(w + ": ", ": ") in found:
                move(sig, sig.replace(w + ": ", ": "))
    for sig in list(found):
        if sig.endswith(": true-for-absent"):
            other = sig[: -len("true-for-absent")] + "false-for-present"
            if other in found:
                base = sig[: -len(": true-for-absent")]
                move(sig, base + ": inverted")
                move(other, base + ": inverted")
    for sig in list(found):
        if " empty-key: true-for-absent" in sig and sig.replace(" empty-key: true-for-absent", ": inverted") in found:
            move(sig, sig.replace(" empty-key: true-for-absent", ": inverted"))


def corrupt_one(behs, how):
    """binding self-test: falsify one expected answer printed by TLC"""
    for b in behs:
        for st in b["h"]:
            if how == "get" and st["r"]["t"] == "found":
                st["r"]["v"] = "y" if st["r"]["v"] != "y" else "x"
                return
            if how == "state" and st["c"] and st["s"]:
                st["s"] = st["s"][:-1]
                return
            if how == "seek" and st["r"]["t"] == "at":
                st["r"]["t"] = "inv"
                return
    raise Inconclusive("self-test: nothing to corrupt")


def confirm(ctx, rp, found):
    """Re-run up to three occurrences of every signature alone on a fresh store with generous deadlines.
    Reproduced -> divergence with the single history as replay.  Seen only in the chain -> the chain prefix
    is re-run; reproduced there -> divergence with the chain as replay.  Otherwise inconclusive."""
    if not found:
        return
    lines, meta = [], []
    for sig, occs in found.items():
        occs.sort(key=lambda o: len(o["beh"]["h"]))
        for o in occs[:3]:
            lines.append(dict(i=len(lines), drv=o["drv"], h=wire(o["beh"]["h"])))
            meta.append((sig, o))
    outs = rp.run(lines, jobs=4, call_timeout="20s", sup_timeout="60s")
    confirmed, chain_needed = {}, {}
    for n, (sig, o) in enumerate(meta):
        out = outs[n]
        if "crash" in out or "hang" in out:
            kind = "crash" if "crash" in out else "hang"
            s2 = "kv %s worker %s: %s" % (o["drv"], kind, out[kind])
            if o["step"] is None and s2 == sig or o["shape"] == "hang" and kind == "hang":
                confirmed.setdefault(sig, []).append((o, dict(worker=kind, site=out[kind], trace=out.get("trace", "")[-3000:])))
            continue
        if o["step"] is None:
            continue
        dv = first_divergence(o["drv"], o["beh"], out)
        if dv and dv["step"] == o["step"] and dv["shape"].split(":")[0] == o["shape"].split(":")[0]:
            confirmed.setdefault(sig, []).append((o, out))
    for sig, occs in found.items():
        if sig in confirmed:
            continue
        chain_needed[sig] = occs[0]
    if chain_needed:
        lines, meta = [], []
        for sig, o in chain_needed.items():
            d, chain = o["chainlog"][o["cid"]]
            prefix = chain[: o["pos"] + 1]
            lines.append(dict(i=len(lines), drv=d, chain=[wire(b["h"]) for b in prefix]))
            meta.append((sig, o, prefix))
        outs = rp.run(lines, jobs=4, call_timeout="20s", sup_timeout="120s")
        for n, (sig, o, prefix) in enumerate(meta):
            out = outs[n]
            got = (out.get("outs") or [])
            if len(got) == len(prefix) and o["step"] is not None:
                dv = first_divergence(o["drv"], o["beh"], got[-1])
                if dv and dv["step"] == o["step"] and dv["shape"].split(":")[0] == o["shape"].split(":")[0]:
                    sig2 = sig + " (only after earlier histories on the same store)"
                    ctx.diverge(sig2, o["what"], dict(driver=o["drv"], chain=[b["h"] for b in prefix], step=o["step"],
                                                      note="histories run on one store, separated by Delete of every key written"))
                    continue
            raise Inconclusive("a divergence did not reproduce (neither alone on a fresh store nor in its chain): %s: %s"
                               % (sig, o["what"][:400]))
    for sig, lst in confirmed.items():
        total = len(found[sig])
        for o, out in lst[:1]:
            h = o["beh"]["h"]
            rep = dict(driver=o["drv"], history=h, final=o["beh"]["f"], final_open=o["beh"]["fo"], mode=o["beh"]["m"],
                       step=o["step"], readable=[describe(s) + " -> " + ans(s) for s in h],
                       driver_returned=out.get("res") if "res" in out else out, occurrences=total)
            ctx.diverge(sig, o["what"], rep)
        for o in found[sig][1:total]:
            ctx.diverge(sig, o["what"], dict(driver=o["drv"], history=o["beh"]["h"], step=o["step"]))


def run_replay(ctx, rp):
    with open(ctx.replay) as fh:
        rep = json.load(fh)["replay"]
    if "chain" in rep:
        lines = [dict(i=0, drv=rep["driver"], chain=[wire(h) for h in rep["chain"]])]
        out = rp.run(lines, jobs=1, call_timeout="20s")[0]
        beh = dict(h=rep["chain"][-1], m="top", fo=True, f=[])
        got = (out.get("outs") or [{}])[-1]
    else:
        beh = dict(h=rep["history"], m=rep.get("mode", "top"), fo=rep.get("final_open", True), f=rep.get("final", []))
        out = rp.run([dict(i=0, drv=rep["driver"], h=wire(beh["h"]))], jobs=1, call_timeout="20s", sup_timeout="60s")[0]
        got = out
    if "crash" in out or "hang" in out:
        kind = "crash" if "crash" in out else "hang"
        ctx.diverge("kv %s worker %s: %s" % (rep["driver"], kind, out[kind]), "the process %s" % kind, rep)
        return
    dv = first_divergence(rep["driver"], beh, got)
    if dv:
        ctx.diverge(dv["signature"], dv["what"], rep)
    ctx.cov.update(evaluations=len(beh["h"]), traces_validated_against_impl=1)
