"""C20 - SQL backends treat client-supplied identifiers as data.

SqlLex.tla enumerates every client string up to the tier's length over the character-class
alphabet, checks that the parameterised / quote-doubled template shapes are data-only and
predicts which strings break the shapes the drivers use.  Every string is concretised (several
concrete characters per class, plus hand-written unicode / classic payloads) and handed to
every psql and existing-sql entry point that takes an id, a label or a graph name; a recording
database/sql driver captures the statement text and the bound arguments.  The recorded
statements are mapped back to classes and SqlLexTrace.tla (TLC) lexes each of them and compares
its token shape with the statement the same call site sent for the benign string.  Bound
arguments are exempt by definition.  Divergence signature = driver entry point + argument +
quoting context of the hole (computed by TLC on the benign statement)."""
import json, os
from vlib import Inconclusive

MARK = "zqvx"            # benign client string: letters only, unique enough to be found in a statement
CLASSES = ["L", "D", "S", "Q", "DQ", "B", "M", "SL", "ST", "SC", "LP", "RP", "C", "E", "P", "O"]
FIXED = {"Q": "'", "DQ": '"', "B": "\\", "M": "-", "SL": "/", "ST": "*", "SC": ";", "LP": "(", "RP": ")",
         "C": ",", "E": "=", "P": "$"}
# several concrete characters per open class; each must map back to the class it stands for
# (newline maps to N, which the lexer treats like S except that it ends a line comment)
VARIANTS = [
    {"L": "a", "D": "1", "S": " ", "O": "."},
    {"L": "é", "D": "7", "S": "\t", "O": "`"},
    {"L": "Z", "D": "0", "S": "\n", "O": ":"},
    {"L": "Ж", "D": "9", "S": "\r", "O": "%"},
]
# hand-written payloads and unicode fillers (validated like every other string)
EXTRAS = [
    "a' OR '1'='1", "'; DROP TABLE graphs; --", "x'); DELETE FROM graphs; --", "\\'; SELECT 1; --", "a\"b", "a\" OR \"\"=\"",
    "1 OR 1=1", "1; DROP TABLE users", "1) OR (1=1", "a/*", "*/ x", "/* */", "a -- b", "--\nx", "a'--\n'b", "$1", "$$x$$",
    "éè'Ж", "’ OR 1=1", "ʼ", "＇", "a b", "\U0001F600'", "a\tb", "a\nb", "t`x", "a%sb", "%d'",
    "''", "'''", "a''b", "\\", "\\\\'", "a:b", "a:b:c:d:e", "1a", "a-b", "a--b", "-a", "_a", "A B",
]


# one code character per class (compact storage of recorded statements); NAME gives the class
# names SqlLexer.tla uses
CODE = {"L": "L", "D": "D", "S": "S", "N": "N", "Q": "Q", "DQ": "W", "B": "B", "M": "M", "SL": "F", "ST": "T", "SC": "K",
        "LP": "A", "RP": "Z", "C": "C", "E": "E", "P": "P", "O": "O"}
NAME = {v: k for k, v in CODE.items()}


class _Table(dict):
    def __missing__(self, cp):            # every non-ASCII character is an identifier character for PostgreSQL
        return "L" if cp >= 128 else "O"


_T = _Table()
for _c in "abcdefghijklmnopqrstuvwxyzABCDEFGHIJKLMNOPQRSTUVWXYZ_":
    _T[ord(_c)] = "L"
for _c in "0123456789":
    _T[ord(_c)] = "D"
for _c in " \t\r\f":
    _T[ord(_c)] = "S"
for _c, _k in (("\n", "N"), ("'", "Q"), ('"', "DQ"), ("\\", "B"), ("-", "M"), ("/", "SL"), ("*", "ST"), (";", "SC"), ("(", "LP"),
               (")", "RP"), (",", "C"), ("=", "E"), ("$", "P")):
    _T[ord(_c)] = CODE[_k]


def classes(text):
    """statement text -> string of class codes, one per character"""
    return text.translate(_T)


def names(codes):
    return [NAME[c] for c in codes]


def concretise(cls, variant):
    m = VARIANTS[variant]
    return "".join(FIXED.get(c) or m[c] for c in cls)


def base(name):
    return name.split("#")[0]


def common_prefix(seqs):
    a, b = min(seqs), max(seqs)
    n = 0
    for x, y in zip(a, b):
        if x != y:
            break
        n += 1
    return n


def run(ctx):
    quick = ctx.tier == "quick"
    # ---------------------------------------------------------------- 1. TLC: enumeration, model-level DataOnly
    res = ctx.tlc("sqllex", "SqlLex", "SqlLex_len3.cfg" if quick else "SqlLex_len4.cfg", workers=8, timeout=900,
                  label="all client strings; safe shapes data-only; predictions for driver shapes")
    strs = res.msgs.get("str", [])
    if not strs:
        raise Inconclusive("SqlLex emitted no strings")
    pred = {}
    for m in strs:
        pred[tuple(m["s"])] = set(m["breaks"])
    maxlen = max(len(k) for k in pred)
    want = sum(len(CLASSES) ** n for n in range(maxlen + 1))
    if len(pred) != want:
        raise Inconclusive("SqlLex emitted %d strings, expected %d" % (len(pred), want))
    ctx.log("model: %d class strings (length <= %d); %d break the quoted shape, %d break an unquoted shape" % (
        len(pred), maxlen, sum(1 for b in pred.values() if "quoted_eq" in b), sum(1 for b in pred.values() if "unquoted_eq" in b)))

    if not quick:
        # the other dialect (backslash escapes inside '...'): the safe shapes must be data-only there too (with
        # backslashes doubled); how many more strings break the quoted shape is reported, never used for a verdict
        rb = ctx.tlc("sqllex", "SqlLex", "SqlLex_bs3.cfg", workers=8, timeout=900,
                     label="backslash-escape dialect: safe shapes data-only; predictions (information only)")
        more = [m["s"] for m in rb.msgs.get("str", []) if "quoted_eq" in m["breaks"] and "quoted_eq" not in pred[tuple(m["s"])]]
        ctx.notes.append("backslash-escape dialect (MySQL default, PostgreSQL with standard_conforming_strings=off), length <= 3: "
                         "%d further class strings break the quoted shape, e.g. %s (model level only)" % (len(more), sorted(more)[:3]))

    # ---------------------------------------------------------------- 2. cases for the real code
    full_len = 2 if quick else 3           # exhaustive on the code up to this length
    sample_n = 300 if quick else 4000       # seeded sample of the next length
    chosen = [k for k in pred if len(k) <= full_len]
    nxt = sorted(k for k in pred if len(k) == full_len + 1)
    ctx.rng.shuffle(nxt)
    chosen += nxt[:sample_n]
    chosen.sort(key=lambda k: (len(k), k))
    cases = [dict(s=MARK, cls=None, variant=0)]
    seen = {MARK}
    for k in chosen:
        vs = range(len(VARIANTS)) if len(k) <= full_len else (0, 1 + ctx.rng.randrange(len(VARIANTS) - 1))
        for v in vs:
            s = concretise(k, v)
            if s in seen:
                continue
            seen.add(s)
            cases.append(dict(s=s, cls=k, variant=v))
    for s in EXTRAS:
        if s not in seen:
            seen.add(s)
            cases.append(dict(s=s, cls=None, variant=-1))
    if ctx.replay:
        with open(ctx.replay) as fh:
            rp = json.load(fh)
        want_s = rp.get("replay", {}).get("client_string")
        cases = [cases[0]] + [dict(s=want_s, cls=None, variant=-1)]
    for i, c in enumerate(cases):
        c["i"] = i
    ctx.log("%d client strings for the drivers (%d class strings x concretisations, %d hand-written)" % (
        len(cases) - 1, len(chosen), len(EXTRAS)))

    # ---------------------------------------------------------------- 3. record what the drivers send
    inp = ctx.write_ndjson("sql_in.ndjson", [dict(setup=True)] + [dict(i=c["i"], s=c["s"]) for c in cases])
    outp = inp.replace("_in", "_out")
    ctx.harness(["sqlrec", "-j", "8"], input_path=inp, output_path=outp, timeout=1500)
    nsites = [0]
    panics = {}
    corrupt = [bool(os.environ.get("VERIF_C20_CORRUPT"))]

    def records():
        with open(outp, errors="replace") as fh:
            for line in fh:
                if not line.startswith("{"):
                    continue
                o = json.loads(line)
                if "i" not in o:
                    if o.get("setup") and o.get("err"):
                        raise Inconclusive("sqlrec setup failed: %s" % o["err"])
                    continue
                if "crash" in o or "hang" in o or "sites" not in o:
                    raise Inconclusive("sqlrec worker lost on client string %r: %s" % (cases[o["i"]]["s"], str(o)[:300]))
                nsites[0] = o.get("nsites", nsites[0])
                d = {}
                for st in o["sites"]:
                    if st.get("panic") == "timeout":
                        raise Inconclusive("call %s(%s) did not return for client string %r" % (st["site"], st["param"], cases[o["i"]]["s"]))
                    if st.get("panic"):
                        panics.setdefault((base(st["site"]), base(st["param"])), st["panic"])
                    d[(st["site"], st["param"])] = st["ev"] or []
                yield o["i"], d

    benign = None
    for i, d in records():
        if i == 0:
            benign = d
            break
    if not benign:
        raise Inconclusive("the benign string produced no statement at all")
    btexts = {key: [e["q"] for e in evs] for key, evs in benign.items()}
    bound_sites = {key for key, evs in benign.items() if any(MARK in a for e in evs for a in e.get("a") or [])}

    # ---------------------------------------------------------------- 4. jobs for the trace spec
    # The reference of a recorded statement is the statement the benign call of the same site sent that
    # shares the longest prefix with it (same position preferred): calls may send their statements in a
    # scheduling-dependent order (psql.BuildSchema) and a rejected input sends fewer of them.
    def lcp(a, b):
        n = 0
        for x, y in zip(a, b):
            if x != y:
                break
            n += 1
        return n

    def pick(text, k, bts):
        if k < len(bts) and bts[k] == text:
            return k
        if len(bts) == 1:
            return 0
        best, bj = None, 0
        for j, bt in enumerate(bts):
            sc = (lcp(text, bt), j == k, lcp(text[::-1], bt[::-1]))
            if best is None or sc > best:
                best, bj = sc, j
        return bj

    groups = {}        # (site key, benign statement index) -> {class codes: [example text, [case numbers]]}
    total_stmts = 0
    answered = 0
    unreferenced = {}
    for i, d in records():
        answered += 1
        for key, evs in d.items():
            bts = btexts.get(key)
            for k, ev in enumerate(evs):
                total_stmts += 1
                q = ev["q"]
                if corrupt[0] and i > 0 and key == ("psql.AddVertex", "id") and k == 1:
                    # self-test of the binding: alter one recorded statement (a bound parameter becomes pasted text)
                    q = q.replace("$1", "'a' OR 1=1")
                    corrupt[0] = False
                if not bts:
                    unreferenced.setdefault(key, []).append((cases[i]["s"], q))
                    continue
                e = groups.setdefault((key, pick(q, k, bts)), {}).setdefault(classes(q), [q, []])
                e[1].append(i)
    if answered != len(cases):
        raise Inconclusive("sqlrec answered %d of %d requests" % (answered, len(cases)))
    jobs, meta = [], []
    CH = 250
    for (key, r), g in sorted(groups.items()):
        btxt = btexts[key][r]
        ref = classes(btxt)
        holes, p = [], btxt.find(MARK)
        while p >= 0:
            holes.append(p + 1)
            p = btxt.find(MARK, p + 1)
        seqs = sorted(q for q in g if q != ref)
        for off in range(0, max(len(seqs), 1), CH):
            part = seqs[off:off + CH]
            n = common_prefix(part + [ref])
            jobs.append(dict(id=len(jobs), pre=names(ref[:n]), ref=names(ref[n:]), holes=holes,
                             cases=[dict(i=x, r=names(q[n:])) for x, q in enumerate(part)]))
            meta.append(dict(key=key, r=r, part=part, benign=btxt, group=g))
    ndistinct = sum(len(g) for g in groups.values())
    ctx.log("%d recorded statements at %d call sites -> %d distinct class sequences in %d jobs" % (
        total_stmts, len({k for k, _ in groups}), ndistinct, len(jobs)))
    text = "\n".join(json.dumps(jb, separators=(",", ":")) for jb in jobs) + "\n"
    tres = ctx.tlc("sqllex", "SqlLexTrace", "SqlLexTrace.cfg", workers=8, timeout=1500, files={"jobs.ndjson": text},
                   label="recorded statements lexed and compared with the benign statement of the call site", count=False)
    del text
    verdicts = {v["id"]: v for v in tres.msgs.get("job", [])}
    if len(verdicts) != len(jobs):
        raise Inconclusive("SqlLexTrace answered %d of %d jobs" % (len(verdicts), len(jobs)))

    # ---------------------------------------------------------------- 5. verdicts
    nontrivial = 0
    site_ctx = {}
    observed = {}     # (key, r) -> class strings (canonical concretisation) that changed the shape
    occ = {}
    for jb, m in zip(jobs, meta):
        v = verdicts[jb["id"]]
        key, r = m["key"], m["r"]
        if v["n"] != len(m["part"]):
            raise Inconclusive("SqlLexTrace saw %d cases of job %d, %d were sent" % (v["n"], jb["id"], len(m["part"])))
        if v["ctx"]:
            cx = "interpolated-" + "+".join(sorted(v["ctx"]))
            nontrivial += len(m["part"])
        else:
            cx = "bound" if key in bound_sites else "no-client-text"
        site_ctx.setdefault((base(key[0]), base(key[1])), set()).add(cx)
        bad = set(v["bad"])
        for x, q in enumerate(m["part"]):
            if x not in bad:
                continue
            sig_cx = cx if cx.startswith("interpolated") else "statement-changed"
            sig = "sql %s %s %s" % (base(key[0]), base(key[1]), sig_cx)
            example, cis = m["group"][q]
            what = "%s: the %s supplied by the client changes the token structure of the statement sent to the database (%s)" % (
                base(key[0]), base(key[1]), sig_cx)
            o = occ.setdefault(sig, dict(n=0, full=[], what=what))
            o["n"] += len(cis)
            if len(o["full"]) < 4:
                c = cases[cis[0]]            # the example text is the statement recorded for the first case of the list
                o["full"].append(dict(site=key[0], param=key[1], client_string=c["s"],
                                      classes=list(c["cls"]) if c["cls"] is not None else names(classes(c["s"])),
                                      statement=example, benign_statement=m["benign"], benign_shape=v["shape"]))
            for ci in cis:
                c = cases[ci]
                if c["variant"] == 0 and c["cls"] is not None:
                    observed.setdefault((key, r), set()).add(c["cls"])
    for sig, o in sorted(occ.items()):
        for rp in o["full"]:
            ctx.diverge(sig, o["what"], rp)
        ctx.divergences.extend(dict(signature=sig, what=o["what"], replay=None) for _ in range(o["n"] - len(o["full"])))
    if unreferenced:
        ctx.notes.append("statements without a reference (the benign call of the site sent nothing; not judged): " + "; ".join(
            "%s(%s) x%d e.g. %r -> %r" % (k[0], k[1], len(v), v[0][0], v[0][1][:120]) for k, v in sorted(unreferenced.items())))
    nsites = nsites[0]

    # model prediction vs observation (information only: MODEL-DRIFT never fails the check)
    shapes = ["quoted_eq", "quoted_list", "unquoted_eq", "unquoted_list", "unquoted_table", "unquoted_name"]
    canon = {c["cls"] for c in cases if c["variant"] == 0 and c["cls"] is not None}
    predicted = {sh: {k for k in canon if sh in pred[k]} for sh in shapes}
    explained, drift = {}, []
    for (key, r), obs in sorted(observed.items()):
        hit = [sh for sh in shapes if predicted[sh] == obs]
        name = "%s(%s)[%d]" % (key[0], key[1], r)
        if hit:
            explained[name] = hit[0]
        else:
            drift.append(name)
    if drift:
        ctx.notes.append("MODEL-DRIFT (information): the set of breaking strings observed at %d statement sites equals none of the "
                         "model's driver shapes (input validation or several holes): %s" % (len(drift), ", ".join(drift[:12])))
    if panics:
        ctx.notes.append("entry points that panicked in the calling goroutine (not a C20 matter, statements sent before the panic "
                         "were still validated): " + "; ".join("%s(%s): %s" % (a, b, p) for (a, b), p in sorted(panics.items())))
    clean = sorted("%s %s" % k for k, cx in site_ctx.items() if not any(x.startswith("interpolated") for x in cx))
    dirty = sorted("%s %s [%s]" % (k[0], k[1], ",".join(sorted(cx))) for k, cx in site_ctx.items() if any(x.startswith("interpolated") for x in cx))
    ctx.sample(dict(sites_sending_client_text_only_as_bound_argument_or_not_at_all=clean))
    ctx.sample(dict(sites_interpolating_client_text=dirty))
    ctx.sample(dict(sites_explained_by_model_shape=explained))
    ctx.cov.update(
        evaluations=total_stmts,
        distinct_nontrivial=nontrivial,
        distinct_statement_class_sequences=ndistinct,
        traces_validated_against_impl=total_stmts,
        exhaustive=True,
        call_sites=nsites,
        call_sites_sending_statements=len(site_ctx),
        client_strings=len(cases) - 1,
        model_strings=len(pred),
        rule="model: all %d class strings of length <= %d (16 classes) on 9 template shapes; code: every class string of length <= %d "
             "and a seeded sample of %d of length %d, each in up to %d concretisations, plus %d hand-written payloads, at each of %d "
             "calls (entry point x argument x load flag) of psql and existing-sql; every recorded statement text lexed by TLC "
             "(SqlLexTrace) and compared with the benign statement of the same call and position; non-trivial = distinct "
             "statement class sequences whose text contains the client string" % (
                 len(pred), maxlen, full_len, min(sample_n, len(nxt)), full_len + 1, len(VARIANTS), len(EXTRAS), nsites))
    ctx.assumptions += [
        "lexer dialect: standard SQL / PostgreSQL with standard_conforming_strings=on (backslash is an ordinary character inside '...'); "
        "the backslash-escape dialect is a constant of SqlLexer.tla (model checked, not used for verdicts)",
        "not modelled: dollar-quoted strings, E''/U&'' prefixes, nested block comments, multi-character operators, numeric literals "
        "with fraction/exponent, the NUL character; none of them occurs in the statements the drivers emit, and in an unquoted hole "
        "every string that is not a single word already changes the shape",
        "the database is a recording stub: result sets are empty except the graphs-catalogue row (fixed benign table names, as "
        "AddGraph would have stored for a validated name) and, for schema sampling, the label list containing the client string",
        "adjacency/lookup channels are called with one id per call (batch composition depends on a 1 microsecond timer) and a "
        "two-element label list; statements a call would send after a database error are not reached",
        "each recorded statement is compared with the benign statement of the same call that shares the longest prefix with it; a "
        "call that sends fewer statements than the benign call (input rejected) is accepted; statements of calls whose benign "
        "counterpart sends nothing have no reference and are listed in the notes, not judged",
        "the existing-sql schema (table and column names, labels) is operator configuration, not client input",
    ]
