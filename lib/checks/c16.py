"""C16 - accepted identifiers and values are stored verbatim or rejected (spec/keyenc).

KeyEnc.tla (implementation-shaped): graph names, ids, labels as strings over the byte classes
{0x00 separator, a, b, '.', '|', 0x01, 0xff} plus the words the code uses internally; the composite keys
of kvgraph/kvindex are Join over the separator, the parse functions are Split.  Over all ACCEPTED tuples
(validation transcribed from gripql/util.go) TLC evaluates RoundTrip, Injective, PrefixFree,
NoDocCollision and prints every failure as a witness - a PREDICTION.  ValueShapes.tla enumerates the JSON
shapes of property values.

Binding: every witness class is concretised (class SEP -> byte 0, seeded fillers, unicode, control bytes)
into a history of write calls, next to an accepted-identifier grid that is replayed whatever TLC finds
(names / ids / labels / property names that are prefixes of one another, contain the separator, equal the
reserved words, are not valid UTF-8, ...) and the value shapes.  harness/keyenc executes the histories on
the real kvgraph (Badger) through the gdbi API and reads back everything (graph list, listings, lookups,
adjacency, label listings, label scan, V().hasLabel(), V(id).render()).  The recorded calls WITH their
results and the observations are then validated by TLC against the abstract graph store
(KeyEncTrace.tla: an accepted call has its GraphStore effect, a refused call has none).  Verdicts come
only from that validation of real executions."""
import json, os, hashlib, collections, shutil, tempfile
from concurrent.futures import ThreadPoolExecutor
from vlib import Inconclusive

# ---------------------------------------------------------------------------- concretisation
WORDS = {"label": b"label", "v": b"v", "e": b"e", "__schema__": b"__schema__", "__mapping__": b"__mapping__"}
FILL_A = [b"a", b"A", "é".encode(), "汉".encode(), b"\x07", b"a0"]
FILL_B = [b"b", b"B", "ü".encode(), "字".encode(), b"\x1b", b"b1"]


def conc(sym, fa=b"a", fb=b"b"):
    """a symbol sequence of KeyEnc.tla -> bytes"""
    out = b""
    for s in sym or []:
        out += {"SEP": b"\x00", "a": fa, "b": fb, "DOT": b".", "BAR": b"|", "E1": b"\x01", "FF": b"\xff"}.get(s) or WORDS[s]
    return out


def feature(x):
    if b"\x00" in x:
        return "sep"
    try:
        x.decode("utf-8")
    except UnicodeDecodeError:
        return "invalid-utf8"
    if x == b"":
        return "empty"
    if x in (b"label", b"v", b"e"):
        return "word-" + x.decode()
    if x.endswith(b"__schema__") or x.endswith(b"__mapping__"):
        return "meta-suffix"
    return "plain"


NUM = {"0": 0.0, "1": 1.0, "-1": -1.0, "0.5": 0.5, "-2.5": -2.5, "2^31": 2.0 ** 31, "2^31-1": 2.0 ** 31 - 1, "-2^31": -2.0 ** 31,
       "2^53-1": 2.0 ** 53 - 1, "2^53": 2.0 ** 53, "2^53+2": 2.0 ** 53 + 2, "2^63": 2.0 ** 63, "-2^63": -2.0 ** 63, "1e21": 1e21,
       "1e308": 1e308, "-1e308": -1e308, "5e-324": 5e-324, "1.7976931348623157e308": 1.7976931348623157e308}
STR = {"empty": b"", "a": b"a", "sep": b"a\x00b", "unicode": "héllo 汉字 \U0001F600".encode(), "long": b"x" * 5000, "numlike": b"1e5", "ctrl": b"\x01\x02\t\n"}
KEY = {"k": b"k", "j": b"j", "dot": b"a.b", "emptykey": b"", "underscore": b"_gid", "sepkey": b"a\x00b"}


def conc_value(v):
    """a ValueShapes.tla value -> tagged value with bytes for strings and keys"""
    t = v[0]
    if t == "num":
        return ["n", NUM[v[1]]]
    if t == "s":
        return ["s", STR[v[1]]]
    if t == "l":
        return ["l", [conc_value(x) for x in v[1]]]
    if t == "m":
        return ["m", {KEY[k]: conc_value(x) for k, x in (v[1].items() if isinstance(v[1], dict) else [])}]
    return v


def hexify(v):
    t = v[0]
    if t == "s":
        return ["s", v[1].hex()]
    if t == "l":
        return ["l", [hexify(x) for x in v[1]]]
    if t == "m":
        return ["m", {k.hex(): hexify(x) for k, x in v[1].items()}]
    return v


def canon(v):
    """canonical text of a hex-level tagged value (as sent, or as read back)"""
    t = v[0]
    if t == "n":
        return ["n", repr(float(v[1]))]
    if t == "l":
        return ["l", [canon(x) for x in v[1]]]
    if t == "m":
        m = v[1] if isinstance(v[1], dict) else {}
        return ["m", sorted([k, canon(x)] for k, x in m.items())]
    return list(v)


def vtok(v):
    return "u" + hashlib.sha1(json.dumps(canon(v), sort_keys=True).encode()).hexdigest()[:16]


def tok(b):
    return "x" + (b.hex() if isinstance(b, (bytes, bytearray)) else b)


# ---------------------------------------------------------------------------- histories
BG = b"zbg"
ACC = b"zacc"
D1 = {b"x": ["n", 1.0]}
D2 = {b"x": ["n", 2.0]}


class Hist:
    def __init__(self, role, feat, why):
        self.role, self.feat, self.why = role, feat, why
        self.calls, self.graphs, self.vids, self.eids, self.labels, self.render = [], [], [], [], [], []
        self.add_graph(BG)
        self.vertex(BG, b"zp1", b"P", D1)
        self.vertex(BG, b"zp2", b"P", {})
        self.edge(BG, b"zpe", b"PK", b"zp1", b"zp2", {})

    def _note(self, lst, x):
        if x not in lst:
            lst.append(x)

    def add_graph(self, g, bystanders=False):
        first = g not in self.graphs
        self._note(self.graphs, g)
        if first:
            self.calls.append(dict(op="AddGraph", g=g))
            if bystanders:
                self.vertex(g, b"zq1", b"Q", D1)
                self.vertex(g, b"zq2", b"Q", {})
                self.edge(g, b"zqe", b"QK", b"zq1", b"zq2", {})

    def vertex(self, g, id, label, data, op="AddVertex"):
        self.calls.append(dict(op=op, g=g, id=id, label=label, data=data))
        self._note(self.vids, id)
        self._note(self.labels, label)

    def edge(self, g, id, label, f, t, data, op="AddEdge"):
        self.calls.append(dict(op=op, g=g, id=id, label=label, **{"from": f, "to": t}, data=data))
        self._note(self.eids, id)
        self._note(self.labels, label)
        self._note(self.vids, f)
        self._note(self.vids, t)

    def probe(self, vid=None, eid=None, label=None, graph=None):
        """look something up that the history did not write into the graph under test.  Lookups are only
        judged for identifiers a write call accepts: the identifier is therefore also written, as another
        element, into the separate graph ACC, and trace_line drops the probes whose write was refused."""
        if graph is not None:
            self._note(self.graphs, graph)
            return
        if ACC not in self.graphs:
            self.add_graph(ACC)
        n = len(self.calls)
        if vid is not None:
            self.vertex(ACC, vid, b"ACC", {})
        if eid is not None:
            self.edge(ACC, eid, b"ACCK", b"zp1", b"zp2", {})
        if label is not None:
            self.vertex(ACC, b"zacc%d" % n, label, {})

    def request(self, i):
        def call(c):
            o = dict(op=c["op"], g=c["g"].hex())
            for k in ("id", "label", "from", "to"):
                if k in c:
                    o[k] = c[k].hex()
            if "data" in c:
                o["data"] = {k.hex(): hexify(v) for k, v in c["data"].items()}
            return o
        return dict(i=i, calls=[call(c) for c in self.calls], graphs=[g.hex() for g in self.graphs], vids=[x.hex() for x in self.vids],
                    eids=[x.hex() for x in self.eids], labels=[x.hex() for x in self.labels],
                    render=[[g.hex(), i_.hex(), n.hex()] for g, i_, n in self.render])

    def describe(self):
        def s(b):
            return b.decode("utf-8", "backslashreplace").replace("\x00", "\\x00") if len(b) < 60 else "(%d bytes)" % len(b)
        out = []
        for c in self.calls:
            if c["g"] == BG or c.get("id", b"").startswith(b"zq"):
                continue
            out.append(" ".join([c["op"], "g=" + repr(s(c["g"]))] + ["%s=%r" % (k, s(c[k])) for k in ("id", "label", "from", "to") if k in c]))
        return out


def witness_histories(ctx, ws, per_class):
    """concretise the TLC witnesses: the minimal one of every class plus a seeded sample"""
    classes = collections.defaultdict(list)
    for w in ws:
        seps = tuple(sorted(f for f, v in w["t"].items() if isinstance(v, list) and "SEP" in v))
        classes[(w["family"], w["prop"], w["what"], seps)].append(w)
    hs = []
    for key in sorted(classes):
        lst = sorted(classes[key], key=lambda w: (sum(len(v) for v in w["t"].values() if isinstance(v, list)), json.dumps(w, sort_keys=True)))
        pick = lst[:1] + (ctx.rng.sample(lst[1:], min(per_class - 1, len(lst) - 1)) if len(lst) > 1 else [])
        for n, w in enumerate(pick):
            fa, fb = (b"a", b"b") if n == 0 else (ctx.rng.choice(FILL_A), ctx.rng.choice(FILL_B))
            h = build_witness(w, fa, fb)
            if h is not None:
                hs.append(h)
    return hs, len(classes)


def build_witness(w, fa, fb):
    fam, t, o = w["family"], w["t"], w["other"] if isinstance(w["other"], dict) else {}
    c = lambda s: conc(s, fa, fb)
    seps = [f for f, v in t.items() if isinstance(v, list) and "SEP" in v]
    role = {"vertex": "vertex", "edge": "edge", "label": "label", "graph": "graph-name"}[fam] + ("(" + ",".join(sorted(seps)) + ")" if seps else "")
    feat = "sep" if seps or any(isinstance(v, list) and "SEP" in v for v in o.values()) else ("word-label" if t.get("l") == ["label"] else "plain")
    h = Hist(role, feat, "%s: %s" % (w["prop"], w["what"]))
    if fam == "graph":
        g = c(t["g"])
        h.add_graph(g, bystanders=True)
        h.vertex(g, b"w1", b"L1", D1)
        if "g" in o:
            h.probe(graph=c(o["g"]))
        return h
    g = c(t["g"])
    h.add_graph(g, bystanders=True)
    og = c(o["g"]) if "g" in o and "panic" not in o else None
    if og is not None and w["prop"] != "RoundTrip":
        h.add_graph(og, bystanders=True)
    elif og is not None:
        h.probe(graph=og)
    if fam == "vertex":
        h.vertex(g, c(t["id"]), b"L1", D1)
        if w["prop"] == "Injective":
            h.vertex(og, c(o["id"]), b"L2", D2)
        elif "id" in o:
            h.probe(vid=c(o["id"]))
    elif fam == "edge":
        s, d = c(t["s"]), c(t["d"])
        h.vertex(g, s, b"L1", D1)
        if d != s:
            h.vertex(g, d, b"L1", D2)
        h.edge(g, c(t["id"]), c(t["l"]), s, d, D1)
        if w["prop"] == "Injective":
            h.edge(og, c(o["id"]), c(o["l"]), c(o["s"]), c(o["d"]), D2)
        else:
            for k in ("id",):
                if k in o:
                    h.probe(eid=c(o[k]))
            for k in ("v", "s", "d"):
                if k in o:
                    h.probe(vid=c(o[k]))
    elif fam == "label":
        l, id = c(t["l"]), c(t["id"])
        if "doc" in o:
            # the index document id is the bare element id: same id as vertex in two graphs and as edge
            g2 = b"zother"
            h.add_graph(g2, bystanders=True)
            h.vertex(g, id, b"L1", D1)
            h.vertex(g2, id, b"L2", D2)
            h.edge(g, id, b"K1", b"zq1", b"zq2", D1)
            h.calls.append(dict(op="DelVertex", g=g2, id=id))
            return h
        if t["kind"] == "v":
            h.vertex(g, id, l, D1)
        else:
            h.edge(g, id, l, b"zq1", b"zq2", D1)
        if w["prop"] == "Injective" and "l" in o and "id" in o:
            if t["kind"] == "v":
                h.vertex(g, c(o["id"]), c(o["l"]), D2)
            else:
                h.edge(g, c(o["id"]), c(o["l"]), b"zq2", b"zq1", D2)
        else:
            if "l" in o:
                h.probe(label=c(o["l"]))
            if "term" in o:
                h.probe(label=c(o["term"]))
            if "doc" in o and isinstance(o.get("doc"), list) and t["kind"] == "v":
                pass
    return h


GRID = [b"a", b"ab", b"abc", b"a\x00", b"a\x00b", b"\x00", b"\x00a", b"label", b"v", b"e", b"__schema__", b"a__schema__", b"a__mapping__",
        b"a.b", b"a|b", b"a b", "é".encode(), "汉字".encode(), b"\x07", b"\xff", b"a\xff", b"_gid", b"-x", b"_x",
        b"y" * 300, b"a/b", b"A", b"a\x01", b"", b"%", b"a\x00\x00", b"e\x00a", b"v\x00a"]
ROLES = ["graph-name", "vertex-id", "vertex-label", "edge-id", "edge-label", "edge-endpoint", "property-name"]


def grid_history(role, xs):
    feats = sorted({feature(x) for x in xs} - {"plain"})
    pair = len(xs) == 2 and (xs[0].startswith(xs[1]) or xs[1].startswith(xs[0]))
    h = Hist(role, "+".join(feats) or ("prefix-pair" if pair else "plain"), "grid")
    g = b"gr"
    if role != "graph-name":
        h.add_graph(g, bystanders=True)
    for n, x in enumerate(xs):
        d = {b"x": ["n", float(n + 1)]}
        if role == "graph-name":
            h.add_graph(x, bystanders=False)
            h.vertex(x, b"w%d" % n, b"L1", d)
            h.edge(x, b"we%d" % n, b"K1", b"w%d" % n, b"w%d" % n, d)
        elif role == "vertex-id":
            h.vertex(g, x, b"L%d" % (n + 1), d)
            h.edge(g, b"ge%d" % n, b"K1", x, b"zq1", d)
        elif role == "vertex-label":
            h.vertex(g, b"gv%d" % n, x, d)
        elif role == "edge-id":
            h.edge(g, x, b"K%d" % (n + 1), b"zq1", b"zq2", d)
        elif role == "edge-label":
            h.edge(g, b"ge%d" % n, x, b"zq1", b"zq2", d)
        elif role == "edge-endpoint":
            h.vertex(g, x, b"L1", d)
            h.edge(g, b"ge%d" % n, b"K1", x, b"zq1", d)
            h.edge(g, b"gf%d" % n, b"K1", b"zq2", x, d)
        elif role == "property-name":
            h.vertex(g, b"gv%d" % n, b"L1", {x: ["s", b"val%d" % n]})
            h.edge(g, b"ge%d" % n, b"K1", b"zq1", b"zq2", {x: ["n", float(n)]})
            if all(ch not in x for ch in b".$[]*\x00'\" ") and x:
                h.render.append((g, b"gv%d" % n, x))
    return h


def grid_histories(ctx, pairs_per_role):
    hs = []
    for role in ROLES:
        for x in GRID:
            hs.append(grid_history(role, [x]))
        pairs = [(x, y) for x in GRID for y in GRID if x != y]
        related = [(x, y) for x, y in pairs if x.startswith(y) or y.startswith(x)]
        rest = [p for p in pairs if p not in related]
        pick = related + (ctx.rng.sample(rest, min(pairs_per_role, len(rest))) if pairs_per_role < len(rest) else rest)
        for x, y in pick:
            hs.append(grid_history(role, [x, y]))
    return hs


def value_histories(vals):
    hs = []
    for n in range(0, len(vals), 8):
        h = Hist("property-value", "shape", "value shapes")
        g = b"vg"
        h.add_graph(g, bystanders=True)
        for m, v in enumerate(vals[n:n + 8]):
            cv = conc_value(v)
            h.vertex(g, b"val%d" % m, b"L1", {b"p": cv, b"q": ["n", 1.0]})
            h.edge(g, b"vale%d" % m, b"K1", b"zq1", b"zq2", {b"p": cv})
            h.render.append((g, b"val%d" % m, b"p"))
        h.values = vals[n:n + 8]
        hs.append(h)
    return hs


# ---------------------------------------------------------------------------- traces for TLC
def trace_line(i, h, o):
    # identifiers that some write call of the history accepted (in any role): only these are looked up
    okstr = set()
    for c, r in zip(h.calls, o["results"]):
        if r["res"] == "ok":
            okstr.update(c[k] for k in ("id", "label", "from", "to") if k in c)

    def tl(lst):
        return [tok(x) for x in lst if x in okstr]
    okhex = {x.hex() for x in okstr}
    calls = []
    for c, r in zip(h.calls, o["results"]):
        t = dict(op=c["op"], g=tok(c["g"]), res=("ok" if r["res"] == "ok" else "error"))
        for k in ("id", "label", "from", "to"):
            if k in c:
                t[k] = tok(c[k])
        if "data" in c:
            hexd = {k.hex(): hexify(v) for k, v in c["data"].items()}
            t["data"] = vtok(["m", hexd])
            t["props"] = {tok(k): vtok(v) for k, v in hexd.items()}
        else:
            t["data"], t["props"] = "-", {}
        if c["op"] not in ("AddVertex", "AddEdge"):
            t.setdefault("id", "-")
        calls.append(t)

    def rows(lst, datapos=(), probed=False):
        out = []
        for r in lst or []:
            if probed and r and r[0] not in okhex:
                continue
            row = []
            for n, x in enumerate(r):
                if n in datapos or isinstance(x, list):
                    row.append(vtok(x) if isinstance(x, list) else str(x))
                elif x in ("nil", "err"):
                    row.append(x)
                else:
                    row.append(tok(x) if all(ch in "0123456789abcdef" for ch in x) and len(x) % 2 == 0 else "msg")
            out.append(row)
        return out
    graphs = []
    for og in o["graphs"]:
        e = dict(g=tok(og["g"]), exists=bool(og.get("exists")), obs={})
        if "panic" in og:
            e["exists"], e["obs"] = True, dict(panic=og["panic"])
        ob = og.get("obs")
        if ob:
            if "panic" in ob:
                e["obs"] = dict(panic=ob["panic"])
            else:
                e["obs"] = dict(V=rows(ob["V"]), E=rows(ob["E"]), getV=rows(ob["getV"], probed=True), getE=rows(ob["getE"], probed=True),
                                vlabels=[tok(x) for x in ob["vlabels"]], elabels=[tok(x) for x in ob["elabels"]],
                                byLabel=rows(ob["byLabel"], probed=True), hasLabel=rows(ob["hasLabel"], probed=True),
                                outE=rows(ob["outE"], probed=True), inE=rows(ob["inE"], probed=True),
                                nout=rows(ob["out"], probed=True), nin=rows(ob["in"], probed=True), render=rows(ob["render"]))
        graphs.append(e)
    return dict(i=i, calls=calls, vids=tl(h.vids), eids=tl(h.eids), labels=tl(h.labels),
                render=[[tok(i_), tok(n)] for g, i_, n in h.render],
                obs=dict(listed=[tok(x) for x in o["listed"]], graphs=graphs))


def coarse(aspects):
    a = [x.split(":", 1)[-1] for x in aspects]
    if any("panic" in x for x in a):
        return "panic while reading back"
    if any(x.endswith("-extra") or x in ("graph-exists-unexpectedly", "graph-list-extra", "out-neighbours", "in-neighbours") for x in a):
        return "other or phantom elements appear / elements change"
    if any("duplicates" in x for x in a):
        return "listed twice"
    if any("accepted for a graph" in x for x in a):
        return "write accepted for a graph that does not exist"
    return "accepted but not readable back"


SEP_SIG = "keyenc identifiers containing the separator byte 0x00 are accepted (aliased, truncated or unreadable keys)"


def run(ctx):
    quick = ctx.tier == "quick"
    tier = "quick" if quick else "thorough"
    # ---------------------------------------------------------------- 1. TLC: key model and value shapes
    jobs = {f: dict(module="KeyEnc", cfg="KeyEnc_%s_%s.cfg" % (f, tier)) for f in ("graph", "vertex", "edge", "label")}
    jobs["inv"] = dict(module="KeyEnc", cfg="KeyEnc_inv.cfg", expect_violation=True)
    jobs["values"] = dict(module="ValueShapes", cfg="ValueShapes.cfg")

    def one(name):
        kw = dict(jobs[name])
        return name, ctx.tlc("keyenc", kw.pop("module"), kw.pop("cfg"), timeout=1500, workers=8, label=name, **kw)
    res = {}
    with ThreadPoolExecutor(max_workers=3) as ex:
        for f in [ex.submit(one, n) for n in jobs]:
            n, r = f.result()
            res[n] = r
    witnesses = [w for f in ("graph", "vertex", "edge", "label") for w in res[f].msgs.get("w", [])]
    vals = res["values"].msgs.get("val", [])
    if not vals:
        raise Inconclusive("ValueShapes printed nothing")
    by_prop = collections.Counter((w["family"], w["prop"]) for w in witnesses)
    ctx.log("witnesses: %s; model invariant violated as predicted: %s" % (dict(by_prop), res["inv"].violation))

    # ---------------------------------------------------------------- 2. histories
    whs, nclasses = witness_histories(ctx, witnesses, 3 if quick else 10)
    ghs = grid_histories(ctx, 25 if quick else 400)
    vhs = value_histories(vals)
    hs = whs + ghs + vhs
    thin = int(os.environ.get("VERIF_C16_THIN", "1") or 1)
    if thin > 1:
        hs = hs[::thin]
    ctx.log("histories: %d from %d witness classes, %d grid, %d value" % (len(whs), nclasses, len(ghs), len(vhs)))
    lines = [h.request(i) for i, h in enumerate(hs)]
    inp = ctx.write_ndjson("keyenc_in.ndjson", lines)
    outp = os.path.join(ctx.scratch, "keyenc_out.ndjson")
    shm = None
    if os.path.isdir("/dev/shm") and os.access("/dev/shm", os.W_OK):
        shm = tempfile.mkdtemp(prefix="verif_C16_", dir="/dev/shm")
    try:
        ctx.harness(["keyenc", "-j", "12", "-timeout", "120s"], input_path=inp, output_path=outp, timeout=3000, env=(dict(TMPDIR=shm) if shm else None))
    finally:
        if shm:
            shutil.rmtree(shm, ignore_errors=True)
    outs = {o["i"]: o for o in ctx.read_ndjson(outp) if "i" in o}
    if len(outs) != len(hs):
        raise Inconclusive("keyenc harness answered %d of %d histories" % (len(outs), len(hs)))

    # ---------------------------------------------------------------- 3. crashes, then trace validation by TLC
    def sig(h, what):
        # one signature per root cause where the cause is known from the construction of the history
        if "sep" in h.feat.split("+"):
            return SEP_SIG
        if "invalid-utf8" in h.feat.split("+"):
            return "keyenc identifiers that are not valid UTF-8 are accepted but not stored"
        return "keyenc %s[%s]: %s" % (h.role.split("(")[0], h.feat, what)
    traces = []
    accepted = refused = 0
    for i, h in enumerate(hs):
        o = outs[i]
        if "harness_err" in o:
            raise Inconclusive("keyenc harness: %s" % o["harness_err"])
        if o.get("died"):
            raise Inconclusive("a keyenc worker died without a Go panic")
        bad = next((b for b in ("crash", "hang") if o.get(b)), None)
        if bad:
            # the key parsers index out of range only when a component contains the separator byte
            parse_crash = "KeyParse" in o[bad]
            ctx.diverge(SEP_SIG if parse_crash else sig(h, "%s %s" % (bad, o[bad])), "reading back after accepted writes made the store %s" % bad,
                        dict(why=h.why, calls=h.describe(), site=o[bad], trace=(o.get("trace") or "")[:3000]))
            continue
        for c, r in zip(h.calls, o["results"]):
            if r["res"] == "panic":
                ctx.diverge(sig(h, "panic in %s: %s" % (c["op"], r["msg"][:80])), "a write call panicked", dict(why=h.why, calls=h.describe()))
            accepted += r["res"] == "ok"
            refused += r["res"] == "error"
        traces.append((i, trace_line(i, h, o)))
    if os.environ.get("VERIF_C16_CORRUPT"):
        # self-test of the binding: falsify one recorded result (an accepted AddVertex recorded as refused);
        # the trace validation must then reject that history
        for _, t in traces:
            c = next((c for c in t["calls"] if c["op"] == "AddVertex" and c["res"] == "ok" and c["g"] != tok(BG)), None)
            if c is not None:
                c["res"] = "error"
                break
    chunks = [traces[n:n + 300] for n in range(0, len(traces), 300)]

    def validate(chunk):
        text = "".join(json.dumps(t, separators=(",", ":")) + "\n" for _, t in chunk)
        r = ctx.tlc("keyenc", "KeyEncTrace", "KeyEncTrace.cfg", files={"traces.ndjson": text}, workers=4, timeout=1500, label="trace-validation", count=False)
        return r.msgs.get("verdict", [])
    verdicts = {}
    with ThreadPoolExecutor(max_workers=3) as ex:
        for vs in ex.map(validate, chunks):
            for v in vs:
                verdicts[v["i"]] = v["aspects"]
    if len(verdicts) != len(traces):
        raise Inconclusive("TLC validated %d of %d traces" % (len(verdicts), len(traces)))
    ndiv = 0
    for i, _ in traces:
        asp = verdicts[i]
        if not asp:
            continue
        ndiv += 1
        h = hs[i]
        o = outs[i]
        ctx.diverge(sig(h, coarse(asp)), "after the accepted writes the store does not read back as the abstract graph store",
                    dict(why=h.why, calls=h.describe(), results=[r["res"] for c, r in zip(h.calls, o["results"]) if c["g"] != BG and not c.get("id", b"").startswith(b"zq")],
                         aspects=sorted(asp)[:12], values=getattr(h, "values", None)))
    for h in (whs[:1] + ghs[5:6] + vhs[:1]):
        ctx.sample(dict(role=h.role, feature=h.feat, why=h.why, calls=h.describe()[:6]))
    ctx.cov.update(evaluations=len(traces), distinct_nontrivial=len(traces) - ndiv, traces_validated_against_impl=len(traces),
                   witness_classes=nclasses, witnesses=len(witnesses), witness_histories=len(whs), grid_histories=len(ghs), value_shapes=len(vals),
                   write_calls_accepted=accepted, write_calls_refused=refused, exhaustive=False,
                   model=dict(witnesses_by_property={"%s/%s" % k: v for k, v in by_prop.items()}, invariant_violated_on_model=res["inv"].violation),
                   rule="histories = concretised witness classes of KeyEnc.tla (minimal + seeded sample per class), the accepted-identifier grid "
                        "(%d strings x 7 roles, singles and pairs incl. all prefix-related pairs) and the %d value shapes of ValueShapes.tla; each is executed "
                        "on kvgraph/Badger and its complete read-back validated by TLC against the abstract graph store (KeyEncTrace.tla); "
                        "non-trivial = histories that validate" % (len(GRID), len(vals)))
    ctx.assumptions += [
        "acceptance is the implementation's choice: the oracle takes the recorded result of every write call (accepted -> GraphStore effect, refused -> no effect)",
        "kvgraph over Badger through the gdbi API (the server adds no validation of its own beyond Vertex/Edge.Validate and ValidateGraphName); user-defined indices (AddIndex) are not part of the identifier space",
        "numbers are float64 (the wire format is protobuf Struct): the boundary table is written and compared as float64, negative zero and NaN/Inf are out of scope; byte-level protobuf fidelity and unicode normalisation are not claimed",
        "the meta-graph meaning the server gives to names ending in __schema__/__mapping__ is not exercised (kvgraph level only)",
        "render() is requested only for property names that are plain jsonpath segments",
        "the words of the alphabet are opaque symbols in KeyEnc.tla (their letters are not related to the classes a/b)",
    ]
