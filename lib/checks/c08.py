"""C08 - has() conditions mean what the documentation says, for every value.

Has.tla (oracle) enumerates the grid operators x element values x arguments and all
and/or/not combinations to the tier's nesting depth; TLC checks the Boolean laws on the
oracle and prints, per expression, the set of documents that must be kept.  Every
expression is replayed on the real code twice: logic.MatchesHasExpression on one traveler
per document, and V().has(expr) through the production compiler/pipeline on a graph with
one vertex per document value (worker processes, so a panic is an observation)."""
import json


def kind(v):
    t = v[0]
    if t == "s" and v[1] in ("-1", "0", "1", "2"):
        return "numtext"
    return {"b": "bool", "n": "num", "s": "str", "l": "list", "m": "map"}.get(t, t)


def ev(e, d, leaf):
    t = e["t"]
    if t == "c":
        return d in leaf[json.dumps(e, sort_keys=True)]
    if t == "not":
        return not ev(e["e"], d, leaf)
    if t == "and":
        return all(ev(x, d, leaf) for x in e["es"])
    return any(ev(x, d, leaf) for x in e["es"])


def run(ctx):
    cfg = "Has_quick.cfg" if ctx.tier == "quick" else "Has_thorough.cfg"
    res = ctx.tlc("has", "Has", cfg, timeout=900)
    docs = res.msgs["docs"][0]
    cases = res.msgs.get("case", [])
    if not cases:
        from vlib import Inconclusive; raise Inconclusive("no cases emitted")
    lines = [dict(setup=True, docs=docs)] + [dict(i=i, e=c["e"]) for i, c in enumerate(cases)]
    inp = ctx.write_ndjson("has_in.ndjson", lines)
    outp = inp.replace("_in", "_out")
    ctx.harness(["has", "-j", "8"], input_path=inp, output_path=outp)
    out = {o["i"]: o for o in ctx.read_ndjson(outp) if "i" in o}
    if len(out) != len(cases):
        from vlib import Inconclusive
        raise Inconclusive("harness answered %d of %d cases" % (len(out), len(cases)))
    ndocs = len(docs)
    # code's own answers for the leaf conditions
    leaf = {}
    for i, c in enumerate(cases):
        if c["e"]["t"] == "c" and "direct" in out[i]:
            leaf[json.dumps(c["e"], sort_keys=True)] = set(out[i]["direct"])
    nontrivial = 0
    for i, c in enumerate(cases):
        o = out[i]
        e = c["e"]
        keep, opn = set(c["keep"]), set(c["open"])
        if 0 < len(keep) < ndocs:
            nontrivial += 1
        if i % 997 == 0:
            ctx.sample(dict(expr=e, keep=sorted(keep), open=sorted(opn), code_direct=o.get("direct"), code_query=o.get("query")))
        for bad in ("crash", "hang", "panic"):
            if bad in o:
                ctx.diverge("has-%s: %s" % (bad, o[bad]), "has() expression made the engine %s" % bad, dict(expr=e, outcome=o))
        if "direct" not in o:
            continue
        d, q = set(o["direct"]), set(o.get("query", []))
        if "query" in o and "query_err" not in o and d != q and "crash" not in o:
            ctx.diverge("has-step: V().has() differs from MatchesHasExpression",
                        "the has step keeps other rows than the expression evaluator", dict(expr=e, direct=sorted(d), query=sorted(q)))
        if e["t"] == "c":
            for doc in range(1, ndocs + 1):
                if doc in opn:
                    continue
                want, got = doc in keep, doc in d
                if want != got:
                    sig = "has-cond: %s val=%s arg=%s got=%s" % (e["op"], kind(docs[doc - 1]), kind(e["arg"]), "match" if got else "nomatch")
                    ctx.diverge(sig, "condition %s on a %s value with a %s argument %s but the documented comparison says the opposite"
                                % (e["op"], kind(docs[doc - 1]), kind(e["arg"]), "matches" if got else "does not match"),
                                dict(expr=e, doc=docs[doc - 1], expected_keep=want, got_keep=got))
        else:
            # Boolean algebra over the code's own leaf answers
            try:
                alg = {doc for doc in range(1, ndocs + 1) if ev(e, doc, leaf)}
            except KeyError:
                alg = None
            if alg is not None and alg != d:
                ctx.diverge("has-boolean: %s is not combined by Boolean algebra" % e["t"],
                            "and/or/not result differs from the Boolean combination of the code's own leaf results",
                            dict(expr=e, algebra=sorted(alg), got=sorted(d)))
            elif alg is None and (keep - opn) != (d - opn):
                ctx.diverge("has-boolean: %s differs from oracle" % e["t"], "composite expression differs from the oracle",
                            dict(expr=e, expected=sorted(keep), got=sorted(d)))
    ctx.cov.update(evaluations=len(cases) * ndocs * 2, distinct_nontrivial=nontrivial,
                   traces_validated_against_impl=len(cases),
                   exhaustive=True,
                   rule="every expression of the Has.tla grid (12 operators x %d arguments, ternary and/or, all and/or/not "
                        "nestings to depth %d over a 6-condition basis) x %d document values, each replayed through "
                        "MatchesHasExpression and through V().has(); non-trivial = kept set neither empty nor all documents"
                        % (25, 1 if ctx.tier == "quick" else 2, ndocs))
    ctx.assumptions += [
        "absent and null element values are not distinguished by the documentation: eq/neq/within/without against a null argument on an absent/null value are left open (no-crash only)",
        "within/without with a non-list argument and contains(null) are left open (no-crash only)",
        "numbers are integers in the model; numeric text is the set {-1,0,1,2} as strings",
    ]
