"""C07 - traversals terminate for any data volume and stop when cancelled.

Three specifications (spec/pipeline):
  PipeNet.tla + Pipeline.tla  implementation-shaped model of the stage network (one process per
        goroutine, one bounded counter per channel).  TLC checks deadlock freedom, Termination,
        CancelStops, Released and the row arithmetic exhaustively for capacities 1-2; with
        BothDrain = "after" (both.Process as written in the pinned tree) it predicts which
        (stage, volume / capacity) classes block.  A model counterexample is only a lead: it aims
        the real runs.
  PipeAbs.tla   property level: the runs (graph family x program) and the number of rows each yields.
  PipelineTrace.tla  the property as an observer of recorded runs (start, first row, cancel, close,
        released) - the verdicts come from here and from the hang rule below, i.e. from the real engine.

Binding: harness/pipeh instantiates every selected behaviour class on the real engine with the real
capacities (kvgraph over Badger, Compile + pipeline.Run) and records the events; a run that does not
close is a divergence only if two different worker processes (the supervisor retries on a fresh one)
reported it parked: after a deadline generous for these workloads the in-process watchdog saw, across
two goroutine dumps, no row delivered and every pipeline goroutine waiting in the same channel
operation.  Anything else that is not answered is inconclusive."""
import json, os, re, threading
from vlib import Inconclusive

REAL = dict(step=5000, query=100, both=1000, agg=1000)
MAXFLOW = 50000
HARD = {"rows-too-many", "rows-too-few", "goroutines-not-released", "temp-not-released", "source-not-stopped"}


# ------------------------------------------------------------------ implementation-shaped model
def model_runs(ctx, out):
    quick = ctx.tier == "quick"
    runs = [("Pipeline_live1.cfg", False), ("Pipeline_safe1.cfg", False), ("Pipeline_red1.cfg", False)]
    if not quick:
        runs += [("Pipeline_live2.cfg", False), ("Pipeline_safe2.cfg", False), ("Pipeline_red2.cfg", False)]
    configs = 0
    for cfg, _ in runs:
        r = ctx.tlc("pipeline", "Pipeline", cfg, workers=8, timeout=1500, label="stage network, concurrent drain: " + cfg)
        configs += len(r.msgs.get("config", []))
    # the pinned both.Process: survey of the stuck states (predictions)
    surveys = [("Pipeline_survey1.cfg", 1)] + ([] if quick else [("Pipeline_survey2.cfg", 2)])
    pred = []
    for cfg, cap in surveys:
        r = ctx.tlc("pipeline", "Pipeline", cfg, workers=8, timeout=1500, label="both drains after the input: survey " + cfg)
        confs = r.msgs.get("config", [])
        configs += len(confs)
        stuck = {}
        for x in r.msgs.get("stuck", []):
            stuck.setdefault((tuple(x["stages"]), x["n"], x["f"], x["k"]), x)
        if not stuck:
            raise Inconclusive("the model of both.Process as written predicts no blocked configuration (%s): model changed?" % cfg)
        for (stages, n, f, k), x in stuck.items():
            if "both" not in stages:
                raise Inconclusive("model predicts a deadlock without a both stage: %s" % (x,))
            # necessary condition used to aim/avoid the real runs: one direction yields more than chanOut holds
            rows, perdir = n, 0
            for kd in stages:
                if kd == "both":
                    perdir = max(perdir, rows * f)
                    rows = 2 * rows * f
                elif kd == "count":
                    rows = 1
                elif kd == "limit":
                    rows = min(rows, 1)
            if not perdir > cap:
                raise Inconclusive("model: stuck although no direction exceeds the both buffer: %s" % (x,))
            senders = sorted(b["role"] for b in x["blocked"] if b["on"].startswith("send"))
            if "both.feeder" not in senders:
                raise Inconclusive("model: stuck state without the both feeder blocked in a send: %s" % (x,))
        # threshold for fan-out 1, single both stage: n > 2*CapBoth + 2*CapQuery + 3 (the in-direction holds fewer)
        thr = 2 * cap + 2 * cap + 3
        ns = sorted(c["n"] for c in confs if c["stages"] == ["both"] and c["f"] == 1 and c["k"] == 99)
        for n in ns:
            if ((("both",), n, 1, 99) in stuck) != (n > thr):
                raise Inconclusive("model: fan-out-1 threshold of the both stage is not 2*CapBoth+2*CapQuery+3 (cap %d, n %d)" % (cap, n))
        minn = {}
        for (stages, n, f, k) in stuck:
            if stages == ("both",) and k == 99:
                minn[f] = min(minn.get(f, 10 ** 9), n)
        pred.append(dict(cap=cap, stuck_configs=len(stuck), explored=len(confs), min_n_by_fanout=minn,
                         blocked=sorted({b["role"] + ":" + b["on"] for b in stuck[min(stuck)]["blocked"]})))
    # TLC's own deadlock verdict on the smallest predicted configuration
    r = ctx.tlc("pipeline", "Pipeline", "Pipeline_dl.cfg", workers=8, timeout=600, expect_violation=True,
                label="both drains after the input: smallest predicted deadlock", count=False)
    if r.violation != "deadlock":
        raise Inconclusive("TLC did not report the predicted deadlock of both.Process as written (got %s)" % r.violation)
    out["pred"] = pred
    out["configs"] = configs
    out["threshold_real_f1"] = 2 * REAL["both"] + 2 * REAL["query"] + 3


# ------------------------------------------------------------------ case selection
def vclass(x):
    for lim, name in ((0, "0"), (1, "1"), (99, "<q"), (100, "q"), (999, "q+"), (1000, "b"), (2203, "b+"), (4999, "b++"), (5000, "s"), (10000, "s+")):
        if x <= lim:
            return name
    return "s++"


def case_key(c):
    return json.dumps([c["g"], c["prog"]], sort_keys=True)


def class_key(c):
    return (tuple(c["kinds"]), tuple(vclass(f) for f in c["flows"]))


def gen_cases(ctx):
    plan = [("PipeAbs_quick.cfg", 600)] if ctx.tier == "quick" else \
           [("PipeAbs_small.cfg", 1500), ("PipeAbs_small_wide.cfg", 900), ("PipeAbs_large.cfg", 1500)]
    seen, cases = set(), []
    for cfg, tmo in plan:
        r = ctx.tlc("pipeline", "PipeAbs", cfg, workers=8, timeout=tmo, label="runs and their row arithmetic: " + cfg)
        for c in r.msgs.get("case", []):
            k = case_key(c)
            if k not in seen:
                seen.add(k)
                cases.append(c)
    if not cases:
        raise Inconclusive("no cases generated")
    # star and bipartite graphs square the volume in two steps (V().both().outE() on star(1000): 10^6 rows); the runs stay
    # within a few multiples of the largest buffer so that a run takes seconds, not minutes
    cases = [c for c in cases if max(c["flows"]) <= MAXFLOW]
    return cases


def cancel_points(hi):
    return sorted({0, 1, hi // 2, hi}) if hi >= 1 else [0]


def select(ctx, cases, budget, ncancel):
    """One representative per behaviour class (stage kinds x volume class of every step), classes that
    touch the large buffers first; deterministic for a seed."""
    rng = ctx.rng
    by = {}
    for c in sorted(cases, key=case_key):
        by.setdefault(class_key(c), []).append(c)
    def prio(k):
        kinds, vcs = k
        big = sum(1 for v in vcs if v in ("b", "b+", "b++", "s", "s+", "s++"))
        edge = sum(1 for v in vcs if v in ("q", "b", "s"))
        return -(2 * big + edge)
    keys = sorted(by, key=lambda k: (prio(k), rng.random()))
    # spread over the last stage kind so that no kind is starved by the budget
    buckets = {}
    for k in keys:
        buckets.setdefault(k[0][-1], []).append(k)
    order = []
    while any(buckets.values()):
        for kd in sorted(buckets):
            if buckets[kd]:
                order.append(buckets[kd].pop(0))
    chosen = []
    for k in order[:budget]:
        chosen.append(rng.choice(by[k]))
    runs = []
    for c in chosen:
        runs.append(dict(case=c, cancel=-1))
        pts = cancel_points(c["hi"])
        for k in rng.sample(pts, min(ncancel(c), len(pts))):
            runs.append(dict(case=c, cancel=k))
    return runs, len(by)


def probe_runs(cases):
    """Runs that ask whether the source scan stops: source of >= 20000 elements, every step before the
    bound yields a row per source element."""
    out = []
    for c in cases:
        if c["src"] < 20000 or c["kinds"][0] == "source.ids":     # a lookup by id is not a scan
            continue
        ops = [s["op"] for s in c["prog"]]
        if c["need"] >= 0 and len(ops) <= 3:
            out.append(dict(case=c, cancel=-1, probe=True))
        if c["mono"] and len(ops) <= 2:
            for k in (0, 1, 150):
                out.append(dict(case=c, cancel=k, probe=True))
    return out


# ------------------------------------------------------------------ real runs
def execute(ctx, runs, tag, watchdog_s, jobs=8, timeout_s=180):
    lines = [dict(setup=True, watchdog_s=watchdog_s, settle_s=10)]
    for i, r in enumerate(runs):
        c = r["case"]
        lines.append(dict(i=i, graph=c["g"], prog=c["prog"], cancel=r["cancel"], probe=bool(r.get("probe"))))
    inp = ctx.write_ndjson("pipeh_%s.in" % tag, lines)
    outp = os.path.join(ctx.scratch, "pipeh_%s.out" % tag)
    ctx.harness(["pipeh", "-j", str(jobs), "-timeout", "%ds" % timeout_s], input_path=inp, output_path=outp,
                timeout=10800)
    res = {}
    for o in ctx.read_ndjson(outp):
        if isinstance(o.get("i"), (int, float)):
            res[int(o["i"])] = o
    if len(res) != len(runs):
        raise Inconclusive("pipeh %s: %d answers for %d runs" % (tag, len(res), len(runs)))
    log = os.path.join(ctx.scratch, "c07stuck.log")
    if os.path.exists(log):
        with open(log, errors="replace") as fh:
            for line in fh:
                m = re.match(r"^(C07STUCK|C07SLOW) (\{.*\})$", line.strip())
                if m:
                    rep = json.loads(m.group(2))
                    if rep.get("i") in res:
                        res[rep["i"]].setdefault("_stuck" if m.group(1) == "C07STUCK" else "_slow", []).append(rep)
        os.rename(log, log + "." + tag)
    return [res[i] for i in range(len(runs))]


PROC_RE = re.compile(r"engine/core\.\(?\*?(\w+)\)?\.Process")


def unanswered(o):
    return any(k in o for k in ("hang", "died"))


def hang_verdict(ctx, run, o):
    """The run was not answered.  A divergence only if two different worker processes reported the
    pipeline parked (watchdog: deadline, two goroutine dumps, no row in between); signature = the most
    downstream stage whose goroutine is blocked in a send."""
    c = run["case"]
    what = "%s %s" % (json.dumps(c["g"]), json.dumps(c["prog"]))
    reps = o.get("_stuck", [])
    if len({r["pid"] for r in reps}) < 2:
        if "died" in o and not reps:
            raise Inconclusive("a worker died without a Go panic (killed by the OS?) on " + what)
        raise Inconclusive("run was not answered (%s) but the pipeline was not found parked on two workers (%d stall report(s), %d slow report(s)): %s" % (
            "hang" if "hang" in o else "died", len(reps), len(o.get("_slow", [])), what))
    rep = reps[-1]
    procs = rep.get("procs", [])
    stage, state = None, None
    for b in rep["blocked"]:
        pm = PROC_RE.search(b["fn"])
        if pm and b["state"] == "chan send" and pm.group(1) in procs:
            if stage is None or procs.index(pm.group(1)) >= procs.index(stage):
                stage, state = pm.group(1), b["state"]
    if stage is None:
        b = ([x for x in rep["blocked"] if x["state"] == "chan send"] or rep["blocked"])[0]
        stage, state = b["fn"], b["state"]
    if stage == "both":
        sig = "pipeline both fan-out exceeds buffers: blocked"
    else:
        sig = "pipeline %s stage: blocked in %s" % (stage, state)
    ctx.diverge(sig, "the traversal never closed its result stream: %ss after its start no row was being delivered and every pipeline goroutine was parked "
                     "in a channel operation (stage %s in %s); seen on two worker processes" % (rep.get("after_s"), stage, state),
                dict(graph=c["g"], prog=c["prog"], cancel=run["cancel"], expected_rows=[c["lo"], c["hi"]], flows=c["flows"],
                     case=c, probe=bool(run.get("probe")), watchdog=rep, how="harness/cmd/pipeh: one request line {i,graph,prog,cancel}"))
    return sig


def judge(ctx, done):
    """Outcomes of the executed runs -> divergences (via PipelineTrace.tla)."""
    # ---- outcomes that are not observations about the property
    finished = []
    for r, o in done:
        c = r["case"]
        what = "%s %s" % (json.dumps(c["g"]), json.dumps(c["prog"]))
        if "crash" in o:
            ctx.diverge("pipeline crash: %s" % o["crash"], "the traversal crashed the process instead of closing its result stream",
                        dict(graph=c["g"], prog=c["prog"], cancel=r["cancel"], site=o["crash"], trace=(o.get("trace") or "")[:2500]))
            continue
        for k in ("harness_err", "wire_err", "err", "bad", "marshal_err"):
            if k in o:
                raise Inconclusive("pipeh %s on %s: %s" % (k, what, o[k]))
        finished.append((r, o))

    # ---- trace validation
    lines = []
    corrupt = os.environ.get("C07_CORRUPT")     # binding self-test: falsify one expected value / recorded field
    for idx, (r, o) in enumerate(finished):
        c = r["case"]
        if corrupt and r["cancel"] < 0 and c["hi"] > 3:
            ctx.notes.append("C07_CORRUPT=%s applied to run %d" % (corrupt, idx))
            if corrupt == "expected":
                c = dict(c, lo=c["lo"] + 1, hi=c["hi"] + 1)
                r["case"] = c
            elif corrupt == "leak":
                o["leak_grip_n"], o["leak_grip"] = 1, [dict(fn="selftest", state="chan send", n=1)]
            elif corrupt == "work":
                o["work_left"] = ["kvTmp-selftest"]
            corrupt = None
        lines.append(dict(e="case", c=idx, lo=c["lo"], hi=c["hi"], k=r["cancel"], src=c["src"], need=c["need"], mono=c["mono"],
                          probe=bool(r.get("probe")), kinds=c["kinds"]))
        for ev in o["events"]:
            if ev["e"] == "released":
                lines.append(dict(e="released", leak=o["leak_grip_n"], work=len(o["work_left"]), scanned=o.get("scanned", -1)))
            else:
                lines.append(dict(e=ev["e"], rows=ev["rows"]))
    text = "".join(json.dumps(x, separators=(",", ":")) + "\n" for x in lines)
    verdicts = {}
    if lines:
        tr = ctx.tlc("pipeline", "PipelineTrace", "PipelineTrace.cfg", workers=1, timeout=1500, files={"trace.ndjson": text},
                     label="trace validation of %d runs" % len(finished), heap="3g")
        cons = tr.msgs.get("consumed", [])
        if not cons or cons[0]["n"] != len(lines) or not cons[0]["done"]:
            raise Inconclusive("trace was not consumed by PipelineTrace (%d events): malformed trace" % len(lines))
        for v in tr.msgs.get("v", []):
            verdicts[v["c"]] = v
        if len(verdicts) != len(finished):
            raise Inconclusive("PipelineTrace: %d verdicts for %d runs" % (len(verdicts), len(finished)))

    bad = {}
    stopped = 0
    for idx, (r, o) in enumerate(finished):
        v = verdicts[idx]
        causes = set(v["causes"] or [])
        if "order" in causes:
            raise Inconclusive("recorded events out of order (harness problem): %s" % json.dumps(o["events"]))
        if r.get("probe") and v["stopneed"] >= 0 and r["case"]["src"] >= v["stopneed"] + v["inflight"] + v["inflight"] // 4:
            stopped += 1
        for cause in causes & HARD:
            bad.setdefault(cause, []).append((r, o, v))
    for cause, items in sorted(bad.items()):
        items.sort(key=lambda x: (len(x[0]["case"]["kinds"]), case_key(x[0]["case"])))
        # one defect, one signature: the stage kinds that every failing run of this cause contains; if there is
        # none, the shortest failing stage sequences are the roots and longer ones are attributed to them
        common = None
        for r, o, v in items:
            ks = {k for k in r["case"]["kinds"] if not k.startswith("source")}
            common = ks if common is None else common & ks
        roots = []
        for r, o, v in items:
            c = r["case"]
            kinds = c["kinds"]
            if common:
                shape = "+".join(sorted(common))
            else:
                root = next((k for k in roots if subseq(k, kinds)), None)
                if root is None:
                    roots.append(kinds)
                    root = kinds
                shape = ">".join(root)
            if cause == "goroutines-not-released":
                fn = (o["leak_grip"] or [{"fn": "?", "state": "?"}])[0]
                sig = "pipeline goroutines not released: %s [%s]" % (fn["fn"], fn["state"])
                what = "goroutines of the run are still alive 10 s after the result stream was closed"
            elif cause == "temp-not-released":
                sig = "pipeline temp store not released: %s" % shape
                what = "the engine's work directory still holds temporary stores after the run"
            elif cause == "source-not-stopped":
                sig = "pipeline cancel ignored: %s scan ran to completion" % kinds[0]
                what = "after %s the source scan still handed out all %d elements although only ~%d were needed and at most %d fit in flight" % (
                    "the client's cancel" if r["cancel"] >= 0 else "a satisfied limit/range", c["src"], v["stopneed"], v["inflight"])
            elif cause == "rows-too-few":
                sig = "pipeline rows lost: %s" % shape
                what = "the result stream was closed (no cancel) with fewer rows than the steps yield"
            else:
                sig = "pipeline extra rows: %s" % shape
                what = "the result stream delivered more rows than the steps yield"
            ctx.diverge(sig, what, dict(graph=c["g"], prog=c["prog"], cancel=r["cancel"], expected_rows=[c["lo"], c["hi"]], rows=o["rows"],
                                        case=c, probe=bool(r.get("probe")),
                                        events=o["events"], leaked=o["leak_grip"], work_left=o["work_left"], scanned=o.get("scanned"),
                                        causes=sorted(causes)))

    return finished, verdicts, stopped


def subseq(a, b):
    it = iter(b)
    return all(x in it for x in a)


def replay(ctx):
    """bin/check C07 --replay out/replay/C07/<h>.json: re-run the recorded run(s) on the tree under test."""
    with open(ctx.replay) as fh:
        rec = json.load(fh)
    runs = [dict(case=x["case"], cancel=x["cancel"], probe=x.get("probe", False)) for x in [rec["replay"]] + rec.get("more", []) if "case" in x]
    if not runs:
        raise Inconclusive("replay file holds no run")
    outs = execute(ctx, runs, "replay", 45, jobs=min(4, len(runs)))
    done = []
    for r, o in zip(runs, outs):
        if unanswered(o):
            hang_verdict(ctx, r, o)
        else:
            done.append((r, o))
    judge(ctx, done)


def run(ctx):
    if ctx.replay:
        return replay(ctx)
    quick = ctx.tier == "quick"
    watchdog_s = 20 if quick else 45     # workloads that normally take < 3 s
    model = {}
    err = []

    def bg():
        try:
            if os.environ.get("C07_SKIP_MODEL"):      # development aid (mutation runs): real engine only
                ctx.notes.append("C07_SKIP_MODEL set: the implementation-shaped model was not checked in this run")
                return
            model_runs(ctx, model)
        except BaseException as e:   # re-raised in the main thread
            err.append(e)
    th = threading.Thread(target=bg)
    th.start()
    try:
        cases = gen_cases(ctx)
        budget = 110 if quick else 600
        runs, nclasses = select(ctx, cases, budget, (lambda c: 1 if ctx.rng.random() < 0.4 else 0) if quick else (lambda c: 2))
        probes = probe_runs(cases)
        if quick:
            probes = sorted(probes, key=lambda r: (len(r["case"]["prog"]), ctx.rng.random()))[:10]
        else:
            probes = sorted(probes, key=lambda r: ctx.rng.random())[:80]
        # an aggregation that is refused while rows are still arriving must not strand its feeder: runs in which ONE
        # element fans out to more rows than the aggregation buffer holds (star / bipartite graphs), so that the rows keep
        # coming although the source scan stops on the error (seeded change C07e was missed by the class representatives,
        # which all had cancellable sources and volumes at the buffer size)
        refused = [c for c in cases if c["kinds"][-1] == "agg.refused" and c["g"]["shape"] in ("star", "bip")
                   and len(c["flows"]) >= 2 and c["flows"][-2] >= REAL["agg"] + 400 and len(c["prog"]) <= 3
                   and c["prog"][-2]["op"] in ("out", "in", "both", "outE", "inE", "bothE")]
        refused.sort(key=lambda c: (len(c["prog"]), c["flows"][-2], case_key(c)))
        seen_rf = set()
        for c in refused:
            sk = (c["g"]["shape"], c["prog"][0]["op"], c["prog"][-2]["op"])
            if sk not in seen_rf:
                seen_rf.add(sk)
                if not any(r["case"] is c and r["cancel"] == -1 for r in runs):
                    runs.append(dict(case=c, cancel=-1))
        # ---- phase 1: the runs the model of both.Process-as-written predicts to block
        cand = [c for c in cases if "both" in c["kinds"] and c["bothmax"] >= 1400 and len(c["prog"]) <= 3]
        cand.sort(key=lambda c: (len(c["prog"]), c["bothmax"], case_key(c)))
        aimed, seen_sk = [], set()
        want = 4 if quick else 8
        for rnd in (0, 1):      # first one run per graph family, then other start / both variants
            for c in cand:
                sk = (c["g"]["shape"],) if rnd == 0 else (c["g"]["shape"], c["prog"][0]["op"], c["prog"][-1]["op"])
                if sk not in seen_sk and len(aimed) < want and not any(a["case"] is c for a in aimed):
                    seen_sk.add(sk)
                    seen_sk.add((c["g"]["shape"], c["prog"][0]["op"], c["prog"][-1]["op"]))
                    aimed.append(dict(case=c, cancel=-1))
        if not aimed:
            raise Inconclusive("no generated run exceeds the both buffers")
        ctx.log("phase 1: %d runs aimed at the predicted both deadlock" % len(aimed))
        outs1 = execute(ctx, aimed, "aim", watchdog_s, jobs=len(aimed))
        blocked_sigs = set()
        done = []
        for r, o in zip(aimed, outs1):
            if unanswered(o):
                blocked_sigs.add(hang_verdict(ctx, r, o))
            else:
                done.append((r, o))
        both_blocks = "pipeline both fan-out exceeds buffers: blocked" in blocked_sigs
        # ---- phase 2: everything else; if both blocks, the classes it masks are left out (Avoid)
        rest, avoided = [], 0
        aimed_keys = {(case_key(r["case"]), r["cancel"]) for r in aimed}
        for r in runs + probes:
            if (case_key(r["case"]), r["cancel"]) in aimed_keys and not r.get("probe"):
                continue
            if both_blocks and "both" in r["case"]["kinds"] and r["case"]["bothmax"] > REAL["both"]:
                avoided += 1
                continue
            rest.append(r)
        # keep the runs of one graph together: every worker builds a graph at most once
        rest.sort(key=lambda r: (json.dumps(r["case"]["g"], sort_keys=True), ctx.rng.random()))
        ctx.log("phase 2: %d runs (%d classes of %d generated cases; %d avoided because both blocks)" % (len(rest), nclasses, len(cases), avoided))
        outs2 = execute(ctx, rest, "main", watchdog_s)
        for r, o in zip(rest, outs2):
            if unanswered(o):
                hang_verdict(ctx, r, o)
            else:
                done.append((r, o))
    finally:
        th.join()
    if err:
        raise err[0]

    finished, verdicts, stopped = judge(ctx, done)

    # ---- evidence
    nontrivial = len({class_key(r["case"]) + (("c", vclass(r["cancel"])) if r["cancel"] >= 0 else ()) for r, o in finished})
    kinds_seen = sorted({k for r, o in finished for k in r["case"]["kinds"]})
    cancels = {}
    for r, o in finished:
        if r["cancel"] >= 0:
            hi = r["case"]["hi"]
            lab = "0" if r["cancel"] == 0 else "1" if r["cancel"] == 1 else "last" if r["cancel"] == hi else "mid"
            cancels[lab] = cancels.get(lab, 0) + 1
    maxflow = max([max(r["case"]["flows"]) for r, o in finished] or [0])
    aimed_res = [dict(graph=r["case"]["g"], prog=[s["op"] for s in r["case"]["prog"]], per_direction=r["case"]["bothmax"],
                      outcome="blocked" if unanswered(o) else "closed") for r, o in zip(aimed, outs1)]
    ctx.cov.update(evaluations=len(finished) + len(blocked_sigs), distinct_nontrivial=nontrivial,
                   traces_validated_against_impl=len(finished), exhaustive=False,
                   rule="non-trivial = distinct (stage-kind sequence, volume class of every step relative to 100/1000/5000, cancel class) "
                        "among the runs that were executed on the real engine and validated by PipelineTrace",
                   generated_cases=len(cases), behaviour_classes=nclasses, stage_kinds=kinds_seen, cancel_points=cancels,
                   max_rows_through_a_step=maxflow, source_stop_clause_applied=stopped, avoided_because_both_blocks=avoided,
                   model=dict(configs=model.get("configs"), predictions=model.get("pred"),
                              predicted_real_threshold_fanout1=model.get("threshold_real_f1"),
                              real_both_matches="after (drains when the input has ended)" if both_blocks else "concurrent drain",
                              aimed_runs=aimed_res))
    for r, o in finished[:: max(1, len(finished) // 5)]:
        ctx.sample(dict(graph=r["case"]["g"], prog=r["case"]["prog"], cancel=r["cancel"], expected=[r["case"]["lo"], r["case"]["hi"]],
                        rows=o["rows"], goroutines=[o["g0"], o["g1"]]))
    if not both_blocks:
        ctx.notes.append("MODEL-DRIFT: Pipeline.tla with BothDrain=\"after\" (both.Process as in the pinned tree) predicts blocking; "
                         "the engine under test did not block - it behaves like BothDrain=\"concurrent\"")
    ctx.assumptions += [
        "client protocol: a cancel is the cancellation of the context passed to pipeline.Run and the client keeps draining the result channel "
        "(server/api.go:Traversal does); a client that stops reading is outside the property",
        "traversals without mark/jump loops (C12) on kvgraph over Badger; graph families star / chain / complete bipartite, up to ~20k elements, "
        "at most %d rows through any step" % MAXFLOW,
        "released = no goroutine with a grip frame that did not exist before the run survives a 10 s settle period, and the run's work directory is empty; "
        "amounts of memory are not part of the property",
        "'the source stops' is only judged when the source holds more than need + 1.25 x everything the implementation-shaped model "
        "(real capacities) can hold in flight, and only the outcome 'the scan handed out every element' counts as not stopped",
        "a run that is not answered is a divergence only if two worker processes found no progress and all pipeline goroutines parked in channel "
        "operations across two dumps after the deadline; otherwise the check is inconclusive",
        "full-interleaving TLC runs are bounded by MaxWork rows; larger volumes use the partial-order reduction argued in Pipeline.tla",
    ]
