"""C01 - traversal results equal the documented step-by-step semantics (Traversal.tla).

TLC enumerates every program over the step alphabet up to the tier's length bound on the
graph family (and random longer ones with -simulate in the thorough tier); every state
carries the rows the documented semantics allows.  Each state is replayed through the
production path (graph.Compiler().Compile + pipeline.Run on Badger-backed kvgraph)."""
import travrun, travcmp


def cfgs(ctx):
    if ctx.tier == "quick":
        return [("Traversal_path4.cfg", None, None), ("Traversal_wide2.cfg", None, None),
                ("Traversal_sim.cfg", "num=50", 8)]
    return [("Traversal_path5.cfg", None, None), ("Traversal_narrow3.cfg", None, None), ("Traversal_wide2.cfg", None, None), ("Traversal_plan3.cfg", None, None),
            ("Traversal_sim.cfg", "num=1000", 8)]


def run(ctx):
    total = nontriv = nbad = 0
    for cfg, sim, depth in cfgs(ctx):
        graphs, states = travrun.gen_states(ctx, cfg, simulate=sim, depth=depth)
        states = travrun.thin(ctx, states, 15 if ctx.tier == "quick" else 300)
        outs = travrun.replay(ctx, graphs, states, only="prod", tag=cfg.split(".")[0])
        bad = travrun.failures(states, outs, "prod")
        nbad += len(bad)
        mini = travrun.minimal(states, bad)
        for i, r in sorted(mini.items()):
            s = states[i]
            for kind, detail in r:
                sig = "trav-prod: %s at %s" % (kind, travcmp.ops(s["prog"]))
                ctx.diverge(sig, "%s %s" % (kind, detail), dict(graph=graphs[s["g"] - 1], state=s, outcome=outs[i]))
        # C10, second sentence: the same traversal gives the same rows whichever embedded store backs the graph
        if ctx.tier != "quick" and cfg == "Traversal_wide2.cfg":
            light = [s for s in states if not travrun.is_heavy(s)]
            if len(light) > 40000:
                light = [light[i] for i in sorted(ctx.rng.sample(range(len(light)), 40000))]
            for drv in ("bolt", "level", "pebble"):
                o2 = travrun.replay(ctx, graphs, light, only="prod", tag="wide2_" + drv, driver=drv)
                b2 = travrun.minimal(light, travrun.failures(light, o2, "prod"))
                for i, r in sorted(b2.items()):
                    for kind, detail in r:
                        ctx.diverge("trav-prod[%s]: %s at %s" % (drv, kind, travcmp.ops(light[i]["prog"])), "%s %s" % (kind, detail),
                                    dict(driver=drv, graph=graphs[light[i]["g"] - 1], state=light[i], outcome=o2[i]))
            ctx.notes.append("a seeded sample of %d wide2 states also replayed on bolt, level, pebble" % len(light))
        total += len(states)
        nontriv += sum(1 for s in states if s["status"] == "ok" and s["rows"])
        for s in states[:: max(1, len(states) // 3)]:
            ctx.sample(dict(graph=s["g"], prog=s["prog"], status=s["status"], ty=s["ty"], rows=len(s["rows"]), blocks=s["blocks"]))
    ctx.cov.update(evaluations=total, distinct_nontrivial=nontriv, traces_validated_against_impl=total,
                   exhaustive=(ctx.tier == "quick"),
                   rule="all programs over the Traversal.tla alphabets (moves/as/select/path/count to 4 steps after the start (5 thorough), wide to 2, narrow to 3 (thorough), seeded random programs to 8) on the "
                        "7-graph family, plus random programs to 8 steps in the thorough tier; non-trivial = well-typed with "
                        "a non-empty untruncated result", failing_states=nbad)
    ctx.assumptions += [
        "outside the alphabet (documentation silent): duplicate ids in V([a,a]); label arguments on edge-to-vertex moves; path after select/fields/unwind; unwind of a non-list or empty list; distinct on a key some row lacks; mixed include/exclude in fields; JSONPath slices",
        "rows are compared as multisets; limit/skip/range and distinct leave the surviving rows open exactly as the property does",
    ]
