"""C03 - any mutation history leaves exactly the abstract graph observable (GraphStore.tla)."""
import json, os
import storecmp
import srvroute
from vlib import Inconclusive


def obs_table(ctx):
    res = ctx.tlc("store", "GraphStore", "GraphStore_states.cfg" if ctx.tier == "quick" else "GraphStore_states_full.cfg", timeout=1200)
    tbl = {}
    for o in res.msgs.get("obs", []):
        tbl[storecmp.skey(o["state"])] = o["obs"]
    return tbl


def histories(ctx):
    hs = []
    if ctx.tier == "quick":
        plan = [("GraphStore_h2.cfg", None, None), ("GraphLife_4.cfg", None, None), ("GraphMixed_4.cfg", None, None), ("GraphStore_sim.cfg", "num=40", 16)]
    else:
        plan = [("GraphStore_h3.cfg", None, None), ("GraphLife_5.cfg", None, None), ("GraphMixed_5.cfg", None, None), ("GraphStore_sim.cfg", "num=400", 16)]
    for cfg, sim, depth in plan:
        res = ctx.tlc("store", cfg.split("_")[0], cfg, simulate=sim, depth=depth, timeout=1500, count=False, workers=8)
        hs += res.msgs.get("hist", [])
    seen, out = set(), []
    for h in hs:
        k = json.dumps([x["call"] for x in h], sort_keys=True)
        if k not in seen:
            seen.add(k)
            out.append(h)
    # the thorough tier enumerates ~280k histories; replaying every one with a full observation after every
    # call is beyond the tier's budget: keep a seeded sample (the quick tier is replayed completely)
    cap = 45000
    if len(out) > cap:
        ctx.notes.append("%d histories generated, a seeded sample of %d replayed" % (len(out), cap))
        out = [out[i] for i in sorted(ctx.rng.sample(range(len(out)), cap))]
    return out


def replay(ctx, hs, driver="badger", tag="store"):
    lines = [dict(setup=True, driver=driver)] + [dict(i=i, hist=[dict(call=x["call"]) for x in h]) for i, h in enumerate(hs)]
    inp = ctx.write_ndjson("%s_in.ndjson" % tag, lines)
    outp = os.path.join(ctx.scratch, "%s_out.ndjson" % tag)
    ctx.harness(["store", "-j", "14"], input_path=inp, output_path=outp, timeout=5400)
    outs = {o["i"]: o for o in ctx.read_ndjson(outp) if "i" in o}
    if len(outs) != len(hs):
        raise Inconclusive("store harness answered %d of %d behaviours" % (len(outs), len(hs)))
    return outs


def judge(ctx, hs, outs, tbl, prefix=""):
    nsteps = 0
    for i, h in enumerate(hs):
        o = outs[i]
        for bad in ("crash", "hang"):
            if bad in o:
                ctx.diverge("%sstore %s: %s" % (prefix, bad, o[bad]), "the store %s while replaying a history" % bad,
                            dict(history=[x["call"] for x in h], outcome={k: o[k] for k in o if k != "steps"}))
        if "steps" not in o:
            continue
        nsteps += len(o["steps"])
        for n, sig, detail in storecmp.check_history(h, o["steps"], tbl):
            ctx.diverge(prefix + sig, "after call %d of the history the observable state differs from the abstract graph" % (n + 1),
                        dict(history=[x["call"] for x in h[: n + 1]], specified=dict(res=h[n]["res"], after=h[n]["after"]),
                             observed=o["steps"][n], detail=detail))
    return nsteps


def index_part(ctx, tbl):
    """GraphIndex.tla: vertex-field index registrations are per graph (listed for that graph only, gone with the
    graph, not resurrected by a re-creation) and never touch the stored elements."""
    res = ctx.tlc("store", "GraphIndex", "GraphIndex_4.cfg" if ctx.tier == "quick" else "GraphIndex_5.cfg", timeout=1500, count=False, workers=8,
                  label="index registrations")
    cases = res.msgs.get("ixhist", [])
    if not cases:
        raise Inconclusive("GraphIndex.tla emitted no histories")
    cap = 4000 if ctx.tier == "quick" else 20000
    if len(cases) > cap:
        ctx.notes.append("%d index histories generated, a seeded sample of %d replayed" % (len(cases), cap))
        cases = [cases[i] for i in sorted(ctx.rng.sample(range(len(cases)), cap))]
    hs = [c["hist"] for c in cases]
    # index calls carry label/field: pass the calls through unchanged
    outs = replay(ctx, hs, tag="store_ix")
    nsteps = judge(ctx, hs, outs, tbl, prefix="[index calls] ")
    for i, c in enumerate(cases):
        steps = outs[i].get("steps")
        if not steps:
            continue
        for n, (want, st) in enumerate(zip(c["ix"], steps)):
            want = want if isinstance(want, dict) else {}
            bad = None
            for g, regs in want.items():
                real = (st["obs"].get(g) or {})
                exp = sorted("%s|%s" % (p[0], p[1]) for p in regs)
                got = sorted(real.get("indices") or [])
                if exp != got:
                    extra, missing = set(got) - set(exp), set(exp) - set(got)
                    other = {"%s|%s" % (p[0], p[1]) for g2, r2 in want.items() if g2 != g for p in r2}
                    if extra and extra <= other:
                        bad = "lists the index registrations of another graph"
                    elif extra:
                        bad = "lists a registration that was removed (or never made)"
                    else:
                        bad = "does not list a registration that was made"
                elif real.get("indices_named") is False:
                    bad = "names another graph in its entries"
                if bad:
                    break
            if bad:
                ctx.diverge("store index listing: %s" % bad,
                            "after call %d the index registrations listed for a graph differ from those of GraphIndex.tla" % (n + 1),
                            dict(history=[x["call"] for x in c["hist"][: n + 1]], specified=want,
                                 observed={g: (st["obs"].get(g) or {}).get("indices") for g in ("g1", "g2")}))
                break
    ctx.cov["index_histories"] = len(cases)
    return nsteps


def run(ctx):
    tbl = obs_table(ctx)
    hs = histories(ctx)
    outs = replay(ctx, hs)
    nsteps = judge(ctx, hs, outs, tbl)
    # C10, second sentence: the same histories give the same observable graphs whichever store backs them
    others = [] if ctx.tier == "quick" else ["bolt", "level", "pebble"]
    sub = hs if len(hs) <= 4000 else [hs[i] for i in sorted(ctx.rng.sample(range(len(hs)), 4000))]
    for drv in others:
        o2 = replay(ctx, sub, driver=drv, tag="store_" + drv)
        nsteps += judge(ctx, sub, o2, tbl, prefix="[%s] " % drv)
    if others:
        ctx.notes.append("histories also replayed on %s (%d each)" % (", ".join(others), len(sub)))
    nsteps += index_part(ctx, tbl)
    # the same clauses at the server boundary: two drivers, routing table, configured routes, schema graphs
    rsteps, rhists = srvroute.run(ctx)
    nsteps += rsteps
    for h in hs[:: max(1, len(hs) // 4)]:
        ctx.sample([x["call"] for x in h])
    ctx.cov.update(evaluations=nsteps, distinct_nontrivial=len(hs), traces_validated_against_impl=len(hs),
                   rule="all call sequences of length %d over the 63-call alphabet of GraphStore.tla plus seeded random walks of 14 calls; "
                        "after every call the complete observation (listings, lookups, adjacency in both directions x 4 label filters, "
                        "label listings, label index, timestamps of every graph) is compared with Obs of the abstract state; "
                        "distinct = distinct call sequences" % (2 if ctx.tier == "quick" else 3),
                   observation_table_states=len(tbl), server_routing_histories=rhists)
    ctx.assumptions += ["ServerRouting.tla: what the replay on a server with two drivers shows about the schema graphs (<g>__schema__) and the schema cache "
                        "is compared with the model but reported as MODEL-DRIFT only (no listed property speaks about them); the named deviations "
                        "CascadeWrongDriver and StaleSchemaCache are modelled as the code behaves",
                        "re-creating an existing graph and the result code of deleting something absent are left open; a batch that mixes valid and invalid elements fails and must leave either nothing or exactly its valid elements stored (GraphMixed.tla), which of the two is open and ends the history",
                        "a timestamp may change on a successful call that changes nothing (e.g. delete of an absent element); it must change when the graph changed and must not change on failed calls or calls to another graph"]
