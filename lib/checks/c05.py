"""C05 - every exposed RPC is mediated by authentication and per-graph authorization.

Auth.tla is the property: one call as a state machine whose steps (Validate, Enforce,
HandlerRan, ElemForwarded, Reply) are guarded by "blockers" computed from the
configuration (credentials, policy, what the request names).  TLC model-checks that an
abstract mediator which only takes unblocked steps satisfies Mediation, NoEffect,
OpenWhenUnconfigured, BulkRule (all methods x users x credential states x graphs x
policies), and prints the families (method table, policies, bulk sequences).

harness/authz then drives the PRODUCTION interceptors of the accounts package
(accounts.Config built through its exported fields, Config.UnaryInterceptor /
StreamInterceptor) on a real grpc.Server over bufconn and on the four direct clients
that server.Serve gives to the HTTP gateway, invoking every method of every
*_ServiceDesc for each user x credential state x graph, and records the events with
spies installed through the hook accounts.(*Config).VerifWrap (and once more without
any hook).  AuthTrace.tla validates the recorded calls against Auth.tla: a reporting pass names
every rejected call, then the accepted calls are checked again with the property as
plain TLC invariants (strict).  A rejected call is a divergence of the real
code from the property.

A second binding ("served") closes the gap the hand-made wiring leaves: harness/authz/served.go
starts the REAL server (server.NewGripServer + Serve on loopback ports, kvgraph on badger, the
real handlers, spies put on conf.Server.Accounts before the server is built) and calls every
method over gRPC on the TCP listener and over HTTP/JSON on the gateway mux (URL, verb, body from
the google.api.http options).  Which interceptors Serve puts on the grpc.Server and which
Direct*Interceptor options it gives each in-process gateway client is then in the path.
HandlerRan / ElemForwarded are inferred from the reply and from the store (see served.go); the
same AuthTrace.tla judges the calls.  A divergence that only the live server shows is reported
with the transport in its signature."""
import json, os
from concurrent.futures import ThreadPoolExecutor

import vlib
from vlib import Inconclusive

# The casbin model a deployment is configured with (the model documented by the project,
# test/model.conf).  Auth.tla!PolAllows is its matcher.
CASBIN_MODEL = """[request_definition]
r = sub, obj, act

[policy_definition]
p = sub, obj, act

[policy_effect]
e = some(where (p.eft == allow))

[matchers]
m = r.sub == p.sub && (r.obj == p.obj || p.obj ==  "*") && (r.act == p.act || p.act == "*") || r.sub == "root"
"""

PASSWORDS = {"alice": "pw-A1", "bob": "pw-B2", "root": "pw-R3"}
CODES = {"OK": "ok", "Unauthenticated": "unauthenticated", "PermissionDenied": "permission_denied", "NO_REPLY": "noreply"}
# outcomes that say something about the harness or the machine (deadline of 20 s per call), not about grip
TOOL_CODES = ("TIMEOUT", "TOOL", "NO_CLIENT_METHOD", "BAD_KIND", "TOO_MANY", "DeadlineExceeded", "Canceled", "Unavailable",
              "ResourceExhausted")
ALL_CREDVS = ["none", "wrong", "right", "otherpw", "unknown", "empty", "garbage", "bearer"]

# which cause names a call's signature: what the spies saw first (root cause), then the ground truth
EVIDENCE_ORDER = ["handler-ran-without-validate", "handler-ran-without-enforce", "handler-ran-enforce-wrong-graph",
                  "handler-ran-enforce-wrong-op", "handler-ran-enforce-wrong-user", "handler-ran-after-denied-enforce",
                  "elem-forwarded-without-enforce", "elem-forwarded-enforce-wrong-graph", "elem-forwarded-enforce-wrong-op",
                  "elem-forwarded-enforce-wrong-user", "elem-forwarded-after-denied-enforce",
                  "validate-contradicts-credentials", "enforce-contradicts-policy"]
HARD_ORDER = ["refused-with-no-accounts", "call-never-answered", "handler-ran-unauthenticated",
              "handler-ran-though-policy-denies", "denied-elem-forwarded", "allowed-elem-dropped", "denied-call-replied-ok"]
WHAT = {
    "handler-ran-without-validate": "the service handler ran although the credentials were never validated",
    "handler-ran-without-enforce": "the service handler ran for a caller the policy denies: the interceptor never asked Access.Enforce",
    "handler-ran-enforce-wrong-graph": "the service handler ran for a caller the policy denies: Access.Enforce was asked about another graph than the request names",
    "handler-ran-enforce-wrong-op": "the service handler ran for a caller the policy denies: Access.Enforce was asked about another operation class than the method's",
    "handler-ran-enforce-wrong-user": "the service handler ran for a caller the policy denies: Access.Enforce was asked about another user",
    "handler-ran-after-denied-enforce": "the service handler ran although Access.Enforce refused the call",
    "handler-ran-unauthenticated": "the service handler ran although the credentials do not validate",
    "handler-ran-though-policy-denies": "the service handler ran although the policy does not grant the caller the method's operation class on the graph named in the request",
    "denied-elem-forwarded": "a bulk element for a graph the caller may not write reached the handler",
    "allowed-elem-dropped": "bulk elements the caller may write did not reach the handler (filtering is not element by element)",
    "elem-forwarded-without-enforce": "a bulk element for a graph the caller may not write reached the handler: Access.Enforce was never asked about it",
    "elem-forwarded-after-denied-enforce": "a bulk element reached the handler although Access.Enforce refused it",
    "elem-forwarded-enforce-wrong-graph": "a bulk element for a graph the caller may not write reached the handler: Access.Enforce was asked about another graph",
    "elem-forwarded-enforce-wrong-op": "a bulk element for a graph the caller may not write reached the handler: Access.Enforce was asked about another operation class than write",
    "elem-forwarded-enforce-wrong-user": "a bulk element for a graph the caller may not write reached the handler: Access.Enforce was asked about another user",
    "refused-with-no-accounts": "the method is refused although no accounts are configured",
    "denied-call-replied-ok": "a denied call was answered with success",
    "call-never-answered": "a denied call is never answered (no authentication/permission error reaches the client)",
    "validate-contradicts-credentials": "Authenticate.Validate answered against the configured credentials",
    "enforce-contradicts-policy": "Access.Enforce answered against the configured policy",
}


def pick_cause(causes, hard):
    for c in EVIDENCE_ORDER:
        if c in causes and (c.startswith("handler-ran") or c.startswith("elem-forwarded")):
            return c
    for c in HARD_ORDER:
        if c in causes:
            return c
    hs = sorted(set(causes) & set(hard))
    return hs[0] if hs else sorted(causes)[0]


def polkey(p):
    return json.dumps(sorted([r["u"], r["g"], r["op"]] for r in p))


def build_trace(blocks, skip=()):
    """blocks: list of (cfg, calls); returns (text, number of calls, number of events)"""
    out = []
    ncalls = 0
    for cfg, calls in blocks:
        out.append(dict(e="Config", mode=cfg["mode"], spied=cfg["spied"],
                        pol=[dict(u=u, g=g, op=op) for u, g, op in cfg["policy"]]))
        for call in calls:
            if call["c"] in skip:
                continue
            ncalls += 1
            out.append(dict(e="Begin", c=call["c"], m=call["m"], user=call["user"], cred=call["cred"], g=call["g"],
                            elems=call["elems"]))
            for e in sorted(call["ev"], key=lambda x: x["k"]):
                k = e["e"]
                if k == "Validate":
                    out.append(dict(e=k, ok=e["ok"], u=e["u"]))
                elif k == "Enforce":
                    out.append(dict(e=k, ok=e["ok"], u=e["u"], g=e["g"], op=e["op"]))
                elif k == "HandlerRan":
                    out.append(dict(e=k))
                elif k == "ElemForwarded":
                    out.append(dict(e=k, g=e["g"]))
                elif k == "Reply":
                    out.append(dict(e=k, code=CODES.get(e["code"], "other")))
                else:
                    raise Inconclusive("unknown event kind %r" % k)
    text = "".join(json.dumps(x, separators=(",", ":")) + "\n" for x in out)
    return text, ncalls, len(out)


def run_tlc_trace(ctx, text, strict, label):
    return ctx.tlc("auth", "AuthTrace", "AuthTrace_strict.cfg" if strict else "AuthTrace.cfg", workers=2, timeout=1500,
                   files={"trace.ndjson": text}, expect_violation=strict, label=label, heap="3g")


def verdicts_of(res, ncalls, nev, label):
    vs = {}
    for v in res.msgs.get("v", []):
        vs[v["c"]] = v
    cons = res.msgs.get("consumed", [])
    if res.violation is None:
        if not cons or cons[0]["n"] != nev or not cons[0]["done"]:
            raise Inconclusive("trace %s was not consumed by AuthTrace (%d events, %d verdicts): malformed trace" % (label, nev, len(vs)))
        if len(vs) != ncalls:
            raise Inconclusive("trace %s: %d verdicts for %d calls" % (label, len(vs), ncalls))
    return vs


def validate_chunk(ctx, idx, blocks):
    """returns {c: verdict} for every call of the chunk; rejected calls carry rejected=True.
    Pass 1 (reporting): every event is applied, the blockers of Auth.tla are accumulated per call and
    printed.  Pass 2 (strict): the calls that were not rejected are checked with the property as
    ordinary TLC invariants; any objection there is an inconsistency of the machinery."""
    text, ncalls, nev = build_trace(blocks)
    rep = run_tlc_trace(ctx, text, False, "trace chunk %d report" % idx)
    vs = verdicts_of(rep, ncalls, nev, "chunk %d" % idx)
    bad = {c for c, v in vs.items() if v["rejected"]}
    if bad:
        text, ncalls, nev = build_trace(blocks, skip=bad)
    res2 = run_tlc_trace(ctx, text, True, "trace chunk %d strict on accepted calls" % idx)
    if res2.violation is not None:
        raise Inconclusive("strict pass objects (%s) to calls the reporting pass accepted (%d rejected calls removed)"
                           % (res2.violation, len(bad)))
    vs2 = verdicts_of(res2, ncalls, nev, "chunk %d accepted" % idx)
    if any(v["rejected"] for v in vs2.values()):
        raise Inconclusive("strict pass accepted a chunk that contains rejected calls")
    return vs


def canary(ctx):
    """Binding self-test on synthetic records: TLC has to name three corruptions and accept the clean call."""
    def ev(*es):
        return [dict(e, k=k + 1) for k, e in enumerate(es)]

    def call(c, evs):
        return dict(c=c, m="Query/GetVertex", user="alice", cred="right", g="g1", elems=[], ev=evs)

    val = dict(e="Validate", ok=True, u="alice")
    ran = dict(e="HandlerRan")
    deny = dict(mode="casbin", spied=True, policy=[])
    grant = dict(mode="casbin", spied=True, policy=[["alice", "g1", "read"]])
    opn = dict(mode="open", spied=True, policy=[])
    enf = lambda ok: dict(e="Enforce", ok=ok, u="alice", g="g1", op="read")
    cb = [
        (deny, [call(1, ev(val, enf(False), ran, dict(e="Reply", code="OK")))]),           # handler ran after a refusal
        (grant, [call(2, ev(val, ran, dict(e="Reply", code="OK")))]),                       # consultation missing
        (opn, [call(3, ev(dict(e="Validate", ok=True, u=""), dict(e="Reply", code="Unknown")))]),   # refused though open
        (grant, [call(4, ev(val, enf(True), ran, dict(e="Reply", code="OK")))]),            # clean
    ]
    text, ncalls, nev = build_trace(cb)
    rep = run_tlc_trace(ctx, text, False, "canary")
    vs = verdicts_of(rep, ncalls, nev, "canary")
    want = {1: "handler-ran-though-policy-denies", 2: "handler-ran-without-enforce", 3: "refused-with-no-accounts"}
    for c, cause in want.items():
        if cause not in vs[c]["causes"]:
            raise Inconclusive("canary: corrupted call %d not recognised (%s missing from %s)" % (c, cause, vs[c]["causes"]))
    if not (vs[1]["rejected"] and vs[3]["rejected"]) or vs[2]["rejected"] or vs[4]["rejected"] or vs[4]["causes"]:
        raise Inconclusive("canary: verdicts %s" % vs)
    return len(want)


def run(ctx):
    thorough = ctx.tier != "quick"
    hook = os.path.join(vlib.REPO, "accounts", "export_verif.go")
    if not (os.path.exists(hook) and "VerifWrap" in open(hook).read()):
        raise Inconclusive("hook accounts/export_verif.go (Config.VerifWrap, build tag verif) is not in %s: "
                           "apply /verif/pending_fixes/hook-accounts.patch" % vlib.REPO)

    # ---- 1. the property on the abstract mediator, and the families
    res = ctx.tlc("auth", "Auth", "Auth_thorough.cfg" if thorough else "Auth_quick.cfg", workers=8, timeout=1500)
    fam = res.msgs["family"][0]
    methods = {m["key"]: m for m in fam["methods"]}
    hard = set(fam["hard"])
    policies = sorted(([[r["u"], r["g"], r["op"]] for r in p] for p in fam["policies"]), key=lambda p: (len(p), json.dumps(sorted(p))))
    policies = [sorted(p) for p in policies]
    users = sorted(fam["users"])
    graphs = sorted(fam["reqgraphs"])
    bulk = sorted(fam["bulk"], key=lambda s: (-len(s), s))
    base_creds = ["none", "wrong", "right"]
    if sorted(base_creds) != sorted(fam["creds"]):
        raise Inconclusive("credential states of the spec changed")

    # ---- 2. configurations to run
    cfgs = []

    def add(mode, spied, policy=(), creds=None, **kw):
        cfgs.append(dict(i=len(cfgs), mode=mode, spied=spied, policy=[list(r) for r in policy], creds=creds or base_creds, **kw))

    # the live server first (its configurations take longest): this binding is about the wiring in
    # server.Serve, not about the interceptor logic, so the quick tier takes a smaller family
    perop5 = [p for p in policies if len(p) == 5][0]
    wildop = [p for p in policies if len(p) == 2 and all(r[2] == "*" for r in p) and not all(r[1] == "*" for r in p)][0]
    if thorough:
        sv = dict(served=True)
        add("open", True, **sv); add("open", False, **sv); add("basic", True, **sv); add("basic", False, **sv)
        for p in [q for q in policies if len(q) != 1]:
            add("casbin", True, p, **sv)
        add("casbin", False, perop5, **sv)
        add("basic", True, (), ALL_CREDVS, **sv)
        add("casbin", True, perop5, ALL_CREDVS, **sv)
        # the default deployment: plugins disabled, the Configure service is a stub - it is exposed all the same
        add("basic", True, **dict(sv, enable_plugins=False)); add("casbin", True, perop5, **dict(sv, enable_plugins=False))
    else:
        sv = dict(served=True, users=[u for u in users if u != "root"], graphs=[g for g in graphs if g in ("g1", "g2")],
                  bulk=[b for b in bulk if tuple(b) in (("g1", "g2", "g3"), ("g2", "g1", "g2"), ())])
        add("open", True, **sv); add("basic", True, **sv)
        add("casbin", True, perop5, **sv); add("casbin", True, [], **sv); add("casbin", True, wildop, **sv)
        add("casbin", False, perop5, **sv)
        add("basic", True, **dict(sv, enable_plugins=False))
    nserved = len(cfgs)

    add("open", True); add("open", False); add("basic", True); add("basic", False)
    for p in policies:
        add("casbin", True, p)
    unspied = policies if thorough else [p for p in policies if len(p) in (0, 5)]
    for p in unspied:
        add("casbin", False, p)
    if thorough:
        perop = [p for p in policies if len(p) == 5][0]
        add("basic", True, (), ALL_CREDVS)
        add("casbin", True, perop, ALL_CREDVS)
        add("casbin", False, perop, ALL_CREDVS)
    setup = dict(setup=True, users=[dict(user=u, password=PASSWORDS[u]) for u in users], model=CASBIN_MODEL,
                 graphs=graphs, bulk=bulk, creds=base_creds)
    inp = ctx.write_ndjson("authz_in.ndjson", [setup] + cfgs)
    outp = inp.replace("_in", "_out")
    ctx.harness(["authz", "-j", "8", "-timeout", "900s"], input_path=inp, output_path=outp, timeout=2400)
    outs = {o["i"]: o for o in ctx.read_ndjson(outp) if "i" in o}
    if len(outs) != len(cfgs):
        raise Inconclusive("harness answered %d of %d configurations" % (len(outs), len(cfgs)))

    # ---- 3. sanity of the recording, method table of the descriptors vs the spec
    blocks = []
    cnum = 0
    seen = set()
    served = dict(calls=0, configurations=0, refused_store_unchanged=0, handler_runs_inferred=0, store_effects=0,
                  never_answered=0, self_calls_of_the_server_ignored=0, serve_did_not_return=0, http_rules={})
    for cfg in cfgs:
        o = outs[cfg["i"]]
        if "tool_err" in o:
            # port taken, server not up in time, deadline, a request the HTTP layer rejected: tool trouble
            raise Inconclusive("live server, configuration %s: %s" % ({k: cfg[k] for k in ("mode", "spied", "policy")}, o["tool_err"]))
        for bad in ("err", "crash", "hang", "died", "bad", "marshal_err"):
            if bad in o:
                raise Inconclusive("harness %s on configuration %s: %s\n%s" % (bad, {k: cfg[k] for k in ("mode", "spied", "policy")},
                                                                         o[bad], str(o.get("trace", ""))[-1500:]))
        got = {m["svc"] + "/" + m["name"]: m for m in o["methods"]}
        if set(got) != set(methods):
            raise Inconclusive("service descriptors and Auth.tla!MethodTable differ: only in code %s, only in spec %s - extend the spec"
                               % (sorted(set(got) - set(methods)), sorted(set(methods) - set(got))))
        for k, m in got.items():
            if m["kind"] != methods[k]["kind"] or m["garg"] != methods[k]["garg"]:
                raise Inconclusive("method %s: descriptor says kind=%s graph-field=%s, Auth.tla says %s/%s"
                                   % (k, m["kind"], m["garg"], methods[k]["kind"], methods[k]["garg"]))
        calls = o["calls"]
        want = set()
        for call in calls:
            cnum += 1
            call["c"] = cnum
            code = call["ev"][-1]["code"] if call["ev"] and call["ev"][-1]["e"] == "Reply" else "NO_REPLY_EVENT"
            if code in TOOL_CODES or code == "NO_REPLY_EVENT":
                raise Inconclusive("call %s over %s ended with %s (tool failure, not an observation)" % (call["m"], call["t"], code))
            want.add((call["t"], call["m"]))
            seen.add((cfg["mode"], polkey([dict(u=a, g=b, op=c) for a, b, c in cfg["policy"]]), call["m"], call["user"],
                      call["cred"], call["g"], tuple(call["elems"])))
        transports = ("served-grpc", "served-http") if cfg.get("served") else ("grpc", "gateway")
        if want != {(t, m) for t in transports for m in methods}:
            raise Inconclusive("not every method was invoked over both transports %s" % (transports,))
        if cfg.get("served"):
            if o.get("stray"):
                raise Inconclusive("live server: %d consultations could not be attributed to the call in flight" % o["stray"])
            served["configurations"] += 1
            served["calls"] += len(calls)
            served["store_effects"] += o.get("effects", 0)
            served["never_answered"] += o.get("leaked", 0)
            served["self_calls_of_the_server_ignored"] += o.get("foreign", 0)
            served["serve_did_not_return"] += 1 if o.get("serve_stuck") else 0
            served["http_rules"] = o.get("http_rules", {})
            for call in calls:
                code = call["ev"][-1]["code"]
                if code in ("Unauthenticated", "PermissionDenied") and not call.get("effect"):
                    served["refused_store_unchanged"] += 1
                if any(e["e"] == "HandlerRan" for e in call["ev"]):
                    served["handler_runs_inferred"] += 1
        blocks.append((cfg, calls))
    ctx.log("recorded %d calls in %d configurations (%d calls against the live server in %d configurations)"
            % (cnum, len(cfgs), served["calls"], served["configurations"]))
    corrupt = os.environ.get("VERIF_C05_CORRUPT")
    if corrupt:
        # self-test of the binding: falsify one recorded field of one refused call; the check has to report it
        for cfg, calls in blocks:
            hit = [c for c in calls if cfg["mode"] == "casbin" and c["ev"][-1]["code"] == "PermissionDenied"]
            if hit:
                ev = hit[0]["ev"]
                if corrupt == "reply":
                    ev[-1]["code"] = "OK"
                else:
                    ev.insert(len(ev) - 1, dict(e="HandlerRan", k=ev[-1]["k"]))
                    ev[-1]["k"] += 1
                ctx.log("CORRUPTED (%s) the record of call %s user=%s g=%s" % (corrupt, hit[0]["m"], hit[0]["user"], hit[0]["g"]))
                break
    mm = outs[0]["methodmap"]
    drift = []
    for k, m in sorted(methods.items()):
        full = "/gripql." + k
        if full not in mm:
            drift.append("%s absent from accounts.MethodMap (spec: %s)" % (k, m["op"]))
        elif mm[full] != m["op"]:
            drift.append("%s: accounts.MethodMap says %s, spec says %s" % (k, mm[full], m["op"]))
    if drift:
        ctx.notes.append("MethodMap vs Auth.tla!MethodTable: " + "; ".join(drift))

    # ---- 4. trace validation (chunks in parallel), plus the canary
    nchunks = 4
    order = sorted(range(len(blocks)), key=lambda j: -len(blocks[j][1]))
    chunks = [[] for _ in range(nchunks)]
    for n, j in enumerate(order):
        chunks[n % nchunks].append(blocks[j])
    chunks = [c for c in chunks if c]
    with ThreadPoolExecutor(max_workers=nchunks + 1) as ex:
        futs = [ex.submit(validate_chunk, ctx, k, ch) for k, ch in enumerate(chunks)]
        cfut = ex.submit(canary, ctx)
        verdicts = {}
        for f in futs:
            verdicts.update(f.result())
        ncanary = cfut.result()
    if len(verdicts) != cnum:
        raise Inconclusive("%d verdicts for %d calls" % (len(verdicts), cnum))

    # ---- 5. verdicts
    soft = {}
    nrej = 0
    byc = {}
    for cfg, calls in blocks:
        for call in calls:
            byc[call["c"]] = (cfg, call)
    # one defect -> one signature: calls recorded without spies (no consultations visible) take the
    # root cause that the spied recordings of the same method and ground-truth cause show
    rootcause = {}
    rejected = []
    for c in sorted(verdicts):
        v = verdicts[c]
        cfg, call = byc[c]
        causes = sorted(v["causes"])
        if v["rejected"]:
            hc = [x for x in HARD_ORDER if x in causes] or sorted(set(causes) & hard)
            cause = pick_cause(causes, hard)
            rejected.append((cfg, call, causes, v, hc[0], cause))
            if cause != hc[0]:
                rootcause.setdefault((call["m"], hc[0]), {}).setdefault(cause, 0)
                rootcause[(call["m"], hc[0])][cause] += 1
        else:
            for x in causes:
                soft.setdefault(x, {}).setdefault(call["m"], 0)
                soft[x][call["m"]] += 1
    final = []
    for cfg, call, causes, v, hc, cause in rejected:
        if cause == hc and (call["m"], hc) in rootcause:
            alts = rootcause[(call["m"], hc)]
            cause = max(sorted(alts), key=lambda x: alts[x])
        final.append((cfg, call, causes, v, cause))
    # A divergence that only the live server shows (never the hand-wired interceptors) is a defect of
    # the wiring in server.Serve or of the layers only that binding has: its signature carries the
    # transport.  One that both bindings show keeps the plain signature (one defect -> one signature).
    where = {}
    for cfg, call, causes, v, cause in final:
        where.setdefault((call["m"], cause), set()).add(call["t"])
    QUAL = {("served-http",): (" [live server: http gateway]", " - only on the live server, over the HTTP gateway (wiring of the in-process gateway clients in server.Serve)"),
            ("served-grpc",): (" [live server: grpc]", " - only on the live server, over its gRPC port (interceptors server.Serve puts on the grpc.Server)"),
            ("served-grpc", "served-http"): (" [live server]", " - only on the live server (server.Serve), over gRPC and the HTTP gateway")}

    def qual(m, cause):
        return QUAL.get(tuple(sorted(where[(m, cause)])), ("", ""))

    def replay(cfg, call, causes, v):
        keys = ("t", "m", "user", "cred", "credv", "g", "elems") + (("raw", "effect") if cfg.get("served") else ())
        r = dict(config=dict(mode=cfg["mode"], policy=cfg["policy"], spied=cfg["spied"], binding="served" if cfg.get("served") else "wired"),
                 call={k: call[k] for k in keys if k in call},
                 events=call["ev"], causes=causes, failed_invariants=sorted(v["inv"]))
        if cfg.get("served"):
            r["http_rule"] = served["http_rules"].get(call["m"])
        return r

    # a cause shared by three or more methods of one RPC kind is one defect of that interceptor path
    shared = {}
    for cfg, call, causes, v, cause in final:
        shared.setdefault((methods[call["m"]]["kind"], cause, qual(call["m"], cause)[0]), set()).add(call["m"])
    for cfg, call, causes, v, cause in final:
        nrej += 1
        kind = methods[call["m"]]["kind"]
        qs, qw = qual(call["m"], cause)
        group = sorted(shared[(kind, cause, qs)])
        if len(group) >= 3:
            ctx.diverge("auth %s-methods %s%s" % (kind, cause, qs), "%s: %s%s" % (", ".join(group), WHAT.get(cause, cause), qw),
                        replay(cfg, call, causes, v))
            continue
        extra = " (in-process gateway client)" if cause == "call-never-answered" and call["t"] in ("gateway", "served-http") else ""
        ctx.diverge("auth %s %s%s" % (call["m"], cause, qs), "%s: %s%s%s" % (call["m"], WHAT.get(cause, cause), extra, qw),
                    replay(cfg, call, causes, v))
    for x, per in sorted(soft.items()):
        ctx.notes.append("not a violation, %s: %s" % (x, ", ".join("%s x%d" % kv for kv in sorted(per.items()))))
    for cfg, calls in sorted(blocks, key=lambda b: bool(b[0].get("served"))):
        if cfg["mode"] == "casbin" and cfg["spied"] and len(cfg["policy"]) == 5 and cfg["creds"] == base_creds:
            for call in calls:
                if call["m"] in ("Query/GetVertex", "Edit/BulkAdd", "Job/ViewJob") and call["cred"] == "right" and call["user"] == "alice":
                    if cfg.get("served") and not (call["g"] == "g1" and call["t"] == "served-http" or call["elems"] == ["g1", "g2", "g3"]):
                        continue
                    ctx.sample(dict(policy=cfg["policy"], call={k: call[k] for k in ("t", "m", "user", "cred", "g", "elems", "raw") if k in call},
                                    events=[{k: v for k, v in e.items() if v not in ("", 0, False) or (k == "ok" and e["e"] in ("Validate", "Enforce"))}
                                            for e in call["ev"]],
                                    verdict=verdicts[call["c"]]), limit=10 if cfg.get("served") else 6)
    nontrivial = len({s for s in seen if s[0] == "casbin" and s[4] == "right" and s[3] != "root"})
    ctx.cov.update(evaluations=cnum, traces_validated_against_impl=cnum, distinct_nontrivial=nontrivial, exhaustive=True,
                   rejected_calls=nrej, configurations=len(cfgs), policies=len(policies), methods=len(methods),
                   distinct_calls=len(seen), canary_corruptions_recognised=ncanary,
                   served={k: v for k, v in served.items() if k != "http_rules"},
                   served_calls_validated=served["calls"], served_configurations=served["configurations"],
                   rule="every method of the 4 service descriptors (%d) x users %s x credential states (none/wrong/right%s) x request graphs %s "
                        "(bulk: element sequences %s) x transport (grpc server over bufconn, direct gateway clients; and, against the live "
                        "server started by server.Serve, its gRPC port and its HTTP gateway - there %s) x configuration "
                        "(no accounts, basic auth only, basic auth + each of %d casbin policies: allow-all, deny-all, per-operation, "
                        "wildcard graph, wildcard operation%s), with spies and without; distinct = calls up to transport/spies; "
                        "non-trivial = policy-decided ones (casbin configured, right credentials, user other than root)"
                        % (len(methods), users, ", 5 more malformed/foreign variants in 3 configurations" if thorough else "",
                           graphs, bulk,
                           "the same family in %d configurations" % served["configurations"] if thorough else
                           "users alice/bob, graphs g1/g2, 3 bulk sequences in %d configurations: no accounts, basic auth, casbin "
                           "per-operation / deny-all / wildcard-operation with spies, per-operation without" % served["configurations"],
                           len(policies), ", every single-rule policy" if thorough else ""))
    ctx.assumptions += [
        "the casbin library and its matcher evaluation are trusted; the policy semantics in Auth.tla!PolAllows is the matcher of the project's model file (test/model.conf), including the built-in superuser 'root'",
        "hand-wired binding: service handlers are stubs, 'has no effect' is observed as 'the handler is not invoked / no bulk element reaches it'; the direct clients are driven with the metadata the grpc-gateway runtime would produce",
        "live-server binding (server.Serve on loopback ports, real handlers, kvgraph on badger): HandlerRan is inferred - a reply other than Unauthenticated/PermissionDenied (HTTP 401/403) means the handler ran, which is sound for interceptors that either refuse with one of these codes or return the handler's result (no handler of the server package produces these codes; the interceptors' own 'Unknown method'/'Request error'/'Unable to get graph' refusals are recognised by their text); additionally any call after which the store (graphs, vertices, edges, indices, job directories, plugin work directories) differs has run its handler; bulk elements that reached the handler are the ones found in the store afterwards (order not observable: taken as stream order)",
        "live-server binding: a handler that ran for a refused READ call and whose result was then replaced by an authentication error would not be seen (no effect on the store, no data returned)",
        "live-server binding: consultations made by the server's calls to itself (getGraph dials its own RPC port without credentials: GetMapping, updateGraphMap) carry no call tag and are left out of the trace; Edit/AddMapping is called last because with no accounts that self-call succeeds and re-routes the graph to a gripper driver",
        "live-server binding: 'a gateway BulkAdd is never answered' is decided from the goroutines of the server process (gateway handler blocked in CloseAndRecv while no goroutine started by EditDirectClient.BulkAdd is left), not from a timer",
        "with plugins disabled server.Serve registers a Configure stub (nullPluginServer) on the gateway without interceptors; only the EnablePlugins wiring is modelled (the live server runs with EnablePlugins); the graphql/endpoint plugin clients of Serve need a Go plugin file and are not started; ReadOnly/NoJobs servers are not run",
        "ProxyAuth (trusted header) is not exercised; BasicAuth is, with 8 credential variants in the thorough tier",
        "the error code of a refusal is left open (any non-OK status); a call the policy grants may still be refused when accounts are configured ('only if'), this is counted in notes",
        "consultations seen by the spies refine the signature of a divergence; a verdict needs a contradiction with credentials/policy/what the client sent",
    ]
