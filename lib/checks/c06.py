"""C06 - no request can crash the server (Requests.tla).

TLC generates the space of wire-valid, semantically arbitrary traversal requests (clauses a-f, h of
Requests.tla); each request is executed through the production path (Compile + pipeline.Run) in a
sacrificial worker process.  The specification's only behaviours are 'rows' or 'error' with the
server still up: a worker that dies with a Go panic, a recovered panic on the request goroutine or a
reproduced hang is a divergence whose signature is the crash site.  Edit requests (clause g) are
driven through the in-process server handlers by the bulk-load family (C18)."""
import json, os
import travrun, travcmp
from vlib import Inconclusive


def run(ctx):
    plan = [("Requests_quick.cfg", None, None), ("Requests_sim.cfg", "num=60", 7)] if ctx.tier == "quick" else \
           [("Requests_thorough.cfg", None, None), ("Requests_sim.cfg", "num=6000", 7)]
    total = 0
    outcomes = dict(rows=0, error=0)
    for cfg, sim, depth in plan:
        res = ctx.tlc("requests", "Requests", cfg, simulate=sim, depth=depth, timeout=1500)
        graphs = res.msgs["graphs"][0]
        reqs = res.msgs.get("req", [])
        seen, states = set(), []
        for r in reqs:
            k = json.dumps(r, sort_keys=True)
            if k not in seen:
                seen.add(k)
                states.append(r)
        if not states:
            raise Inconclusive("no requests generated")
        states = travrun.thin(ctx, states, 60 if ctx.tier == "quick" else 600)
        outs = travrun.replay(ctx, graphs, states, only="prod", tag=cfg.split(".")[0], timeout=3000)
        for i, s in enumerate(states):
            o = outs[i]
            kind = next((b for b in ("crash", "hang", "died") if b in o), None)
            if kind == "died":
                raise Inconclusive("a worker died without a Go panic (killed by the OS?) on %s" % json.dumps(s["prog"]))
            p = o.get("prod") or {}
            if kind is None and p.get("panic"):
                kind, site = "panic", p["panic"][:120]
            elif kind:
                site = o[kind]
            if kind:
                ctx.diverge("request %s: %s" % (kind, site), "a wire-valid request made the engine %s" % kind,
                            dict(graph=s["g"], prog=s["prog"], wire=None, site=site, trace=(o.get("trace") or "")[:2500]))
                continue
            if "wire_err" in o:
                continue   # not accepted by the wire format: outside the property's space
            outcomes["error" if p.get("err") else "rows"] += 1
        total += len(states)
        for s in states[:: max(1, len(states) // 3)]:
            ctx.sample(dict(graph=s["g"], prog=s["prog"]))
    ctx.cov.update(evaluations=total, distinct_nontrivial=outcomes["rows"], traces_validated_against_impl=total,
                   exhaustive=(ctx.tier == "quick"), outcomes=outcomes,
                   rule="every request of the Requests.tla space (each statement kind incl. ~230 ill-typed condition arguments directly after "
                        "each start; all pairs of odd/core statements; grid x core) on an empty and a populated graph, run through Compile + "
                        "pipeline.Run in a worker process; non-trivial = requests that compile and return rows")
    ctx.assumptions += ["a hang is reported only if it reproduces on a fresh worker; a worker that dies without a Go panic is inconclusive, not a violation",
                        "edit requests (clause g) are exercised by the C18 family through the server handlers"]
