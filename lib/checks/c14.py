"""C14 - the MongoDB compiler preserves typing and filter meaning.

Filter half.  MongoGrid.tla enumerates the C08 grid of has() expressions (12 operators x 25
arguments, ternary/empty and/or, conditions on _gid/_label, every and/or/not nesting to the
tier's depth over a 6-condition basis) and prints, per expression, the scalar documents HasSem
(the meaning validated against the core evaluator by C08) keeps.  The REAL Mongo compiler
(mongo.VerifCompile, no database) compiles V().has(e); the $match document it emitted is
normalised and handed back to TLC, where MongoEval.tla evaluates it with MongoSem (the standard
meaning of $and/$or/$nor/$not/$eq/$ne/$gt/$gte/$lt/$lte/$in/$nin/$exists/$elemMatch, written
down independently of grip) on the Mongo documents the real PackVertex produced.  The verdict
is therefore about the emitted document and is decided by the specification.

Typing half.  MongoTyping.tla (the typing judgement of Traversal.tla) enumerates all statement
sequences over the statements the Mongo compiler supports, marks defined before use; the Mongo
compiler and core.NewCompiler(nil) must both accept/reject, type the result and type the marks
exactly as the specification does."""
import json
from concurrent.futures import ThreadPoolExecutor
from vlib import Inconclusive

ORDERING = {"gt", "gte", "lt", "lte", "inside", "outside", "between"}
BOUNDS = {"inside", "outside", "between"}
SIG_ORDER = "mongo filter ordering type-bracketed (no numeric cast)"
SIG_BOUNDS = "mongo filter bounds-malformed-argument"


def malformed_bounds(e):
    return [l for l in leaves(e) if l["op"] in BOUNDS and not (l["arg"][0] == "l" and len(l["arg"][1]) == 2)]


def kind(v):
    t = v[0]
    if t == "s" and v[1] in ("-1", "0", "1", "2"):
        return "numtext"
    return {"b": "bool", "n": "num", "s": "str", "l": "list", "m": "map"}.get(t, t)


def canon(x):
    return json.dumps(x, sort_keys=True, separators=(",", ":"))


def leaf_sig(op, arg, docval, got):
    g = "match" if got else "nomatch"
    if op in BOUNDS and not (arg[0] == "l" and len(arg[1]) == 2):
        return SIG_BOUNDS
    if op in ORDERING:
        operands = arg[1] if op in BOUNDS else [arg]
        if kind(docval) != "num" or any(kind(a) != "num" for a in operands):
            return SIG_ORDER
    if op == "contains" and got and kind(docval) not in ("list",):
        return "mongo filter contains-matches-scalar"
    return "mongo filter cond %s val=%s arg=%s got=%s" % (op, kind(docval), kind(arg), g)


def leaves(e):
    if e["t"] == "c":
        yield e
    elif e["t"] == "not":
        yield from leaves(e["e"])
    else:
        for x in e["es"]:
            yield from leaves(x)


def children(e):
    if e["t"] == "not":
        return [e["e"]]
    if e["t"] in ("and", "or"):
        return list(e["es"])
    return []


def shape(e):
    ch = sorted({c["t"] for c in children(e) if c["t"] != "c"})
    return e["t"] + (">" + "|".join(ch) if ch else "") + ("(empty)" if e["t"] in ("and", "or") and not e["es"] else "")


def ops_of(prog):
    return ">".join(s["op"] for s in prog)


# ------------------------------------------------------------------------------------- filters
def filter_half(ctx, build):
    cfg = "MongoGrid_quick.cfg" if ctx.tier == "quick" else "MongoGrid_thorough.cfg"
    res = ctx.tlc("mongofilter", "MongoGrid", cfg, workers=8, timeout=900, label="has() grid with HasSem keep sets")
    docs = res.msgs["docs"][0]
    cases = res.msgs.get("case", [])
    if not cases:
        raise Inconclusive("no has() cases emitted")
    ndocs = len(docs)
    lines = [dict(i=0, mode="docs", docs=docs)] + [dict(i=i + 1, mode="has", e=c["e"], key=c["key"]) for i, c in enumerate(cases)]
    inp = ctx.write_ndjson("c14_has_in.ndjson", lines)
    outp = inp.replace("_in", "_out")
    build.result()
    ctx.harness(["mongoc", "-j", "8"], input_path=inp, output_path=outp)
    out = {o["i"]: o for o in ctx.read_ndjson(outp) if "i" in o}
    if len(out) != len(lines):
        raise Inconclusive("harness answered %d of %d requests" % (len(out), len(lines)))
    mdocs = out[0].get("mdocs")
    if not mdocs or len(mdocs) != ndocs:
        raise Inconclusive("harness did not pack the documents: %s" % str(out[0])[:300])

    seen = set()

    def diverge_once(sig, what, replay, key):
        if (sig, key) not in seen:
            seen.add((sig, key))
            ctx.diverge(sig, what, replay)

    evalc = []
    for i, c in enumerate(cases):
        o = out[i + 1]
        e = c["e"]
        for bad in ("crash", "hang"):
            if bad in o:
                diverge_once("mongo filter %s: %s" % (bad, o[bad]), "compiling V().has(e) with the Mongo compiler made the process %s" % bad,
                             dict(expr=e, key=c["key"], outcome=o), "")
        if "wire_err" in o:
            raise Inconclusive("has-expression not accepted by the wire format: %s %s" % (o["wire_err"], canon(e)))
        if "crash" in o or "hang" in o:
            continue
        m, k = o["mongo"], o["core"]
        if not k.get("ok"):
            diverge_once("core typing rejects V>has", "the core compiler does not accept V().has(e)", dict(expr=e, core=k), "")
            continue
        if m.get("panic"):
            short = [l for l in leaves(e) if l["op"] in BOUNDS and l["arg"][0] == "l" and len(l["arg"][1]) < 2]
            sig = "mongo filter bounds-short-list panic" if short else "mongo filter panic at %s" % m.get("trace", "?")
            diverge_once(sig, "the Mongo compiler panics (%s) on a has-expression the core engine accepts and evaluates" % m["panic"],
                         dict(expr=e, key=c["key"], panic=m["panic"], site=m.get("trace")), canon(short[:1]))
            continue
        if not m.get("ok"):
            diverge_once("mongo typing rejects V>has", "the Mongo compiler rejects V().has(e) which core accepts: %s" % m.get("err"),
                         dict(expr=e, mongo=m), "")
            continue
        if m.get("type") != "vertex" or k.get("type") != "vertex":
            diverge_once("mongo typing result-type has", "V().has(e) is typed %s by mongo and %s by core" % (m.get("type"), k.get("type")),
                         dict(expr=e, mongo=m, core=k), "")
        if "shape_err" in o or "f" not in o or "mix" not in o:
            raise Inconclusive("compiled pipeline of V().has(e) not understood: %s" % str(o)[:400])
        evalc.append(dict(i=i + 1, e=e, key=c["key"], f=o["f"], mix=o["mix"]))

    if not evalc:
        raise Inconclusive("no filter document to evaluate")
    files = {"c14_cases.ndjson": "\n".join(json.dumps(x, separators=(",", ":")) for x in evalc) + "\n",
             "c14_docs.ndjson": json.dumps(dict(docs=docs, mdocs=mdocs), separators=(",", ":")) + "\n"}
    ev = ctx.tlc("mongofilter", "MongoEval", "MongoEval.cfg", workers=8, timeout=1500, files=files,
                 label="MongoSem on the emitted $match documents vs HasSem")
    rs = {r["i"]: r for r in ev.msgs.get("r", [])}
    if len(rs) != len(evalc):
        raise Inconclusive("TLC evaluated %d of %d emitted filter documents" % (len(rs), len(evalc)))

    nontrivial = 0
    struct_bad = {}
    for x in evalc:
        c, r, o = cases[x["i"] - 1], rs[x["i"]], out[x["i"]]
        e = x["e"]
        hs, opn, ms, alg = set(r["hs"]), set(r["open"]), set(r["ms"]), set(r["alg"])
        if hs != set(c["keep"]) or opn != set(c["open"]):
            raise Inconclusive("expression changed on the way through the harness (HasSem before %s / after %s): %s"
                               % (sorted(c["keep"]), sorted(hs), canon(e)))
        if 0 < len(hs) < ndocs:
            nontrivial += 1
        if x["i"] % 499 == 0 or (e["t"] != "c" and len(ctx.cov["samples"]) < 2):
            ctx.sample(dict(expr=e, key=x["key"], emitted_match=o.get("raw"), hassem_keeps=sorted(hs), mongosem_selects=sorted(ms), open=sorted(opn)))
        prob = [tuple(p) for p in r["prob"]]
        if any(p[0] == "unsupported" for p in prob + [tuple(p) for p in r["mprob"]]):
            raise Inconclusive("the emitted filter uses something MongoSem does not model: %s in %s" % (prob or r["mprob"], o.get("raw")))
        if prob:
            if len(opn) == ndocs:
                continue   # e.g. within(non-list): the documentation leaves the whole expression open
            empties = any(p[1].startswith("$and/$or/$nor") for p in prob)
            sig = "mongo filter empty-and-or invalid-document" if empties else "mongo filter invalid-document: %s" % prob[0][1]
            diverge_once(sig, "the emitted $match document is one a MongoDB server refuses (%s) although the core engine evaluates the "
                              "expression" % prob[0][1], dict(expr=e, key=x["key"], emitted=o.get("raw"), hassem_keeps=sorted(hs)), shape(e))
            continue
        bad = (ms ^ hs) - opn
        if not r["mprob"] and ms != alg:
            struct_bad[canon(e)] = (e, x, sorted(ms), sorted(alg), o.get("raw"))
        explained = set()
        for b in r["lb"]:
            d = b["d"]
            explained.add(d)
            dv = docs[d - 1]["x"] if x["key"] == "x" else docs[d - 1][{"_gid": "id", "_label": "label"}[x["key"]]]
            sig = leaf_sig(b["op"], b["arg"], dv, b["got"])
            diverge_once(sig, "has(%s(%s, %s)) on field value %s: the emitted filter %s the document, the core engine's evaluation %s it"
                         % (b["op"], x["key"], json.dumps(b["arg"]), json.dumps(dv), "selects" if b["got"] else "does not select",
                            "drops" if b["got"] else "keeps"),
                         dict(cond=dict(op=b["op"], arg=b["arg"], key=x["key"]), doc=docs[d - 1], mongo_doc=mdocs[d - 1], filter_selects=b["got"],
                              seen_in_expr=e, emitted=o.get("raw")), canon([b["op"], b["arg"], d]))
        if canon(e) not in struct_bad and bad - explained:
            diverge_once("mongo filter unexplained difference at %s" % shape(e), "the emitted filter selects other documents than HasSem keeps",
                         dict(expr=e, emitted=o.get("raw"), hassem_keeps=sorted(hs), mongosem_selects=sorted(ms)), canon(e))

    # Boolean structure: report only expressions none of whose sub-expressions is already wrong
    def has_bad_sub(e):
        return any(canon(c) in struct_bad or has_bad_sub(c) for c in children(e))
    for key, (e, x, ms, alg, raw) in sorted(struct_bad.items()):
        if has_bad_sub(e):
            continue
        diverge_once(SIG_BOUNDS if malformed_bounds(e) else "mongo filter boolean-structure %s" % shape(e),
                     "the document emitted for the whole expression selects other documents than the Boolean combination of the documents "
                     "emitted for its conditions", dict(expr=e, key=x["key"], emitted=raw, selects=ms, combination_of_leaves=alg), "")
    return dict(n=len(cases), evaluated=len(evalc), ndocs=ndocs, nontrivial=nontrivial)


# ------------------------------------------------------------------------------------- typing
def typing_sig(party, prog, want, got, pre_ty):
    s = prog[-1]
    op = s["op"]
    if got.get("panic"):
        return "%s typing panic at %s" % (party, got.get("trace", "?"))
    if want["status"] == "rejected" and got.get("ok"):
        if op in ("hasLabel", "hasId", "hasKey") and not (s.get("labels") or s.get("ids") or s.get("keys")):
            return "%s typing accepts-empty-%s" % (party, op)
        if len(prog) == 1:
            return "%s typing accepts-non-V/E-first-statement" % party
        if op == "as":
            return "%s typing accepts-invalid-mark-name" % party
        if op == "select":
            return "%s typing accepts-empty-select" % party
        return "%s typing accepts %s after %s" % (party, op, pre_ty)
    if want["status"] == "ok" and not got.get("ok"):
        return "%s typing rejects %s after %s" % (party, op, pre_ty)
    if want["status"] == "ok" and got.get("type") != want["ty"]:
        return "%s typing result-type %s after %s" % (party, op, pre_ty)
    return "%s typing mark-types after %s" % (party, op)


def typing_gen(ctx):
    cfg = "MongoTyping_quick.cfg" if ctx.tier == "quick" else "MongoTyping_thorough.cfg"
    res = ctx.tlc("mongofilter", "MongoTyping", cfg, workers=8, timeout=1500, label="typing judgement over the supported statements")
    progs = res.msgs.get("prog", [])
    # marks x moves, one statement deeper (both tiers)
    res = ctx.tlc("mongofilter", "MongoTyping", "MongoTyping_marks.cfg", workers=8, timeout=1500, label="typing judgement: marks and moves to depth 4")
    seen = {canon(p["prog"]) for p in progs}
    progs += [p for p in res.msgs.get("prog", []) if canon(p["prog"]) not in seen]
    return progs


def typing_half(ctx, progs):
    if not progs:
        raise Inconclusive("no programs emitted")
    for p in progs:
        if not isinstance(p["mt"], dict):
            p["mt"] = {}      # TLC prints the empty function as []
    inp = ctx.write_ndjson("c14_prog_in.ndjson", [dict(i=i, mode="prog", prog=p["prog"]) for i, p in enumerate(progs)])
    outp = inp.replace("_in", "_out")
    ctx.harness(["mongoc", "-j", "8"], input_path=inp, output_path=outp, timeout=1500)
    out = {o["i"]: o for o in ctx.read_ndjson(outp) if "i" in o}
    if len(out) != len(progs):
        raise Inconclusive("harness answered %d of %d programs" % (len(out), len(progs)))
    spec_of = {canon(p["prog"]): p for p in progs}
    differs = {"mongo": {}, "core": {}}
    accepted = 0
    for i, p in enumerate(progs):
        o = out[i]
        if "wire_err" in o:
            raise Inconclusive("program not accepted by the wire format: %s %s" % (o["wire_err"], canon(p["prog"])))
        if p["status"] == "ok":
            accepted += 1
        if i % 9973 == 0:
            ctx.sample(dict(prog=ops_of(p["prog"]), spec=dict(status=p["status"], type=p["ty"], marks=p["mt"]),
                            mongo={k: o.get("mongo", {}).get(k) for k in ("ok", "type", "marks", "stages")},
                            core={k: o.get("core", {}).get(k) for k in ("ok", "type", "marks")}), limit=10)
        for party in ("mongo", "core"):
            if "crash" in o or "hang" in o:
                got = dict(panic=o.get("crash") or o.get("hang"), trace=o.get("crash") or "hang")
            else:
                got = o[party]
            if got.get("panic"):
                same = False
            elif p["status"] == "rejected":
                same = not got.get("ok")
            else:
                same = bool(got.get("ok")) and got.get("type") == p["ty"] and (got.get("marks") or {}) == p["mt"]
            if not same:
                differs[party][canon(p["prog"])] = (p, got)
    for party in ("mongo", "core"):
        for key, (p, got) in sorted(differs[party].items(), key=lambda kv: (len(kv[1][0]["prog"]), kv[0])):
            prog = p["prog"]
            if any(canon(prog[:n]) in differs[party] for n in range(1, len(prog))):
                continue    # a prefix already differs: same root cause
            pre = spec_of.get(canon(prog[:-1]))
            pre_ty = pre["ty"] if pre else "none"
            sig = typing_sig(party, prog, p, got, pre_ty)
            other = "mongo" if party == "core" else "core"
            ctx.diverge(sig, "%s: the %s compiler %s; the typing rules say %s" % (
                ops_of(prog), party,
                ("panics: %s" % got["panic"]) if got.get("panic") else
                ("accepts it with type %s marks %s" % (got.get("type"), got.get("marks") or {})) if got.get("ok") else ("rejects it: %s" % got.get("err")),
                ("accepted, type %s marks %s" % (p["ty"], p["mt"])) if p["status"] == "ok" else "rejected"),
                dict(prog=prog, spec=dict(status=p["status"], type=p["ty"], marks=p["mt"]), **{party: got}))
    return dict(n=len(progs), accepted=accepted)


def run(ctx):
    # the harness build and the generation of the typed programs do not depend on the filter half
    with ThreadPoolExecutor(max_workers=2) as pool:
        build = pool.submit(ctx.build_harness, "mongoc")
        gen = pool.submit(typing_gen, ctx)
        try:
            f = filter_half(ctx, build)
            t = typing_half(ctx, gen.result())
        finally:
            for fut in (build, gen):
                try:
                    fut.result()
                except Exception:
                    pass
    depth = 1 if ctx.tier == "quick" else 2
    plen = 2 if ctx.tier == "quick" else 3
    ctx.cov.update(evaluations=f["evaluated"] * f["ndocs"] + t["n"] * 2, distinct_nontrivial=f["nontrivial"] + t["accepted"],
                   traces_validated_against_impl=f["evaluated"] + t["n"], exhaustive=True,
                   has_expressions=f["n"], filter_documents_evaluated_by_tlc=f["evaluated"], programs_typed=t["n"],
                   rule="filters: every expression of the MongoGrid.tla grid (12 operators x 25 arguments on x, eq/neq/within/without on "
                        "_gid/_label, ternary and empty and/or, all and/or/not nestings to depth %d over a 6-condition basis) x %d scalar "
                        "documents; the $match document emitted by the real compiler is evaluated by TLC (MongoSem) and compared with HasSem; "
                        "non-trivial = HasSem keeps some but not all documents.  typing: every statement sequence of MongoTyping.tla "
                        "(first statement + %d more over the full alphabet of supported statements, marks defined before use) compiled by "
                        "the Mongo compiler and by core; non-trivial = accepted programs" % (depth, f["ndocs"], plen))
    ctx.assumptions += [
        "no MongoDB server exists in the sandbox: the check stops at the compiled pipeline; the meaning of the emitted $match document is "
        "MongoSem in MongoFilter.tla, a transcription of the documented MongoDB query-operator semantics (type-bracketed comparison, "
        "$eq:null/$in:[null] match missing fields, $ne/$nin/$not match missing fields, $and/$or/$nor need a non-empty array, $in needs an array)",
        "field values are scalars or absent (the property's scope); array- and document-valued fields are not compared",
        "left open exactly as HasSem leaves them open (C08): eq/neq/within/without of an absent/null value against null, within/without "
        "with a non-list argument, contains(null)",
        "statements the Mongo compiler hands to the core engine (jump/set/increment), the bare mark statement, aggregations with duplicate "
        "names or without a type (core's own duplicate check is ineffective - C06), and marks used before they are defined are outside the alphabet",
        "numbers are integers; strings are compared by the byte order of a 10-string table",
    ]
