"""C11 - jobs faithfully store, resume and find traversals (Jobs.tla + Traversal.tla).

1. TLC enumerates Traversal.tla (the documented step-by-step semantics) over the tier's alphabet: every
   state is a (graph, program) with the description of its admissible result multisets.
2. The check builds pools of related queries out of those states (all prefixes of a program = all split
   points for resume, the same statements on another graph, siblings that share a prefix, and the
   program followed by an aggregation) and writes them as module JobsPool.
3. TLC checks Jobs.tla (search soundness/completeness, count = number of rows, deleted jobs absent,
   restart keeps complete jobs) on the bare state graph, and GENERATES behaviours (submit / finish /
   status / view / resume / search / list / delete / restart) by random walks.
4. harness/jobsh replays every behaviour on (a) jobstorage.NewFSJobStorage + the engine wired as
   server/job_manager.go wires them and (b) the GripServer job handlers in process.  Every answer is
   compared with the answer Jobs.tla specifies; stored / resumed rows are tested for membership in the
   admissible results of the Traversal.tla state (lib/travcmp.py) and, where the result is determinate,
   against a direct run of the same traversal.
5. The same machinery runs on generated star graphs whose result sizes straddle the worker-pool and
   buffer sizes of the job serializer (0, 1, 3, 4, 5, 39-41, thousands): JobsTrav.tla drives
   Traversal.tla through a fixed list of programs on those graphs.
"""
import json, os, math, itertools, time
from collections import Counter
import travcmp
from vlib import Inconclusive, SPEC

AGG_STEPS = [
    dict(op="aggregate", aggs=[dict(name="t", t="term", field="_label", size=10), dict(name="c", t="count")]),
    dict(op="aggregate", aggs=[dict(name="h", t="histogram", field="x", interval=1)]),
    dict(op="aggregate", aggs=[dict(name="f", t="field", field="_gid")]),
]
HIST_LEN = 16
SCALE = float(os.environ.get("VERIF_C11_SCALE", "1") or 1)   # developer aid: shrink the replayed sample of the thorough tier


def jkey(g, prog):
    return json.dumps([g, prog], sort_keys=True)


# ------------------------------------------------------------------ Traversal.tla states

def trav_states(ctx, cfgname, cfgtext, module="Traversal", family="traversal", files=None, timeout=900, label=""):
    fs = {cfgname: cfgtext}
    fs.update(files or {})
    res = ctx.tlc(family, module, cfgname, files=fs, workers=8, timeout=timeout, label=label)
    graphs = res.msgs.get("graphs", [None])[0]
    states = res.msgs.get("st", [])
    if not states or graphs is None:
        raise Inconclusive("TLC emitted no traversal states for %s" % cfgname)
    seen, uniq = set(), []
    for s in states:
        k = jkey(s["g"], s["prog"])
        if k not in seen:
            seen.add(k)
            uniq.append(s)
    return graphs, uniq


def trav_cfg(maxlen, graphs, alpha):
    return ("CONSTANTS\n  MaxLen = %d\n  GraphIdx = {%s}\n  Alpha = \"%s\"\nSPECIFICATION Spec\nINVARIANT TypeInv\n"
            "INVARIANT EmitState\nCHECK_DEADLOCK FALSE\n" % (maxlen, ", ".join(str(g) for g in graphs), alpha))


def sizes_of(state, cap=4000):
    """the sizes the admissible result multisets of a Traversal.tla state can have (None: too many choices)"""
    blocks = state.get("blocks") or []
    if state.get("counted"):
        return {state.get("cntKeep", 1)}
    if not blocks:
        return {len(state["rows"])}
    per = Counter(r["org"] for r in state["rows"])
    if all(len({per.get(o, 0) for o in b["orgs"]}) == 1 for b in blocks):
        return {sum(b["pick"] * per.get(b["orgs"][0], 0) for b in blocks)}
    n = 1
    for b in blocks:
        n *= math.comb(len(b["orgs"]), b["pick"])
        if n > cap:
            return None
    return {sum(per.get(o, 0) for o in sel) for sel in travcmp.selections(blocks)}


def features(s):
    ops = [st["op"] for st in s["prog"]]
    f = [s["ty"]]
    if s.get("counted"):
        f.append("counted")
    if s.get("blocks"):
        f.append("open")
    for o in ("as", "select", "unwind", "fields", "distinct"):
        if o in ops:
            f.append(o)
    if any(st["op"] == "has" and "$" in json.dumps(st) for st in s["prog"]):
        f.append("markref")
    if not s["rows"]:
        f.append("empty")
    return tuple(f)


class Entry:
    def __init__(self, g, prog, sid, cnts):
        self.g, self.prog, self.sid, self.cnts = g, prog, sid, cnts


class PoolBuilder:
    """pools of related queries out of Traversal.tla states"""

    def __init__(self, ctx, states, agg=True):
        self.ctx, self.states, self.agg = ctx, states, agg
        self.idx, self.kids, self.graphs, self.stepids = {}, {}, [], {}
        new = list(states)
        del states[:]
        self.extend(new)

    def extend(self, more):
        """add states (first description of a (graph, program) wins); -> index of the first added state"""
        lo = len(self.states)
        for s in more:
            k = jkey(s["g"], s["prog"])
            if k in self.idx:
                continue
            i = len(self.states)
            self.states.append(s)
            self.idx[k] = i
            if s["status"] == "ok" and len(s["prog"]) > 1:
                self.kids.setdefault(jkey(s["g"], s["prog"][:-1]), []).append(i)
        self.graphs = sorted({s["g"] for s in self.states})
        return lo

    def ok(self, g, prog):
        i = self.idx.get(jkey(g, prog))
        if i is None or self.states[i]["status"] != "ok":
            return None
        return i

    def entry(self, g, prog):
        i = self.ok(g, prog)
        if i is None:
            return None
        c = sizes_of(self.states[i])
        if c is None:
            return None
        return Entry(g, prog, i, c)

    def pool_for(self, si):
        rng = self.ctx.rng
        s = self.states[si]
        g, P = s["g"], s["prog"]
        L = len(P)
        out, have = [], set()

        def add(e):
            if e is None:
                return False
            k = jkey(e.g, e.prog)
            if k in have:
                return True
            have.add(k)
            out.append(e)
            return True
        for k in range(1, L + 1):                      # every prefix: all split points
            if not add(self.entry(g, P[:k])):
                return None
        others = [x for x in self.graphs if x != g]    # the same statements on another graph
        rng.shuffle(others)
        for g2 in others:
            if self.ok(g2, P[:2]) is not None:
                for k in range(2, L + 1):
                    if not add(self.entry(g2, P[:k])):
                        break
                break
        for depth in sorted({L - 1, 1}):               # siblings sharing a prefix
            sibs = [i for i in self.kids.get(jkey(g, P[:depth]), []) if self.states[i]["prog"] != P[:depth + 1]
                    and self.states[i]["prog"][-1]["op"] != "distinct"]
            if sibs:
                sib = self.states[rng.choice(sibs)]
                if add(self.entry(g, sib["prog"])) and depth + 1 < L:
                    more = [i for i in self.kids.get(jkey(g, sib["prog"]), []) if self.states[i]["prog"][-1]["op"] != "distinct"]
                    if more:
                        add(self.entry(g, self.states[rng.choice(more)]["prog"]))
        if self.agg:                                    # ... followed by an aggregation
            cands = []
            for k in range(1, L + 1):
                st = self.states[self.idx[jkey(g, P[:k])]]
                if st["ty"] in ("vertex", "edge") and not st.get("counted") and not st.get("blocks"):
                    cands.append(k)
            rng.shuffle(cands)
            for k in cands[:2]:
                add(Entry(g, P[:k] + [rng.choice(AGG_STEPS)], -1, {-2}))
        return out

    def build(self, npools, minlen=3, heavy_cap=3, among=None):
        """heavy_cap: distinct() opens a temporary Badger store per job (never closed by Submit): few of them"""
        among = range(len(self.states)) if among is None else among
        cands = [i for i in among if self.states[i]["status"] == "ok" and len(self.states[i]["prog"]) >= minlen]
        heavy = [i for i in cands if any(st["op"] == "distinct" for st in self.states[i]["prog"])]
        self.ctx.rng.shuffle(heavy)
        drop = set(heavy[heavy_cap:])
        cands = [i for i in cands if i not in drop]
        maxl = max(len(self.states[i]["prog"]) for i in cands)
        buckets = {}
        for i in cands:
            s = self.states[i]
            if len(s["prog"]) < maxl and self.ctx.rng.random() < 0.7:
                continue
            buckets.setdefault(features(s), []).append(i)
        keys = sorted(buckets)
        for k in keys:
            self.ctx.rng.shuffle(buckets[k])
        pools, tried = [], 0
        while len(pools) < npools and keys:
            for k in list(keys):
                if not buckets[k]:
                    keys.remove(k)
                    continue
                p = self.pool_for(buckets[k].pop())
                tried += 1
                if p:
                    pools.append(p)
                if len(pools) >= npools:
                    break
        return pools

    def sid_of_step(self, st):
        k = json.dumps(st, sort_keys=True)
        if k not in self.stepids:
            self.stepids[k] = len(self.stepids) + 1
        return self.stepids[k]

    def module(self, pools):
        lines = ["---------------------------- MODULE JobsPool ----------------------------",
                 "(* generated by lib/checks/c11.py from Traversal.tla states *)",
                 "EXTENDS Integers",
                 "QE(g, q, sid, cnts) == [g |-> g, q |-> q, sid |-> sid, cnts |-> cnts]",
                 "Pools == <<"]
        ptxt = []
        for p in pools:
            es = []
            for e in p:
                q = ", ".join(str(self.sid_of_step(st)) for st in e.prog)
                es.append("QE(%d, <<%s>>, %d, {%s})" % (e.g, q, e.sid, ", ".join(str(c) for c in sorted(e.cnts))))
            ptxt.append("  << " + ",\n     ".join(es) + " >>")
        lines.append(",\n".join(ptxt))
        lines.append(">>")
        lines.append("=======================================================================")
        return "\n".join(lines) + "\n"


# ------------------------------------------------------------------ behaviours

def gen_behaviours(ctx, pools_module, num, depth, timeout=600, label=""):
    res = ctx.tlc("jobs", "Jobs", "Jobs_sim.cfg", files={"JobsPool.tla": pools_module}, workers=8,
                  simulate="num=%d" % num, depth=depth, timeout=timeout, label=label, count=False)
    behs, seen = [], set()
    for b in res.msgs.get("beh", []):
        k = json.dumps(b, sort_keys=True)
        if k not in seen:
            seen.add(k)
            behs.append(b)
    if not behs:
        raise Inconclusive("TLC generated no job behaviours")
    return behs, res


def gen_systematic(ctx, pools_module, timeout=900):
    """exhaustive (breadth-first) exploration of Jobs.tla restricted to submit, finish, [restart,] resume:
    every job of every pool resumed with every continuation the pool holds"""
    res = ctx.tlc("jobs", "Jobs", "Jobs_sys.cfg", files={"JobsPool.tla": pools_module}, workers=8, timeout=timeout,
                  label="systematic resumes", count=False)
    behs, seen = [], set()
    for b in res.msgs.get("beh", []):
        k = json.dumps([b["pool"], [{x: y for x, y in e.items() if x != "n"} for e in b["hist"]]], sort_keys=True)
        if k not in seen:
            seen.add(k)
            behs.append(b)
    if not behs:
        raise Inconclusive("TLC generated no systematic resume behaviours")
    return behs


def reads_marks(ext):
    return any(st["op"] == "select" for st in ext) or "$" in json.dumps(ext)


def select_systematic(ctx, behs, pools, states, src, quick):
    """The enumeration holds every (job, continuation) of every pool, on every graph, directly (sfr), after a
    restart (sfXr) and after another resume (sfrr).  Thorough: all single resumes and a large sample of the
    double ones.  Quick: one graph per distinct (job statements, extension statements) - preferring a graph on
    which the concatenated traversal returns rows -, a sample of the restarts and of the double resumes (first
    those whose first extension sets a mark again and whose second reads marks)."""
    rng = ctx.rng
    single, restart, double = {}, {}, {}
    for b in behs:
        pool, h = pools[b["pool"] - 1], b["hist"]
        job = pool[h[0]["p"] - 1]
        shape = [e["op"] for e in h]
        scaled = src[b["pool"] - 1] == "scaled"
        gk = job.g if scaled else 0                       # on the star graphs the size is the point
        if shape[2:] == ["resume"] or shape[2:] == ["restart", "resume"]:
            ent = pool[h[-1]["p"] - 1]
            k = json.dumps([gk, job.prog, ent.prog[len(job.prog):]], sort_keys=True)
            nonempty = ent.sid < 0 or bool(states[ent.sid]["rows"])
            (single if len(shape) == 3 else restart).setdefault((src[b["pool"] - 1], k), []).append((nonempty, b))
        else:
            e1 = pool[h[2]["p"] - 1].prog[len(job.prog):]
            e2 = pool[h[3]["p"] - 1].prog[len(job.prog):]
            marked = {st["name"] for st in job.prog if st["op"] == "as"}
            again = any(st["op"] == "as" and st["name"] in marked for st in e1)
            pr = 2 if (again and reads_marks(e2)) else 1 if (any(st["op"] == "as" for st in e1) and reads_marks(e2)) else 0
            k = json.dumps([gk, job.prog, e1, e2], sort_keys=True)
            double.setdefault((pr, k), []).append((True, b))

    def one(cands):
        good = [b for ok, b in cands if ok] or [b for ok, b in cands]
        return rng.choice(good)

    def sample(d, n, pred=lambda key: True):
        keys = sorted(k for k in d if pred(k))
        rng.shuffle(keys)
        return [one(d[k]) for k in keys[:n]]
    if not quick:
        out = []
        for d, share in ((single, 1.0), (restart, 0.5)):
            for k in sorted(d):
                if rng.random() > share:
                    continue
                if k[0] in ("curated", "scaled"):
                    out += [b for ok, b in d[k]]             # every graph
                else:
                    out.append(one(d[k]))                    # enumerated alphabets: one graph per distinct pair
        top = sorted(k for k in double if k[0] == 2)
        rest = sorted(k for k in double if k[0] < 2)
        rng.shuffle(top)
        rng.shuffle(rest)
        n2 = int(3000 * SCALE)
        out += [one(double[k]) for k in (top[:n2 * 2 // 3] + rest)[:n2]]
        rng.shuffle(out)
        return out[:int(9000 * SCALE)]
    out = sample(single, 420, lambda k: k[0] == "curated") + sample(single, 120, lambda k: k[0] == "narrow2") \
        + sample(single, 110, lambda k: k[0] == "scaled") + sample(restart, 110)
    top = sorted(k for k in double if k[0] == 2)
    rng.shuffle(top)
    out += [one(double[k]) for k in top[:110]]
    out += sample(double, 50, lambda k: k[0] < 2)
    return out


def as_list(x):
    return x if isinstance(x, list) else []


def pick_behaviours(ctx, behs, cap):
    """TLC's random walk evaluates every candidate last call: keep at most two behaviours per common
    prefix, then a seeded sample spread over the pools"""
    groups = {}
    for b in behs:
        groups.setdefault(json.dumps([b["pool"], b["hist"][:-1]], sort_keys=True), []).append(b)
    kept = []
    for k in sorted(groups):
        g = groups[k]
        ctx.rng.shuffle(g)
        kept += g[:2]
    by_pool = {}
    for b in kept:
        by_pool.setdefault(b["pool"], []).append(b)
    for p in by_pool:
        ctx.rng.shuffle(by_pool[p])
    out = []
    while len(out) < cap and by_pool:
        for p in sorted(by_pool):
            if by_pool[p]:
                out.append(by_pool[p].pop())
            if len(out) >= cap:
                break
        by_pool = {p: v for p, v in by_pool.items() if v}
    return out


def request_steps(pool, hist):
    steps = []
    jobs = {}
    for e in hist:
        op = e["op"]
        if op == "submit":
            ent = pool[e["p"] - 1]
            jobs[e["j"]] = ent
            steps.append(dict(op="submit", j=e["j"], g=ent.g, prog=ent.prog))
        elif op in ("finish", "status", "delete"):
            steps.append(dict(op=op, j=e["j"]))
        elif op == "view":
            steps.append(dict(op="view", j=e["j"], direct=True))
        elif op == "resume":
            ent = pool[e["p"] - 1]
            steps.append(dict(op="resume", j=e["j"], ext=ent.prog[e["from"]:], direct=True))
        elif op == "search":
            steps.append(dict(op="search", g=e["g"], prog=pool[e["p"] - 1].prog))
        elif op == "list":
            steps.append(dict(op="list", g=e["g"]))
        elif op == "restart":
            steps.append(dict(op="restart"))
        else:
            raise Inconclusive("unknown call %s in a generated behaviour" % op)
    return steps


# ------------------------------------------------------------------ judgement

def short(msg):
    import re
    msg = re.sub(r'0x[0-9a-f]+', '0x?', msg or "")
    msg = re.sub(r'job-\d+', 'job-N', msg)
    return msg[:90]


def ops(prog):
    return ">".join(s["op"] for s in prog)


def ext_shape(ty, ext):
    """what the resumed answer needs of the stored travelers (root-cause oriented)"""
    txt = json.dumps(ext)
    parts = []
    if any(s["op"] == "select" for s in ext) or "$" in txt:
        parts.append("marks")
    if any(s["op"] == "path" for s in ext) or ty == "path":
        parts.append("path")
    if not parts:
        parts.append("current")
    return "+".join(parts)


def gone_sig(hist, k, j):
    """a deleted job answers again: right away, or only once the server has been restarted"""
    d = max(i for i in range(k) if hist[i]["op"] == "delete" and hist[i]["j"] == j)
    if any(hist[i]["op"] == "restart" for i in range(d, k)):
        return "jobs delete deleted-job-back-after-restart"
    return "jobs delete deleted-job-still-answers"


def resume_sig(shape, remarked):
    if remarked and "marks" in shape:
        return "jobs resume wrong-result reading marks after an earlier resume set marks"
    return "jobs resume wrong-result reading %s" % shape


def rows_vs_direct(rows, direct):
    if direct is None or direct.get("err") or direct.get("panic"):
        return None
    a = Counter(travcmp.canon_row(r) for r in rows)
    b = Counter(travcmp.canon_row(r) for r in direct.get("rows") or [])
    if a == b:
        return ""
    return travcmp.diff_kind(b, a)


def judge(pool, states, hist, obs):
    """-> None or (signature, what, step index): the FIRST answer of the real code that Jobs.tla does not allow"""
    fin, restarted, info, remarked, realids = {}, {}, {}, {}, set()
    for k, e in enumerate(hist):
        if k >= len(obs):
            raise Inconclusive("harness answered %d of %d calls" % (len(obs), len(hist)))
        o = obs[k]
        op = e["op"]
        if o.get("harness_err"):
            raise Inconclusive("jobsh: %s" % o["harness_err"])
        if o.get("panic"):
            return ("jobs %s panic: %s" % (op, short(o["panic"])), o.get("trace", "")[:1500], k)
        j = e.get("j")
        after = " after-restart" if restarted.get(j) else ""
        if op == "submit":
            info[j] = pool[e["p"] - 1]
            realids.add(o.get("id"))
            if o.get("err"):
                return ("jobs submit well-typed-rejected", o["err"][:200], k)
            if o.get("dup_id"):
                return ("jobs submit id-reused", "two live jobs got the same id", k)
        elif op == "finish":
            if o.get("timeout"):
                raise Inconclusive("a job did not reach COMPLETE within the deadline (state %s)" % o.get("state"))
            if o.get("err"):
                return ("jobs status job-missing", "status of a running job: %s" % o["err"], k)
            if o.get("state") != "COMPLETE":
                return ("jobs finish job-error", "job ended in state %s" % o.get("state"), k)
            ent = info[j]
            if ent.cnts != {-2} and o.get("count") not in ent.cnts:
                return ("jobs store count-not-admissible",
                        "status count %s, admissible %s for %s (%s)" % (o.get("count"), sorted(ent.cnts), ops(ent.prog), states[ent.sid]["ty"]), k)
            fin[j] = o.get("count")
            restarted[j] = False
        elif op == "status":
            if e["gone"]:
                if not o.get("err"):
                    return (gone_sig(hist, k, j), "a deleted job still has a status (%s)" % o.get("state"), k)
                continue
            if o.get("err"):
                return ("jobs restart job-missing" if after else "jobs status job-missing", o["err"][:100], k)
            if not (o.get("id_ok") and o.get("graph_ok")):
                return ("jobs status wrong-identity", "status names another job or graph", k)
            if e["state"] == "complete":
                if o.get("state") != "COMPLETE":
                    return ("jobs status state-regressed" + after, "complete job reported as %s" % o.get("state"), k)
                if o.get("count") != fin.get(j):
                    return ("jobs status count-changed" + after, "%s then %s" % (fin.get(j), o.get("count")), k)
            elif o.get("state") not in ("QUEUED", "RUNNING", "COMPLETE"):
                return ("jobs finish job-error", "job in state %s" % o.get("state"), k)
        elif op == "view":
            rows = o.get("rows") or []
            if e["gone"]:
                if rows:
                    return (gone_sig(hist, k, j), "%d rows read from a deleted job" % len(rows), k)
                continue
            ent = info[j]
            if o.get("err"):
                if "Not Found" in o["err"]:
                    return ("jobs restart job-missing" if after else "jobs view job-missing", o["err"][:100], k)
                return ("jobs view error" + after, short(o["err"]), k)
            ty = "aggregation" if ent.sid < 0 else states[ent.sid]["ty"]
            if len(rows) != fin.get(j):
                if after and not rows:
                    return ("jobs restart job-missing", "no rows after the restart, status count was %s" % fin.get(j), k)
                return ("jobs view row-count-differs-from-status-count (%s)" % ty, "%d rows, count %s" % (len(rows), fin.get(j)), k)
            if ent.sid >= 0:
                ok, kind = travcmp.allowed(states[ent.sid], rows)
                if not ok:
                    return ("jobs view wrong-result (%s)" % ty, "stored rows of %s are not an admissible result (%s)" % (ops(ent.prog), kind), k)
            if ent.sid < 0 or not states[ent.sid].get("blocks"):
                d = rows_vs_direct(rows, o.get("direct"))
                if d:
                    return ("jobs view wrong-result (%s)" % ty, "stored rows of %s differ from the direct run (%s)" % (ops(ent.prog), d), k)
        elif op == "resume":
            rows = o.get("rows") or []
            if e["gone"]:
                if rows:
                    return (gone_sig(hist, k, j), "%d rows from resuming a deleted job" % len(rows), k)
                continue
            ent = pool[e["p"] - 1]
            ext = ent.prog[e["from"]:]
            shape = ext_shape("aggregation" if ent.sid < 0 else states[ent.sid]["ty"], ext)
            if o.get("err"):
                if "Not Found" in o["err"]:
                    return ("jobs restart job-missing" if after else "jobs resume job-missing", o["err"][:100], k)
                if remarked.get(j) and "marks" in shape:
                    return (resume_sig(shape, True), "%s resumed with %s is rejected: %s" % (ops(info[j].prog), ops(ext), short(o["err"])), k)
                return ("jobs resume rejected reading %s" % shape, "%s resumed with %s: %s" % (ops(info[j].prog), ops(ext), short(o["err"])), k)
            ty = "aggregation" if ent.sid < 0 else states[ent.sid]["ty"]
            if ent.sid >= 0:
                ok, kind = travcmp.allowed(states[ent.sid], rows)
                if not ok:
                    return (resume_sig(shape, remarked.get(j)),
                            "%s resumed with %s is not an admissible result of the concatenated traversal (%s, %s)" % (ops(info[j].prog), ops(ext), ty, kind), k)
            jst = states[info[j].sid] if info[j].sid >= 0 else None
            if (ent.sid < 0 or not states[ent.sid].get("blocks")) and not (jst and jst.get("blocks")):
                d = rows_vs_direct(rows, o.get("direct"))
                if d:
                    return (resume_sig(shape, remarked.get(j)),
                            "%s resumed with %s differs from the direct run (%s, %s)" % (ops(info[j].prog), ops(ext), ty, d), k)
            if any(st["op"] == "as" for st in ext):
                remarked[j] = True
        elif op == "search":
            if o.get("err"):
                return ("jobs search error", short(o["err"]), k)
            want = {str(x) for x in as_list(e["ans"])}
            may = {str(x) for x in as_list(e.get("may", e["ans"]))}
            got = set(o.get("jobs") or [])
            q = pool[e["p"] - 1].prog
            for x in sorted(got - may):
                if x.startswith("?"):
                    if x.split("/", 1)[-1] in realids:
                        return ("jobs search returns-other-graph", "a job of %s for a search on g%s" % (x[1:].split("/")[0], e["g"]), k)
                    return ("jobs search returns-unknown-job", x, k)
                ent = info.get(int(x))
                gone_now = any(h["op"] == "delete" and h["j"] == int(x) for h in hist[:k])
                if gone_now:
                    return (gone_sig(hist, k, int(x)), "search returns the deleted job %s" % x, k)
                if ent.g != e["g"]:
                    return ("jobs search returns-other-graph", "job on g%s for a search on g%s" % (ent.g, e["g"]), k)
                if ent.prog != q[:len(ent.prog)]:
                    return ("jobs search returns-non-prefix", "%s for %s" % (ops(ent.prog), ops(q)), k)
                return ("jobs search returns-unexpected-job", "%s for %s" % (ops(ent.prog), ops(q)), k)
            for x in sorted(want - got):
                if restarted.get(int(x)):
                    return ("jobs restart job-missing", "search no longer finds job %s" % x, k)
                return ("jobs search misses-prefix-job", "%s not found for %s" % (ops(info[int(x)].prog), ops(q)), k)
        elif op == "list":
            if o.get("err"):
                return ("jobs list error", short(o["err"]), k)
            must = {str(x) for x in as_list(e["must"])}
            may = {str(x) for x in as_list(e["may"])}
            got = set(o.get("jobs") or [])
            for x in sorted(got - may):
                if not x.startswith("?") and any(h["op"] == "delete" and h["j"] == int(x) for h in hist[:k]):
                    return (gone_sig(hist, k, int(x)), "the deleted job %s is listed" % x, k)
                return ("jobs list foreign-job", x, k)
            for x in sorted(must - got):
                if restarted.get(int(x)):
                    return ("jobs restart job-missing", "complete job %s no longer listed" % x, k)
                return ("jobs list misses-complete-job", "job %s" % x, k)
        elif op == "delete":
            if o.get("err"):
                return ("jobs delete error", short(o["err"]), k)
        elif op == "restart":
            for x in fin:
                restarted[x] = True
            remarked.clear()
    return None


# ------------------------------------------------------------------ one campaign (pools -> behaviours -> replay -> judge)

class Campaign:
    def __init__(self, name, graphs, states, pools, builder):
        self.name, self.graphs, self.states, self.pools, self.builder = name, graphs, states, pools, builder


def replay_case(camp, b, mode):
    pool = camp.pools[b["pool"] - 1]
    used = sorted({e.sid for e in pool if e.sid >= 0})
    return dict(campaign=camp.name, mode=mode, graphs=camp.graphs, hist=b["hist"],
                pool=[dict(g=e.g, prog=e.prog, sid=e.sid, cnts=sorted(e.cnts)) for e in pool],
                states={str(i): camp.states[i] for i in used})


def run_campaign(ctx, camp, behs, jobs=10, tag="jobs", timeout=1500, per_request="90s", both=True, ngraphs=None):
    """both: every behaviour on both bindings; otherwise the bindings alternate"""
    reqs, meta = [], []
    for n, b in enumerate(behs):
        pool = camp.pools[b["pool"] - 1]
        steps = request_steps(pool, b["hist"])
        for mode in (("storage", "server") if both else (("storage", "server")[n % 2],)):
            reqs.append(dict(i=len(reqs), mode=mode, steps=steps))
            meta.append((b, mode))
    if not reqs:
        return Counter()
    lines = [dict(setup=True, graphs=camp.graphs[:ngraphs] if ngraphs else camp.graphs, driver="badger")] + reqs
    inp = ctx.write_ndjson("%s_in.ndjson" % tag, lines)
    outp = os.path.join(ctx.scratch, "%s_out.ndjson" % tag)
    ctx.harness(["jobsh", "-j", str(jobs), "-timeout", per_request], input_path=inp, output_path=outp, timeout=timeout)
    outs = {o["i"]: o for o in ctx.read_ndjson(outp) if "i" in o}
    if len(outs) != len(reqs):
        raise Inconclusive("jobsh answered %d of %d behaviours" % (len(outs), len(reqs)))
    stats = Counter()
    for i, (b, mode) in enumerate(meta):
        o = outs[i]
        pool = camp.pools[b["pool"] - 1]
        if o.get("harness_err"):
            raise Inconclusive("jobsh: %s" % o["harness_err"])
        if "died" in o:
            raise Inconclusive("a jobsh worker was killed")
        if "crash" in o or "hang" in o:
            kind = "crash" if "crash" in o else "hang"
            ctx.diverge("jobs %s: %s" % (kind, o[kind]), "the job machinery made the process %s" % kind,
                        dict(case=replay_case(camp, b, mode), trace=(o.get("trace") or "")[:3000]))
            stats["crash"] += 1
            continue
        v = judge(pool, camp.states, b["hist"], o.get("obs") or [])
        for e in b["hist"]:
            stats[e["op"]] += 1
        stats["calls"] += len(b["hist"])
        stats["runs_" + mode] += 1
        if v:
            sig, what, k = v
            ctx.diverge(sig, "%s [%s binding, call %d: %s]" % (what, mode, k + 1, b["hist"][k]["op"]),
                        dict(case=replay_case(camp, b, mode), call=k, spec=b["hist"][k], observed=(o.get("obs") or [None] * (k + 1))[k]))
            stats["diverging"] += 1
    return stats


def coverage_of(camp, behs):
    """measured: distinct (job traversal, split) resumes, result types of stored/viewed jobs, searches with answers"""
    resumes, types, sizes, searches = set(), Counter(), set(), 0
    for b in behs:
        pool = camp.pools[b["pool"] - 1]
        jobs = {}
        for e in b["hist"]:
            if e["op"] == "submit":
                jobs[e["j"]] = pool[e["p"] - 1]
            elif e["op"] == "finish":
                ent = jobs[e["j"]]
                types["aggregation" if ent.sid < 0 else camp.states[ent.sid]["ty"]] += 1
                sizes.add(e["n"])
            elif e["op"] == "resume" and not e["gone"]:
                ent = pool[e["p"] - 1]
                resumes.add(jkey(ent.g, ent.prog) + "@%d" % e["from"])
            elif e["op"] == "search" and as_list(e["ans"]):
                searches += 1
    return resumes, types, sizes, searches


# ------------------------------------------------------------------ curated programs and scaled graphs (JobsTrav.tla)

SCALED_SIZES_QUICK = [0, 1, 3, 4, 5, 39, 40, 41, 1200]
SCALED_SIZES_THOROUGH = [0, 1, 3, 4, 5, 39, 40, 41, 79, 80, 81, 2500, 5003]
NFAMILY = 7


def star_graph(n):
    """centre c (label C) with n leaves l<i> (label L, x = i mod 3) and edges c -> l<i> (label K, w = i mod 2)"""
    V = {"c": dict(label="C", data=["m", {"x": ["n", 0]}])}
    E = {}
    for i in range(1, n + 1):
        V["l%d" % i] = dict(label="L", data=["m", {"x": ["n", i % 3]}])
        E["k%d" % i] = dict(label="K", **{"from": "c", "to": "l%d" % i}, data=["m", {"w": ["n", i % 2]}])
    return dict(V=V, E=E)


def tla_value(v):
    t = v[0]
    if t == "n":
        return "N(%d)" % v[1]
    if t == "s":
        return 'S("%s")' % v[1]
    if t == "m":
        if not v[1]:
            return "EmptyMap"
        return "M([" + ", ".join("%s |-> %s" % (k, tla_value(x)) for k, x in sorted(v[1].items())) + "])"
    raise Inconclusive("tla_value: unsupported %s" % t)


def graphs_module(extra):
    """spec/common/Graphs.tla with the generated graphs appended to GraphFamily (indices NFAMILY+1 ..)"""
    with open(os.path.join(SPEC, "common", "Graphs.tla")) as fh:
        base = fh.read()
    cut = base.index("GraphFamily ==")
    out = [base[:cut]]
    fam = []
    for n, g in enumerate(extra):
        vs = sorted(g["V"])
        es = sorted(g["E"])
        vrec = ", ".join('%s |-> VRec("%s", %s)' % (i, g["V"][i]["label"], tla_value(g["V"][i]["data"])) for i in vs)
        erec = ", ".join('%s |-> ERec("%s", "%s", "%s", %s)' % (i, g["E"][i]["label"], g["E"][i]["from"], g["E"][i]["to"],
                                                                 tla_value(g["E"][i]["data"])) for i in es)
        out.append("SG%d == [vs |-> <<%s>>, V |-> %s, es |-> <<%s>>, E |-> %s]\n" % (
            n, ", ".join('"%s"' % i for i in vs), "[%s]" % vrec if vs else "<<>>",
            ", ".join('"%s"' % i for i in es), "[%s]" % erec if es else "<<>>"))
        fam.append("SG%d" % n)
    out.append("GraphFamily == <<GEmpty, GIso, GChain, GLoop, GDangle, GShared, GFan%s>>\n" % "".join(", " + f for f in fam))
    out.append("=======================================================================\n")
    return "".join(out)


def curated_states(ctx, sizes):
    """Traversal.tla driven through the programs of JobsTrav.tla: family programs on the family graphs,
    scaled programs on the star graphs"""
    stars = [star_graph(n) for n in sizes]
    with open(os.path.join(SPEC, "traversal", "Traversal.tla")) as fh:
        trav = fh.read()
    cfg = ("CONSTANTS\n  MaxLen = 9\n  GraphIdx = {%s}\n  Alpha = \"narrow\"\nSPECIFICATION SpecP\nINVARIANT TypeInv\n"
           "INVARIANT EmitState\nCHECK_DEADLOCK FALSE\n" % ", ".join(str(i + 1) for i in range(NFAMILY + len(sizes))))
    return trav_states(ctx, "JobsTrav_run.cfg", cfg, module="JobsTrav", family="jobs",
                       files={"Traversal.tla": trav, "Graphs.tla": graphs_module(stars)}, timeout=1200, label="curated+scaled")


# ------------------------------------------------------------------ run

def run_replay(ctx):
    with open(ctx.replay) as fh:
        rp = json.load(fh)
    case = rp["replay"]["case"]
    pool = [Entry(e["g"], e["prog"], e["sid"], set(e["cnts"])) for e in case["pool"]]
    states = {int(k): v for k, v in case["states"].items()}
    steps = request_steps(pool, case["hist"])
    inp = ctx.write_ndjson("replay_in.ndjson", [dict(setup=True, graphs=case["graphs"], driver="badger"),
                                                dict(i=0, mode=case["mode"], steps=steps)])
    outp = os.path.join(ctx.scratch, "replay_out.ndjson")
    ctx.harness(["jobsh", "-j", "1", "-timeout", "300s"], input_path=inp, output_path=outp, timeout=900)
    outs = [o for o in ctx.read_ndjson(outp) if "i" in o]
    if not outs:
        raise Inconclusive("jobsh gave no answer")
    o = outs[0]
    if "crash" in o or "hang" in o:
        kind = "crash" if "crash" in o else "hang"
        ctx.diverge("jobs %s: %s" % (kind, o[kind]), "reproduced", dict(case=case))
        return
    v = judge(pool, states, case["hist"], o.get("obs") or [])
    if v:
        ctx.diverge(v[0], "reproduced: %s" % v[1], dict(case=case, call=v[2]))
    else:
        ctx.log("replay: the behaviour conforms to Jobs.tla")


def run(ctx):
    if ctx.replay:
        return run_replay(ctx)
    quick = ctx.tier == "quick"
    # (a) the specification itself: invariants on the bare state graph of the default pools
    inv = ctx.tlc("jobs", "Jobs", "Jobs_inv2.cfg" if quick else "Jobs_inv3.cfg", workers=8, timeout=1800, label="invariants")
    # (b) admissible results: Traversal.tla, enumerated over its alphabets ...
    plans = [("narrow2", trav_cfg(2, [1, 3, 4, 7], "narrow"), 80 if quick else 150, 3)]
    if not quick:
        plans.append(("narrow3", trav_cfg(3, [3, 4, 5, 6, 7], "narrow"), 260, 4))
        plans.append(("plan3", trav_cfg(3, [4, 6], "plan"), 160, 4))
        plans.append(("wide2", trav_cfg(2, [3, 7], "wide"), 120, 3))
    states, graphs, pools, src = [], None, [], []
    pb = PoolBuilder(ctx, states)
    for name, cfg, npools, minlen in plans:
        g, sts = trav_states(ctx, "C11_%s.cfg" % name, cfg, label=name)
        lo = pb.extend(sts)
        ps = pb.build(npools, minlen=minlen, among=range(lo, len(states)), heavy_cap=3 if quick else 10)
        if not ps:
            raise Inconclusive("no query pools could be built from %s" % name)
        pools += ps
        src += [name] * len(ps)
        ctx.log("%s: %d traversal states, %d pools" % (name, len(sts), len(ps)))
    # ... and driven through the curated programs (mark/data reads across the split, every result type) on the
    # family graphs and through the scaled programs on star graphs (result sizes around the serializer's
    # worker pool (4), its channel buffers (10 / 40) and the pipeline buffer (5000))
    sizes = SCALED_SIZES_QUICK if quick else SCALED_SIZES_THOROUGH
    graphs, sts = curated_states(ctx, sizes)
    lo = pb.extend(sts)
    leafs = [i for i in range(lo, len(states)) if states[i]["status"] == "ok" and jkey(states[i]["g"], states[i]["prog"]) not in pb.kids]
    ncur = 0
    groups = {}
    for i in leafs:                                    # programs that share their first two statements form one pool
        groups.setdefault(jkey(states[i]["g"], states[i]["prog"][:2]), []).append(i)
    for k in sorted(groups):
        merged, have = [], set()
        for i in groups[k]:
            for e in pb.pool_for(i) or []:
                ek = jkey(e.g, e.prog)
                if ek not in have:
                    have.add(ek)
                    merged.append(e)
        if merged:
            pools.append(merged)
            src.append("scaled" if states[groups[k][0]]["g"] > NFAMILY else "curated")
            ncur += 1
    ctx.log("curated+scaled: star sizes %s, %d traversal states, %d pools" % (sizes, len(sts), ncur))
    camp = Campaign("jobs", graphs, states, pools, pb)
    # (c) behaviours generated by TLC from Jobs.tla over those pools
    cap = 240 if quick else int(1200 * SCALE)
    behs, _ = gen_behaviours(ctx, pb.module(pools), num=1, depth=max(800, int(cap * 4.5)), timeout=1200, label="behaviours")
    chosen = pick_behaviours(ctx, behs, cap)
    allsys = gen_systematic(ctx, pb.module(pools))
    nsys = len(allsys)
    sysb = select_systematic(ctx, allsys, pools, states, src, quick)
    ctx.log("%d random behaviours generated, %d kept; %d systematic resume behaviours, %d kept; replayed on %s" % (
        len(behs), len(chosen), nsys, len(sysb), "alternating bindings" if quick else "both bindings"))
    nrandom = len(chosen)
    chosen = chosen + sysb
    # (d) replay + judgement
    # in seeded random order, chunk by chunk, inside a wall-clock budget (a guard for slow machines: the sample
    # shrinks, the verdict does not change); the first chunk always runs
    order = list(chosen)
    ctx.rng.shuffle(order)
    budget = float(os.environ.get("VERIF_C11_BUDGET", "0") or 0) or (300 if quick else 720)
    ctx.build_harness("jobsh")
    size = 320 if quick else 1600
    total, done, t0, last = Counter(), [], time.time(), 0.0
    for lo in range(0, len(order), size):
        if lo > 0 and (time.time() - t0) + last > budget:
            ctx.notes.append("replay stopped by its time budget (%ds): %d of %d selected behaviours replayed" % (budget, len(done), len(order)))
            break
        t1 = time.time()
        chunk = order[lo:lo + size]
        light = [b for b in chunk if src[b["pool"] - 1] != "scaled"]      # family graphs only: the workers load nothing else
        heavy = [b for b in chunk if src[b["pool"] - 1] == "scaled"]
        total.update(run_campaign(ctx, camp, light, jobs=10, tag="fam%d" % lo, timeout=3000, per_request="300s", both=not quick, ngraphs=NFAMILY))
        total.update(run_campaign(ctx, camp, heavy, jobs=6, tag="scaled%d" % lo, timeout=3000, per_request="600s", both=not quick))
        done += chunk
        last = time.time() - t1
        ctx.log("replayed %d of %d behaviours (%.0fs)" % (len(done), len(order), time.time() - t0))
    nsel = len(chosen)
    chosen = done
    resumes, types, szs, nsearch = coverage_of(camp, chosen)
    for b in chosen[:3]:
        pool = pools[b["pool"] - 1]
        ctx.sample(dict(source=src[b["pool"] - 1],
                        calls=[dict(e, q="g%d:%s" % (pool[e["p"] - 1].g, ops(pool[e["p"] - 1].prog))) if "p" in e else e for e in b["hist"]]))
    ctx.cov.update(evaluations=total["calls"], distinct_nontrivial=len(resumes) + len(types),
                   traces_validated_against_impl=total["runs_storage"] + total["runs_server"], exhaustive=False,
                   runs_by_binding=dict(storage=total["runs_storage"], server=total["runs_server"]),
                   behaviours=len(chosen), behaviours_selected=nsel, random_behaviours_selected=nrandom, systematic_resume_behaviours_selected=len(sysb),
                   systematic_resume_behaviours_generated=nsys, behaviours_by_source=dict(Counter(src[b["pool"] - 1] for b in chosen)),
                   calls_by_kind={k: v for k, v in total.items() if k not in ("calls", "diverging", "crash") and not k.startswith("runs_")},
                   stored_result_types=dict(types), stored_result_sizes=sorted(x for x in szs if x >= 0),
                   distinct_resume_splits=len(resumes), searches_with_answers=nsearch, diverging_behaviours=total["diverging"],
                   invariant_states=inv.distinct, pools=len(pools),
                   rule="behaviours of %d calls generated by TLC random walks over Jobs.tla, plus the breadth-first enumeration of "
                        "submit-finish-[restart-]resume for every job and continuation, on pools of related queries taken from "
                        "Traversal.tla states (all prefixes of a program, the same statements on another graph, siblings, "
                        "aggregations), each replayed on the job storage binding and on the server handlers; evaluations = calls "
                        "compared with the specified answer; non-trivial = distinct (traversal, split point) resumes + result types stored"
                        % HIST_LEN)
    ctx.assumptions += [
        "the server is restarted only when no job is running (the property speaks about completed jobs); a job counts as completed as soon as a status call has answered COMPLETE",
        "deleting a running job (cancellation), submitting an ill-typed traversal, resuming with no extra statement and statements outside Traversal.tla's alphabet (mark/jump, set/increment) are outside the generated space",
        "aggregations are not described by Traversal.tla: a job ending in aggregate(), and a resume with aggregate(), are compared with the direct run of the same traversal (same multiset); percentile aggregations are left out (approximate)",
        "after a truncating step (limit/skip/range/distinct) the job and the direct run may legitimately keep different rows: those results are tested for membership in the admissible results only",
        "reading a deleted job must yield no rows; whether it is an error or an empty answer is left open (ViewJob answers an empty stream)",
        "whether a job that is still running is listed, and whether search returns a prefix job of a single statement, is left open (the property demands every prefix job 'of two or more steps'); search answers cover running and complete jobs alike",
        "few distinct()-bearing jobs per run (each opens a temporary Badger store that Submit never closes); row order is not compared anywhere",
    ]
