"""C13 - internal stream combinators preserve order and multiplicity.

Property level: spec/streamcomb/StreamAbs.tla (given / out / inClosed / outClosed with the four
caller operations Put, CloseIn, Get, CloseOut).

Models: spec/streamcomb/{RoundRobin,Mux,Batcher,Dual,Queue}.tla are implementation-shaped
(one action per channel operation / critical section of jobstorage.MarshalStream+UnmarshalStream,
gripper.ChannelMux, gdbi.LookupBatcher, gdbi.DualProcessor, engine/queue.New).  TLC checks, for small
capacities and every input length up to the bound, that each refines StreamAbs (Order, Once,
ClosesOnlyWhenExhausted, the refinement itself), closes eventually under weak fairness and never
deadlocks.  A counterexample there is a lead only (Inconclusive).

Binding: harness/streams drives the REAL combinators as their producer and consumer and logs its own
channel operations with per-goroutine sequence numbers and begin/end tickets of one atomic counter;
spec/streamcomb/StreamTrace.tla lets TLC look for a linear extension of that partial order which is
a behaviour of StreamAbs ending with both ends closed.  Verdicts come only from there (plus panics and
reproduced hangs of the real code).  Signature: "<combinator> <shape>"."""
import json, os, threading
from vlib import Inconclusive

LENGTHS = [0, 1, 3, 4, 5, 9, 10, 11, 39, 40, 41, 49, 50, 51, 99, 100, 101]
LONG = 5000
PROCS = [1, 2, 4, 16]
COMBS = ["marshal", "unmarshal", "mux", "batcher", "dual", "queue"]
PATS = {
    "marshal": ["plain", "big", "slowcons", "slowprod", "yield", "stall"],
    "unmarshal": ["plain", "big", "slowcons", "slowprod", "yield", "stall"],
    "serde": ["plain", "big", "slowcons"],
    "mux": ["plain", "big", "slowcons", "slowprod", "jitter", "stall"],
    "batcher": ["plain", "burst", "slowcons", "slowprod", "yield", "stall"],
    "dual": ["plain", "big", "slowcons", "slowprod", "yield", "stall"],
    "queue": ["plain", "big", "slowcons", "slowprod", "yield", "stall"],
}
WS = {  # workers / lanes / batch size
    "marshal": [4, 1, 2, 3], "unmarshal": [4, 1, 2, 3], "serde": [4], "mux": [3, 1, 2],
    "batcher": [10, 1, 3, 50, 4, 100], "dual": [1], "queue": [1],
}
EXPLORE_MAX = 120     # traces with more producer operations are validated in "linear" mode


# ------------------------------------------------------------------ model configurations
def model_runs(tier):
    """(module, constants, liveness?) for the implementation-shaped models."""
    runs = []
    if tier == "quick":
        runs += [("RoundRobin", dict(W=3, CapIn=1, CapLane=1, CapOut=1, N=7), True),
                 ("Mux", dict(P=3, CapLane=0, CapOrder=1, CapOut=1, N=5), True),
                 ("Batcher", dict(Size=2, CapReq=1, CapOut=1, N=7), True),
                 ("Dual", dict(CapReq=1, CapData=1, CapOut=1, MaxRes=2, N=3), True),
                 ("Queue", dict(CapIn=1, CapOut=1, N=7), True)]
        return runs
    # W, P <= 3, capacities 1-2 (lane capacity 0 = unbuffered for the multiplexer, as in TestMux),
    # every input length up to 2*(W+cap)+1 (ProdClose is enabled at any time); liveness where the
    # state graph stays below ~2*10^5 states, safety + deadlock freedom everywhere
    for w in (1, 2, 3):
        for caps in ((1, 1, 1), (2, 2, 2)) + (((1, 2, 1),) if w == 3 else ()):
            ci, cl, co = caps
            runs.append(("RoundRobin", dict(W=w, CapIn=ci, CapLane=cl, CapOut=co, N=2 * (w + max(caps)) + 1),
                         w < 3 or caps == (1, 1, 1)))
    for p in (1, 2, 3):
        for (cl, cord, co) in ((0, 1, 1), (1, 1, 1), (2, 2, 2)):
            n = 2 * (p + max(cl, cord, co)) + 1
            if p == 3:
                n = 7 if cl < 2 else 5      # 10^6 states beyond that; the lane choice of every Put is free
            runs.append(("Mux", dict(P=p, CapLane=cl, CapOrder=cord, CapOut=co, N=n), p < 3 and n <= 7))
    for size in (1, 2, 3):
        for (cr, co) in ((1, 1), (2, 2)):
            runs.append(("Batcher", dict(Size=size, CapReq=cr, CapOut=co, N=2 * (size + max(cr, co)) + 1), True))
    for c in (1, 2):
        for mr in (2, 3):
            runs.append(("Dual", dict(CapReq=c, CapData=c, CapOut=c, MaxRes=mr, N=4 if mr < 3 else 3), True))
    for (ci, co) in ((1, 1), (2, 2), (2, 1)):
        runs.append(("Queue", dict(CapIn=ci, CapOut=co, N=2 * (1 + max(ci, co)) + 3), True))
    return runs


def model_cfg(module, consts, live):
    lines = ["CONSTANTS"] + ["  %s = %d" % kv for kv in consts.items()]
    lines += ["SPECIFICATION Spec", "INVARIANT Order", "INVARIANT Once", "INVARIANT ClosesOnlyWhenExhausted",
              "PROPERTY Refines"]
    if module == "Batcher":
        lines.append("INVARIANT BatchShape")
    if module == "Mux":
        lines.append("INVARIANT NeverZero")
    if module == "RoundRobin":
        lines.append("INVARIANT InFlightBound")
    if live:
        lines.append("PROPERTY EventuallyClosed")
    return "\n".join(lines) + "\n"      # deadlock checking stays on (TLC's default)


def check_models(ctx, summary):
    """TLC on every implementation-shaped configuration, three JVMs at a time (8 TLC workers each)."""
    from concurrent.futures import ThreadPoolExecutor
    lock = threading.Lock()

    def one(job):
        module, consts, live = job
        if ctx.tier == "quick":      # spec/streamcomb/<Module>_quick.cfg holds exactly these constants
            name, files = module + "_quick.cfg", None
        else:
            name = "%s_%s.cfg" % (module, "_".join("%s%d" % kv for kv in consts.items()))
            files = {name: model_cfg(module, consts, live)}
        res = ctx.tlc("streamcomb", module, name, workers=8, timeout=1200, files=files,
                      label="model %s %s%s" % (module, consts, " +liveness" if live else ""), count=False)
        with lock:
            ctx.cov["states"] += res.distinct
            ctx.cov["transitions"] += res.generated
            summary.append(dict(module=module, consts=consts, liveness=live, distinct=res.distinct, depth=res.depth))

    with ThreadPoolExecutor(max_workers=3) as ex:
        for f in [ex.submit(one, j) for j in model_runs(ctx.tier)]:
            f.result()          # an Inconclusive raised by a run surfaces here


# ------------------------------------------------------------------------------ scenarios
def scenarios(ctx):
    rng = ctx.rng
    out = []

    def add(comb, n, w, pat, procs, **kw):
        s = dict(comb=comb, n=n, w=w, pat=pat, procs=procs, seed=rng.randrange(1, 1 << 30),
                 capin=kw.pop("capin", rng.choice([0, 1, 10])), deadline_ms=20000)
        if comb == "mux":
            s["lanecap"] = kw.pop("lanecap", rng.choice([0, 0, 2, 10]))
            s["lazy"] = kw.pop("lazy", rng.random() < 0.5)
        if comb == "batcher":
            s["timeout_us"] = kw.pop("timeout_us", rng.choice([1, 1, 200, 3000]))
        if comb == "dual":
            s["maxres"] = kw.pop("maxres", rng.choice([1, 2, 3]))
        s.update(kw)
        out.append(s)

    thorough = ctx.tier == "thorough"
    for comb in COMBS:
        pats, ws = PATS[comb], WS[comb]
        if thorough:
            for n in LENGTHS:
                for w in ws:
                    for pat in pats:
                        # every pattern under two GOMAXPROCS settings; all four settings per (n, w)
                        base = rng.randrange(4)
                        for d in (0, 1 + rng.randrange(3)):
                            add(comb, n, w, pat, PROCS[(base + d + pats.index(pat)) % 4])
        else:
            k = rng.randrange(100)
            for n in LENGTHS:
                for rep in range(2):
                    k += 1
                    add(comb, n, ws[0] if rep == 0 else ws[k % len(ws)], pats[k % len(pats)], PROCS[(k // 2) % 4])
        # long inputs: one per GOMAXPROCS setting (thorough), one per combinator (quick)
        k = rng.randrange(100)
        for procs in (PROCS if thorough else [PROCS[k % 4]]):
            k += 1
            add(comb, LONG, ws[0], pats[k % len(pats)], procs, capin=10)
    # the two repository tests as happy-path seeds
    add("serde", 1003, 4, "plain", 4, capin=10)            # TestSerializeStream
    add("mux", 100, 3, "testmux", 4, lanecap=0, lazy=False)  # TestMux
    for n in ([0, 1, 5, 41, 101] if not thorough else LENGTHS):
        add("serde", n, 4, PATS["serde"][n % 3], PROCS[n % 4])
    # back-pressure through every buffer, including the multiplexer's order channel (wide lanes)
    add("mux", LONG, 3, "stall", 4, lanecap=100, lazy=False)
    for comb in ("marshal", "unmarshal", "batcher", "dual", "queue"):
        add(comb, 1500, WS[comb][0], "stall", PROCS[len(comb) % 4], capin=10)
    # a reader that starts late and pauses for longer than any internal time-out could be
    for comb in ("marshal", "unmarshal", "serde", "batcher", "dual", "queue"):
        add(comb, 1500, 4 if comb in ("marshal", "unmarshal", "serde") else WS[comb][0], "longstall", PROCS[(len(comb) + 1) % 4], capin=10)
    add("mux", 1500, 3, "longstall", 4, lanecap=100, lazy=False)
    # the production settings of the batcher: timeout of one microsecond
    for n in (1, 9, 10, 11, 101):
        add("batcher", n, 10, "slowprod", PROCS[n % 4], timeout_us=1)
    # items the serializer cannot encode (NaN): they owe no output, all other items keep order and multiplicity
    for n in ([1, 3, 9, 41, 103] if not thorough else LENGTHS):
        for w in ([4, 1] if not thorough else WS["marshal"]):
            add("marshal", n, w, "nan", PROCS[(n + w) % 4])
        add("serde", n, 4, "nan", PROCS[n % 4])
    for i, s in enumerate(out):
        s["i"] = i
    return out


def record(ctx, scens, tag):
    inp = ctx.write_ndjson("streams_%s_in.ndjson" % tag, scens)
    outp = inp.replace("_in", "_out")
    ctx.harness(["streams", "-j", "8", "-timeout", "120s"], input_path=inp, output_path=outp, timeout=1500)
    got = {o["i"]: o for o in ctx.read_ndjson(outp) if "i" in o}
    if len(got) != len(scens):
        raise Inconclusive("harness answered %d of %d scenarios" % (len(got), len(scens)))
    return got


# --------------------------------------------------------------------- trace validation
def to_trace(tid, scen, obs):
    mode = "explore" if len(obs["p"]) <= EXPLORE_MAX else "linear"
    # the in-flight bound is existential over linearisations; the single walk of "linear" mode is the one with the
    # MOST items in flight, so the bound is only evaluated for explored traces
    cap = obs["cap"] if mode == "explore" else -1
    return dict(id=tid, comb=scen["comb"], mode=mode, maxchunk=obs["maxchunk"], cap=cap, p=obs["p"], c=obs["c"])


def validate(ctx, traces, label):
    """Run TLC on StreamTrace over all traces; returns ({id: within}, {id: best stuck record})."""
    if not traces:
        return {}, {}
    text = "".join(json.dumps(t, separators=(",", ":")) + "\n" for t in traces)
    res = ctx.tlc("streamcomb", "StreamTrace", "StreamTrace.cfg", workers=8, timeout=1500,
                  files={"traces.ndjson": text}, label=label)
    ok, stuck = {}, {}
    for m in res.msgs.get("ok", []):
        ok[m["id"]] = bool(m["within"]) or ok.get(m["id"], False)
    for m in res.msgs.get("stuck", []):
        cur = stuck.get(m["id"])
        if cur is None or (m["j"], m["i"]) > (cur["j"], cur["i"]):
            stuck[m["id"]] = m
    return ok, stuck


def concurrent_pairs(tr):
    """measurement only: does the history contain a producer and a consumer operation that overlap?"""
    j, c = 0, tr["c"]
    for x in tr["p"]:
        while j < len(c) and c[j]["e"] < x["b"]:
            j += 1
        if j < len(c) and not (x["e"] < c[j]["b"]):
            return True
    return False


def corrupt(traces, how):
    """self-test knob (VERIF_C13_CORRUPT): damage one recorded history; the check must then report a divergence."""
    for t in traces:
        recv = [k for k, o in enumerate(t["c"]) if o["k"] == "r"]
        if t["mode"] != "explore" or len(recv) < 4 or t["maxchunk"] != 1:
            continue
        a, b = recv[1], recv[2]
        if how == "swap":
            t["c"][a]["v"], t["c"][b]["v"] = t["c"][b]["v"], t["c"][a]["v"]
        elif how == "dup":
            t["c"][b]["v"] = list(t["c"][a]["v"])
        elif how == "drop":
            del t["c"][a]
        elif how == "early":       # the output is reported closed while items are still owed
            t["c"] = t["c"][:a] + [dict(k="x", v=[], b=t["c"][a]["b"], e=t["c"][a]["e"])]
        else:
            raise Inconclusive("unknown VERIF_C13_CORRUPT=%s" % how)
        return t["id"]
    return None


def run(ctx):
    if ctx.replay:
        return run_replay(ctx)
    scens = scenarios(ctx)
    ctx.log("%d scenarios" % len(scens))
    box = {}

    def rec():
        try:
            box["obs"] = record(ctx, scens, "main")
        except BaseException as e:   # re-raised in the main thread
            box["err"] = e

    th = threading.Thread(target=rec)
    th.start()                       # the harness records while TLC checks the models
    models = []
    try:
        if os.environ.get("VERIF_C13_SKIP_MODELS"):      # development / mutation runs only
            ctx.notes.append("implementation-shaped models were NOT checked in this run (VERIF_C13_SKIP_MODELS)")
        else:
            check_models(ctx, models)
    finally:
        th.join()
    if "err" in box:
        raise box["err"]
    obs = box["obs"]
    judge(ctx, scens, obs, models)


def judge(ctx, scens, obs, models, replaying=False):
    # ---- outcomes that are not histories: crash / hang of the real code
    hangs = [s for s in scens if "hang" in obs[s["i"]]]
    for s in scens:
        o = obs[s["i"]]
        if "died" in o or "bad" in o or "err" in o or "marshal_err" in o:
            raise Inconclusive("harness failure on %s: %s" % (s, {k: o[k] for k in o if k not in ("p", "c")}))
        if "crash" in o:
            ctx.diverge("%s panics" % s["comb"], "the combinator crashed the process: %s" % o["crash"],
                        dict(scenario=s, crash=o["crash"], trace=o.get("trace", "")[-4000:]))
        if "hang" in o and "p" not in o:   # the supervisor's deadline, not the harness's: no history
            raise Inconclusive("worker hung without a history on %s" % s)
    if hangs and not replaying:
        # a hang counts only if it reproduces twice more (DESIGN 6); otherwise the run is inconclusive
        again = []
        for s in hangs[:5]:
            for r in range(2):
                again.append(dict(s, i=len(again)))
        o2 = record(ctx, again, "rehang")
        for k, s in enumerate(hangs[:5]):
            if not all("hang" in o2[2 * k + r] for r in range(2)):
                raise Inconclusive("hang on %s did not reproduce" % s)
    # ---- histories
    traces, by_id = [], {}
    for s in scens:
        o = obs[s["i"]]
        if "p" not in o:
            continue
        t = to_trace(s["i"] + 1, s, o)
        traces.append(t)
        by_id[t["id"]] = (s, o)
    how = os.environ.get("VERIF_C13_CORRUPT")
    if how:
        ctx.log("SELF-TEST: corrupted trace id", corrupt(traces, how), "with", how)
    ok, stuck = validate(ctx, traces, "trace validation (%d histories)" % len(traces))
    drift, nontrivial, ops, accepted = [], 0, 0, 0
    for t in traces:
        s, o = by_id[t["id"]]
        ops += len(t["p"]) + len(t["c"])
        if t["id"] in ok:
            accepted += 1
            if not ok[t["id"]]:
                drift.append(dict(scenario=s, cap=t["cap"]))
            if len(t["p"]) > 2 and concurrent_pairs(t):
                nontrivial += 1
            continue
        st = stuck.get(t["id"])
        if st is None:
            raise Inconclusive("trace %d was neither accepted nor refused by TLC" % t["id"])
        why = st["why"]
        if why in ("item-before-input", "send-after-close", "unexplained"):
            raise Inconclusive("history of %s is impossible for any channel program (%s): recorder problem" % (s, why))
        pi, cj = st["i"], st["j"]
        ctx.diverge("%s %s" % (s["comb"], why),
                    "real %s produced a history that no ordering of its caller's operations reconciles with "
                    "'same items, once each, in order, closed exactly when exhausted': %s (refused after %d producer and "
                    "%d consumer operations)" % (s["comb"], why, pi, cj),
                    dict(scenario=s, refused_at=dict(producer_ops_done=pi, consumer_ops_done=cj, why=why),
                         producer_tail=t["p"][max(0, pi - 3):pi + 2], consumer_tail=t["c"][max(0, cj - 3):cj + 3],
                         hang=o.get("hang"), dump=(o.get("dump") or "")[:6000]))
    if drift:
        ctx.notes.append("MODEL-DRIFT: %d accepted histories had more items in flight than the buffer capacity "
                         "computed from the code (not part of the property): %s" % (len(drift), drift[:3]))
    for t in traces[:400:97]:
        ctx.sample(dict(scenario=by_id[t["id"]][0], producer_ops=len(t["p"]), consumer_ops=len(t["c"]),
                        first_consumer_ops=t["c"][:3], accepted=t["id"] in ok))
    ctx.cov.update(
        evaluations=ops, distinct_nontrivial=nontrivial, traces_validated_against_impl=len(traces),
        traces_accepted=accepted, exhaustive=True, models=models,
        rule="evaluations = caller operations (send/close/receive) recorded on the real combinators and replayed by TLC "
             "against StreamAbs; non-trivial = accepted histories with more than two producer operations in which at "
             "least one producer and one consumer operation overlapped (so TLC had to choose an order); exhaustive "
             "refers to the implementation-shaped models (all interleavings for the listed capacities and every "
             "input length up to the bound)")
    ctx.assumptions += [
        "one producer goroutine and one consumer goroutine per combinator (that is how grip calls them); concurrent Put calls on the multiplexer are not in the property",
        "multiplexer lanes are one-in/one-out pipelines (the documented contract); a lane that drops or multiplies items is outside the alphabet",
        "worker count, lane count and batch size >= 1; items are non-nil (queue.New drops nil travelers by construction)",
        "the models assume sequentially consistent memory: the unsynchronised `closed` flag of engine/queue is a data race judged by C17, here only its observable effect on the histories is checked",
        "ChannelMux.AddPipeline called while runMux is running (pipelines added on first use, as gripper/graph.go does and as half of the mux scenarios do) is an unsynchronised write/read of the outputs slice (seen with -race); like queue's flag it is C17 material - no history on amd64 deviated",
        "liveness on the real code is a deadline: no caller operation completed for 20 s => hang, reported only if it reproduces twice, else inconclusive",
        "a history longer than %d inputs is validated along its most permissive linearisation only (complete, see StreamTrace.tla)" % EXPLORE_MAX,
        "the in-flight bound uses buffer sizes read from the code; exceeding it is MODEL-DRIFT, never a violation",
    ]


def run_replay(ctx):
    with open(ctx.replay) as fh:
        rp = json.load(fh)
    cases = [rp["replay"]] + rp.get("more", [])
    scens = []
    for c in cases:
        for r in range(10):      # scheduling-dependent: the same scenario several times
            scens.append(dict(c["scenario"], i=len(scens)))
    obs = record(ctx, scens, "replay")
    judge(ctx, scens, obs, [], replaying=True)
