"""C04 - reopening a database (cleanly or after a crash) preserves a consistent graph.

Specs: spec/reopen/Reopen.tla (abstract: Restart leaves the abstract store of GraphStore.tla unchanged and
every later call behaves as on the never-stopped twin; a crash inside a call may leave any state that is
Admissible - per element old or new value, everything acknowledged before present - and whose observation has
Integrity) and spec/reopen/KVGraphImpl.tla (implementation-shaped: the top-level writes of every call; it
enumerates the (history, call, k) crash points and predicts their outcome).

Binding: harness/reopen replays TLC's histories on kvgraph over a real Badger store through a fault-injecting
kvi.KVInterface wrapper.  Clean restarts are compared step by step with Obs of the abstract state (lib/storecmp);
what is read back after every crash point is handed to TLC (Mode "judge") which evaluates Admissible and
Integrity on the real observation; one further call after every crash is judged against Eff as well.  The number
of writes of a call is reported by the harness (the crash points are k = 1..that number); where it differs from
the model the evidence carries a MODEL-DRIFT note."""
import json, os, shutil, tempfile
from collections import Counter
import storecmp
import vlib
from vlib import Inconclusive

LABEL_ASPECTS = storecmp.LABEL_ASPECTS
# stale label entries after re-labelling an element were a finding of C03 (repaired in the tree): set to 1 to
# stop judging them on a tree that still has it
LENIENT_RELABEL = os.environ.get("VERIF_C04_LENIENT_RELABEL", "0") == "1"


def store_spec_differs():
    """spec/reopen/GraphStore.tla is a verbatim copy of the C03 abstract store"""
    try:
        with open(os.path.join(vlib.SPEC, "store", "GraphStore.tla")) as a, open(os.path.join(vlib.SPEC, "reopen", "GraphStore.tla")) as b:
            return a.read() != b.read()
    except OSError:
        return True


# ------------------------------------------------------------------ generation (TLC)
def restart_histories(ctx):
    plan = [("Reopen_r2.cfg", None, None), ("Reopen_sim.cfg", "num=%d" % (60 if ctx.tier == "quick" else 1200), 14)]
    if ctx.tier != "quick":
        plan.insert(1, ("Reopen_r3.cfg", None, None))
    hs, seen = [], set()
    for cfg, sim, depth in plan:
        res = ctx.tlc("reopen", "Reopen", cfg, simulate=sim, depth=depth, timeout=1500, workers=(1 if sim else 8), count=(sim is None))
        for h in res.msgs.get("hist", []):
            k = json.dumps([x["call"] for x in h], sort_keys=True)
            if k not in seen:
                seen.add(k)
                hs.append(h)
    if not hs:
        raise Inconclusive("no restart histories emitted")
    return hs


def crash_states(ctx):
    plan = [("KVGraphImpl_c2.cfg" if ctx.tier == "quick" else "KVGraphImpl_c3.cfg", None, None),
            ("KVGraphImpl_sim.cfg", "num=%d" % (24 if ctx.tier == "quick" else 250), 9)]
    out, seen = [], set()
    for cfg, sim, depth in plan:
        res = ctx.tlc("reopen", "KVGraphImpl", cfg, simulate=sim, depth=depth, timeout=1500, workers=(1 if sim else 8), count=(sim is None))
        for s in res.msgs.get("crashcase", []):
            k = json.dumps(s["calls"], sort_keys=True)
            if k not in seen:
                seen.add(k)
                s["random"] = sim is not None
                out.append(s)
    if not out:
        raise Inconclusive("no crash cases emitted")
    return out


REDO = {"DeleteGraph": "AddGraph", "AddGraph": "AddVertex"}


def pick_cont(ctx, call, alphabet):
    """the call issued after recovery: chosen among the spec's calls (input selection, not an oracle)"""
    same_g = [c for c in alphabet if c.get("g") == call.get("g")]
    r = ctx.rng.random()
    if r < 0.4 and call["op"] in REDO:
        cands = [c for c in same_g if c["op"] == REDO[call["op"]]]
        if cands:
            return ctx.rng.choice(cands)
    if r < 0.6:
        return call
    return ctx.rng.choice(same_g or alphabet)


# ------------------------------------------------------------------ observation reshaping (syntactic only)
def _edges(lst):
    out = []
    for s in lst or []:
        p = (s.split("|") + ["", "", ""])[:4] if s != "<nil>" else ["<nil>", "", "", ""]
        out.append({"id": p[0], "label": p[1], "from": p[2], "to": p[3]})
    return out


def _verts(lst):
    out = []
    for s in lst or []:
        p = (s.split("|") + [""])[:2] if s != "<nil>" else ["<nil>", ""]
        out.append({"id": p[0], "label": p[1]})
    return out


def _opt(x):
    return ["none"] if x is None else ["some", x]


def reshape_graph(r):
    """harness/store.ObserveGraph output -> the observation record Reopen.tla's Integrity is written over"""
    return dict(V=r.get("V") or {}, E=r.get("E") or {}, dupV=r.get("dupV") or [], dupE=r.get("dupE") or [],
                getV={k: _opt(v) for k, v in (r.get("getV") or {}).items()},
                getE={k: _opt(v) for k, v in (r.get("getE") or {}).items()},
                vlabels=r.get("vlabels") or [], elabels=r.get("elabels") or [],
                byLabel={k: v or [] for k, v in (r.get("byLabel") or {}).items()},
                adj=[dict(outE={v: _edges(x) for v, x in o["outE"].items()}, inE={v: _edges(x) for v, x in o["inE"].items()},
                          out={v: _verts(x) for v, x in o["out"].items()}, **{"in": {v: _verts(x) for v, x in o["in"].items()}})
                     for o in r.get("adj") or []],
                listed=bool(r.get("listed", True)))


def reshape(obs):
    """-> (record for TLC, list of problems that prevent judging)"""
    out, probs = {}, []
    for g, r in obs.items():
        if "listed_but_unopenable" in r:
            probs.append("graph-listed-but-unopenable")
        elif "panic" in r:
            probs.append("observation-panics: " + str(r["panic"])[:60])
        elif len(r.get("adj") or []) != 4:
            probs.append("observation-incomplete")
        else:
            out[g] = reshape_graph(r)
    return out, probs


def strip_ts(obs):
    return {g: {k: v for k, v in r.items() if k != "ts"} for g, r in obs.items()}


# ------------------------------------------------------------------ clean restarts
def label_dirs(spec, real):
    out = set()
    pairs = [(set(spec["vlabels"]), set(real.get("vlabels") or [])), (set(spec["elabels"]), set(real.get("elabels") or []))]
    sby = storecmp.dictify(spec["byLabel"])
    for l, ids in (real.get("byLabel") or {}).items():
        pairs.append((set(sby.get(l, [])), set(ids)))
    for s, r in pairs:
        if s - r:
            out.add("label-index-missing")
        if r - s:
            out.add("label-index-stale")
    return out or {"label-index-duplicates"}


def step_aspects(call, obs, real, mask_labels=False):
    aspects, labels = [], set()
    for g in ("g1", "g2", "g3"):
        if (g in obs) != (g in real and "listed_but_unopenable" not in real.get(g, {})):
            aspects.append("graph-existence")
            continue
        if g in obs:
            if not real[g].get("listed", True):
                aspects.append("graph-not-listed")
            asp = storecmp.cmp_graph(obs[g], real[g])
            if mask_labels:
                asp = [a for a in asp if a not in LABEL_ASPECTS]
            if set(asp) & LABEL_ASPECTS:
                labels |= label_dirs(obs[g], real[g])
            if g != call.get("g") and call.get("op") != "Restart" and asp:
                aspects.append("other-graph-affected")
            else:
                aspects += asp
    return aspects, labels


def classes(aspects, labels):
    rest = [a for a in aspects if a not in LABEL_ASPECTS]
    return sorted(storecmp.classes(rest) | (labels if set(aspects) & LABEL_ASPECTS else set()))


def family(op):
    return {"AddVertex": "add", "AddEdge": "add", "BulkAdd": "add", "DelVertex": "delete", "DelEdge": "delete"}.get(op, op)


# Integrity classes of Reopen.tla under the names lib/storecmp uses for the same thing
CLASS_NAMES = {"element-not-reachable-by-label": "label-index-missing", "label-index-dangling": "label-index-stale"}


def check_restart_history(h, steps, tbl):
    """-> (divergence | None, info).  Only divergences at or after the first Restart are C04's business; the
    calls before it are C03's.  Stale label entries after a re-labelling (open finding of C03) are masked."""
    before, restarted, relabelled = {}, False, False
    for n, (e, st) in enumerate(zip(h, steps)):
        call = e["call"]
        after = storecmp.nstate(e["after"])
        is_restart = call["op"] == "Restart"
        restarted = restarted or is_restart
        relabelled = relabelled or (LENIENT_RELABEL and bool(e.get("relabel")))
        if is_restart:
            tag = "Restart"
        elif restarted:
            # one defect of reopening shows after every kind of add: the signature names the family of the call only
            tag = "%s after restart" % family(call["op"])
        else:
            shape = storecmp.call_shape(call, before)
            if e["res"] == "error" and shape != "no-graph":
                shape = "invalid"
            tag = "%s(%s)" % (call["op"], shape)
        want, got = e["res"], st["res"]
        if got == "panic":
            return (n, "reopen %s: panic" % tag, st.get("msg")), restarted
        if want != "any" and want != got:
            return (n, "reopen %s: returns %s, specified %s" % (tag, got, want), st.get("msg")), restarted
        obs = tbl.get(json.dumps(after, sort_keys=True))
        if obs is None:
            raise Inconclusive("spec state missing from the observation table")
        aspects, labels = step_aspects(call, storecmp.dictify(obs), st["obs"], mask_labels=relabelled)
        if aspects:
            return (n, "reopen %s: %s" % (tag, ",".join(classes(aspects, labels))), dict(aspects=sorted(set(aspects)))), restarted
        if not is_restart:
            for g, changed in (st.get("tsChanged") or {}).items():
                if g in e["changed"] and not changed:
                    return (n, "reopen %s: timestamp unchanged after a successful mutation" % tag, g), restarted
                if changed and (g != call.get("g") or want == "error"):
                    return (n, "reopen %s: timestamp changed by a failed call or a call to another graph" % tag, g), restarted
        before = after
    return None, restarted


# ------------------------------------------------------------------ crash points
def crash_shape(call, before):
    """shape of the interrupted call relative to the specified state before it"""
    shape = storecmp.call_shape(call, before)
    G = before.get(call.get("g"))
    if G is not None and call["op"] in ("AddVertex", "AddEdge", "BulkAdd"):
        last = {}
        for el in call.get("elems", []):
            r = el["r"]
            tbl = G["V"] if el["k"] == "v" else G["E"]
            key = (r["label"],) if el["k"] == "v" else (r["from"], r["to"], r["label"])
            old = last.get((el["k"], r["id"]))
            if old is None and r["id"] in tbl:
                o = tbl[r["id"]]
                old = (o["label"],) if el["k"] == "v" else (o["from"], o["to"], o["label"])
            if old and old != key:
                # the element keeps its id but moves to other index entries: the add is followed by clean-up writes
                return "re-labels or re-keys an element"
            last[(el["k"], r["id"])] = key
    return shape


INTEGRITY = "integrity lost"
DURABLE = "acknowledged data lost or foreign data"
PARTIAL = "element neither old nor new"


def store_dir(ctx):
    """where the harness creates its stores: a memory-backed directory when there is one (every top-level write
    of Badger is an fsync; on a shared disk that dominates the run), else the scratch directory"""
    d = getattr(ctx, "_c04_store_dir", None)
    if d is None:
        d = ctx.scratch
        shm = os.environ.get("VERIF_C04_STORE_DIR", "/dev/shm")
        if os.path.isdir(shm) and os.access(shm, os.W_OK):
            try:
                st = os.statvfs(shm)
                if st.f_bavail * st.f_frsize > (4 << 30):
                    d = tempfile.mkdtemp(prefix="verif_C04_", dir=shm)
            except OSError:
                pass
        ctx._c04_store_dir = d
    return d


def run_harness(ctx, name, lines, jobs=12):
    inp = ctx.write_ndjson("%s_in.ndjson" % name, [dict(setup=True, driver=lines[0])] + lines[1])
    outp = os.path.join(ctx.scratch, "%s_out.ndjson" % name)
    ctx.harness(["reopen", "-j", str(jobs), "-timeout", "120s"], input_path=inp, output_path=outp, timeout=3000, env={"TMPDIR": store_dir(ctx)})
    outs = {o["i"]: o for o in ctx.read_ndjson(outp) if "i" in o}
    if len(outs) != len(lines[1]):
        raise Inconclusive("reopen harness answered %d of %d requests" % (len(outs), len(lines[1])))
    for o in outs.values():
        if o.get("harness_err"):
            raise Inconclusive("reopen harness: %s" % o["harness_err"])
        if "died" in o:
            raise Inconclusive("reopen worker killed: %s" % o["died"])
    return outs


def judge(ctx, jl, chunk=12000, parallel=4):
    """hand the observations to TLC (Reopen.tla, Mode "judge"); big files go in chunks, a few JVMs at a time"""
    from concurrent.futures import ThreadPoolExecutor
    cfg = "Reopen_judge_lenient.cfg" if LENIENT_RELABEL else "Reopen_judge.cfg"

    def one(part):
        text = "".join(json.dumps(x, separators=(",", ":")) + "\n" for x in part)
        return ctx.tlc("reopen", "Reopen", cfg, files={"obs.ndjson": text}, workers=1, timeout=2400, count=False, heap="6g").msgs.get("verdict", [])

    parts = [jl[i:i + chunk] for i in range(0, len(jl), chunk)] or [[]]
    out = {}
    with ThreadPoolExecutor(max_workers=parallel) as ex:
        for vs in ex.map(one, parts):
            for v in vs:
                out[v["i"]] = v
    return out


def corrupt(ctx, rreqs, routs, hs, couts, creqs=None, states=None):
    """binding self-test (VERIF_C04_CORRUPT=1): falsify one recorded observation of each kind; the check must object"""
    done = False
    for n, (d, hi, full) in enumerate(rreqs):
        seen_restart = False
        for e, st in zip(hs[hi], routs[n].get("steps", [])):
            seen_restart = seen_restart or e["call"]["op"] == "Restart"
            for g, r in st["obs"].items():
                ids = [l for l, x in (r.get("byLabel") or {}).items() if x]
                if seen_restart and ids and not done:
                    r["byLabel"][ids[0]] = r["byLabel"][ids[0]][1:]
                    done = True
                    ctx.log("self-test: removed a label-index answer from restart replay %d" % n)
    done = False
    for n in sorted(couts):
        op = states[creqs[n]["si"]]["cases"][creqs[n]["ci"]]["call"]["op"]
        for cr in couts[n].get("crashes", []):
            for g, r in (cr.get("obs") or {}).items():
                if r.get("E") and not done and op.startswith("Del"):
                    r["E"].pop(sorted(r["E"])[0])
                    done = True
                    ctx.log("self-test: removed an edge from the listing read back after crash point %d of case %d" % (cr["k"], n))


def drivers(ctx):
    env = os.environ.get("VERIF_C04_DRIVERS")
    if env:
        return env.split(",")
    return ["badger"] if ctx.tier == "quick" else ["badger", "level", "bolt", "pebble"]


def run(ctx):
    try:
        _run(ctx)
    finally:
        d = getattr(ctx, "_c04_store_dir", None)
        if d and d != ctx.scratch:
            shutil.rmtree(d, ignore_errors=True)


def _run(ctx):
    # ---------------------------------------------------------------- generate
    hs = restart_histories(ctx)
    states = crash_states(ctx)
    alphabet, seen = [], set()
    for s in states:
        for c in s["cases"]:
            k = json.dumps(c["call"], sort_keys=True)
            if k not in seen:
                seen.add(k)
                alphabet.append(c["call"])
    ctx.log("%d restart histories, %d stored states with %d interruptible calls" % (len(hs), len(states), sum(len(s["cases"]) for s in states)))

    # ---------------------------------------------------------------- replay: restarts
    # every history with an in-process reopen; a share of them (all in the thorough tier) also with the store
    # directory really closed and opened again, and on the other drivers
    rreqs = []   # (driver, history index, full)
    # closing and re-opening a Badger directory takes seconds: a seeded sample of the histories whose store is
    # not empty at the restart; the other drivers reopen in milliseconds
    # histories that never create a graph store nothing: a seeded 5% of them is replayed
    trivial = {i for i, h in enumerate(hs) if not any(storecmp.nstate(e["after"]) for e in h)}
    trivial -= set(ctx.rng.sample(sorted(trivial), len(trivial) // 20))
    nonempty = [i for i, h in enumerate(hs) if any(e["call"]["op"] == "Restart" and storecmp.nstate(e["after"]) for e in h)]
    nfull = 16 if ctx.tier == "quick" else 120
    full_badger = set(ctx.rng.sample(nonempty, min(nfull, len(nonempty))))
    nonempty = set(nonempty)
    for d in drivers(ctx):
        for i, h in enumerate(hs):
            if i in trivial:
                continue
            if d == "badger":
                rreqs.append((d, i, False))
                if i in full_badger:
                    rreqs.append((d, i, True))
            elif i in nonempty and ctx.rng.random() < (0.5 if ctx.tier == "quick" else 0.08):
                rreqs.append((d, i, True))
    routs = {}
    for d in drivers(ctx):
        mine = [(n, r) for n, r in enumerate(rreqs) if r[0] == d]
        lines = [dict(i=n, kind="restart", full=r[2], hist=[dict(call=x["call"]) for x in hs[r[1]]]) for n, r in mine]
        if lines:
            routs.update(run_harness(ctx, "restart_" + d, (d, lines)))

    ctx.log("replayed %d histories with restarts (%d left out: they never create a graph)" % (len(rreqs), len(trivial)))

    # ---------------------------------------------------------------- replay: crash points
    creqs = []
    # all calls out of the states reachable in <= 2 calls; a seeded choice of calls out of the deeper ones
    per_state = 8 if ctx.tier == "quick" else 14
    for si, s in enumerate(states):
        cases = list(range(len(s["cases"])))
        if (s["random"] or len(s["calls"]) > 2) and len(cases) > per_state:
            cases = sorted(ctx.rng.sample(cases, per_state))
        for ci in cases:
            c = s["cases"][ci]
            creqs.append(dict(si=si, ci=ci, cont=pick_cont(ctx, c["call"], alphabet)))
    lines = [dict(i=n, kind="crash", hist=[dict(call=x) for x in states[r["si"]]["calls"]], call=states[r["si"]]["cases"][r["ci"]]["call"],
                  cont=r["cont"]) for n, r in enumerate(creqs)]
    couts = run_harness(ctx, "crash", ("badger", lines))

    ctx.log("explored the crash points of %d (history, call) cases" % len(creqs))
    if os.environ.get("VERIF_C04_CORRUPT") == "1":
        corrupt(ctx, rreqs, routs, hs, couts, creqs, states)

    # ---------------------------------------------------------------- judgement by the specification
    jl = []            # lines for TLC
    meta = []
    state_keys = {}
    for h in hs:
        for e in h:
            k = storecmp.skey(e["after"])
            if k not in state_keys:
                state_keys[k] = len(jl)
                jl.append(dict(kind="state", i=len(jl), state=e["after"]))
                meta.append(("state", k))
    unjudgeable = []   # (request, k, problems)
    dedupe = {}
    for n, r in enumerate(creqs):
        o = couts[n]
        st = states[r["si"]]
        case = st["cases"][r["ci"]]
        calls = st["calls"]
        for bad in ("crash", "hang"):
            if bad in o:
                ctx.diverge("crash harness %s: %s" % (bad, o[bad]), "the process died for real while a crash point was explored",
                            dict(history=calls, call=case["call"], outcome={k: v for k, v in o.items() if k != "trace"}))
        if "crashes" not in o:
            continue
        for cr in o["crashes"]:
            if "obs" not in cr:
                continue
            obs, probs = reshape(cr["obs"])
            if probs:
                unjudgeable.append((n, cr["k"], probs))
                continue
            key = json.dumps([calls, case["call"], strip_ts(cr["obs"])], sort_keys=True)
            if key in dedupe:
                meta[dedupe[key]][2].append((n, cr["k"]))
            else:
                dedupe[key] = len(jl)
                jl.append(dict(kind="crash", i=len(jl), calls=calls, call=case["call"], obs=obs))
                meta.append(("crash", n, [(n, cr["k"])]))
            if "cont_obs" in cr:
                cobs, cprobs = reshape(cr["cont_obs"])
                if cprobs:
                    unjudgeable.append((n, cr["k"], ["after the next call: " + p for p in cprobs]))
                    continue
                frm = {g: dict(V=x["V"], E=x["E"]) for g, x in obs.items()}
                jl.append(dict(kind="cont", i=len(jl), calls=calls, interrupted=case["call"], call=r["cont"], obs=cobs, **{"from": frm}))
                meta.append(("cont", n, cr["k"]))
        # the completed call followed by a reopen
        dobs, dprobs = reshape(o["done"])
        if dprobs:
            unjudgeable.append((n, "done", dprobs))
        else:
            jl.append(dict(kind="done", i=len(jl), calls=calls, call=case["call"], obs=dobs))
            meta.append(("done", n))
    verdicts = judge(ctx, jl)
    if len(verdicts) != len(jl):
        raise Inconclusive("TLC judged %d of %d observations" % (len(verdicts), len(jl)))
    tbl = {k: verdicts[i]["obs"] for k, i in state_keys.items()}

    # ---------------------------------------------------------------- verdicts: clean restarts
    nsteps = 0
    pending = []   # divergences to be attributed by the twin run (same calls, no restart)
    pre_restart = 0
    for n, (d, hi, full) in enumerate(rreqs):
        o, h = routs[n], hs[hi]
        mode = ("" if d == "badger" else "[%s] " % d)
        for bad in ("crash", "hang"):
            if bad in o:
                ctx.diverge("%sreopen %s: %s" % (mode, bad, o[bad]), "the store %s while replaying a history with restarts" % bad,
                            dict(history=[x["call"] for x in h], full_reopen=full, outcome={k: v for k, v in o.items() if k not in ("steps", "trace")}))
        if "steps" not in o:
            continue
        nsteps += len(o["steps"])
        found, restarted = check_restart_history(h, o["steps"], tbl)
        if found:
            if not restarted:
                pre_restart += 1
            else:
                pending.append((n, found))
    # attribution: a divergence that the same calls show WITHOUT the restarts is not about reopening (C03)
    twins = {}
    if pending:
        tw = []
        for n, found in pending:
            d, hi, full = rreqs[n]
            calls = [x for x in hs[hi][: found[0] + 1] if x["call"]["op"] != "Restart"]
            tw.append((d, n, calls))
        for d in sorted({t[0] for t in tw}):
            mine = [(m, t) for m, t in enumerate(tw) if t[0] == d]
            lines = [dict(i=m, kind="restart", full=False, hist=[dict(call=x["call"]) for x in t[2]]) for m, t in mine]
            touts = run_harness(ctx, "twin_" + d, (d, lines))
            for m, t in mine:
                f2, _ = check_restart_history(t[2], touts[m]["steps"], tbl) if "steps" in touts[m] else (None, False)
                twins[t[1]] = f2
    not_reopen = 0
    for n, found in pending:
        d, hi, full = rreqs[n]
        h = hs[hi]
        f2 = twins.get(n)
        if f2 is not None and f2[1].split(": ", 1)[-1] == found[1].split(": ", 1)[-1]:
            not_reopen += 1
            continue
        step, sig, detail = found
        mode = ("" if d == "badger" else "[%s] " % d)
        ctx.diverge(mode + sig, "after step %d of a history with restarts the observable state differs from the never-stopped abstract store" % (step + 1),
                    dict(driver=d, full_reopen=full, history=[x["call"] for x in h[: step + 1]], specified=dict(res=h[step]["res"], after=h[step]["after"]),
                         observed=routs[n]["steps"][step], detail=detail))

    # ---------------------------------------------------------------- verdicts: crash points
    points = 0
    drift = Counter()
    pred = Counter()
    judged = {}      # (request, k) -> verdict
    for i, m in enumerate(meta):
        if m[0] == "crash":
            for nk in m[2]:
                judged[nk] = verdicts[i]
    conts = {(m[1], m[2]): verdicts[i] for i, m in enumerate(meta) if m[0] == "cont"}
    dones = {m[1]: verdicts[i] for i, m in enumerate(meta) if m[0] == "done"}
    prefix_bad = 0
    for n, r in enumerate(creqs):
        o = couts[n]
        st = states[r["si"]]
        case = st["cases"][r["ci"]]
        calls = st["calls"]
        if "crashes" not in o:
            continue
        call = case["call"]
        if o["n"] != case["n"] or sorted(o["kinds"]) != sorted(case["kinds"]):
            drift["%s: the call issued %d top-level writes %s, the model has %d %s" % (call["op"], o["n"], "/".join(o["kinds"]), case["n"], "/".join(case["kinds"]))] += 1
        v1 = judged.get((n, 1))
        # the state the call started from must itself be sound, otherwise this is not about the crash
        if v1 is not None and (v1["adm"] or v1["integ"]) and strip_ts(o["crashes"][0]["obs"]) == strip_ts(o["before"]):
            prefix_bad += 1
            continue
        before = storecmp.nstate(v1["before"]) if v1 else {}
        shape = crash_shape(call, before) if v1 else "?"
        tag = "%s(%s)" % (call["op"], shape)
        rep = dict(history=calls, interrupted_call=call, writes=o["kinds"])
        bad_by_class = {}
        k1_bad = False
        for cr in o["crashes"]:
            k = cr["k"]
            if "no_crash" in cr:
                raise Inconclusive("crash point %d of %s was not reached on the second run (%s)" % (k, call["op"], cr.get("msg")))
            points += 1
            v = judged.get((n, k))
            if v is None:
                continue
            agree = bool(v["adm"] or v["integ"]) == bool(case["predBad"][k - 1]) if k <= len(case["predBad"]) else None
            if st["modelOK"] and agree is not None and not v["lenient"]:
                pred["agree" if agree else ("model-missed" if (v["adm"] or v["integ"]) else "model-only")] += 1
            if v["integ"]:
                bad_by_class.setdefault(INTEGRITY, []).append(dict(before_write=k, of=o["n"], broken=sorted(v["integ"]), observed=cr["obs"]))
            if set(v["adm"]) & {"acknowledged-element-lost-or-changed", "foreign-element", "graph-existence"}:
                bad_by_class.setdefault(DURABLE, []).append(dict(before_write=k, of=o["n"], broken=sorted(v["adm"]), observed=cr["obs"]))
            if "element-neither-old-nor-new" in v["adm"]:
                bad_by_class.setdefault(PARTIAL, []).append(dict(before_write=k, of=o["n"], broken=sorted(v["adm"]), observed=cr["obs"]))
            # recovery: one more call on the reopened store, judged from what was observed after the crash
            cv = conts.get((n, k))
            if cv is not None and not v["adm"] and not v["integ"]:
                cc = r["cont"]
                enabled = not (cc["op"] == "AddGraph" and cc["g"] in cr["obs"])
                if enabled:
                    cbad = []
                    if cv["res"] != "any" and cv["res"] != cr.get("cont_res"):
                        cbad.append("returns %s, specified %s" % (cr.get("cont_res"), cv["res"]))
                    if not cv["same"]:
                        cbad.append("state differs")
                    cbad += sorted(CLASS_NAMES.get(x, x) for x in cv["integ"])
                    if cbad and k == 1:
                        # nothing had been written: this is a plain reopen followed by a call (Transparent)
                        k1_bad = True
                        ctx.diverge("reopen %s after restart: %s" % (family(cc["op"]), ",".join(cbad)),
                                    "a store was reopened (the interrupted call had written nothing) and the next call does not behave as on the never-stopped store",
                                    dict(rep, before_write=k, observed_after_reopen=cr["obs"], next_call=cc, specified=dict(res=cv["res"], after=cv["after"]),
                                         observed=dict(res=cr.get("cont_res"), msg=cr.get("cont_msg"), obs=cr.get("cont_obs"))))
                    elif cbad and not k1_bad:
                        # attributed to the interrupted call: what it left behind was not visible right after the crash
                        ctx.diverge("crash %s interrupted: %s" % (tag, INTEGRITY if not (set(cbad) - set(CLASS_NAMES.values()) - set(cv["integ"])) else "the next call misbehaves"),
                                    "what the interrupted call left behind shows at the next call (%s: %s): it does not behave as on the state observed after the crash"
                                    % (cc["op"], ",".join(cbad)),
                                    dict(rep, before_write=k, observed_after_crash=cr["obs"], next_call=cc, specified=dict(res=cv["res"], after=cv["after"]),
                                         observed=dict(res=cr.get("cont_res"), msg=cr.get("cont_msg"), obs=cr.get("cont_obs")), broken=sorted(cv["integ"])))
        for cls, occ in bad_by_class.items():
            ctx.diverge("crash %s interrupted: %s" % (tag, cls),
                        "after reopening a store whose process died between two top-level writes of the call, the graph read back is not an admissible, consistent graph",
                        dict(rep, crash_points=occ[:3]))
        dv = dones.get(n)
        if dv is not None and v1 is not None:
            dbad = []
            if dv["res"] != "any" and dv["res"] != o["res"]:
                dbad.append("returns %s, specified %s" % (o["res"], dv["res"]))
            if not dv["same"]:
                dbad.append("state differs")
            if dv["integ"]:
                dbad.append("integrity lost")
            # the uninterrupted call is C03's business unless it only shows after reopening
            if dbad and not v1["lenient"]:
                ctx.diverge("reopen after completed %s: %s" % (tag, ",".join(dbad)),
                            "the call ran to completion, the store was reopened and the graph read back differs from the specified result",
                            dict(rep, specified=dict(res=dv["res"], after=dv["after"]), observed=dict(res=o["res"], obs=o["done"]), broken=sorted(dv["integ"])))
    for n, k, probs in unjudgeable:
        r = creqs[n]
        st = states[r["si"]]
        call = st["cases"][r["ci"]]["call"]
        ctx.diverge("crash %s interrupted: %s" % (call["op"], probs[0].split(":")[0]), "the graph cannot be read back after the crash",
                    dict(history=st["calls"], interrupted_call=call, before_write=k, problems=probs))

    # ---------------------------------------------------------------- evidence
    if store_spec_differs():
        ctx.notes.append("spec/reopen/GraphStore.tla differs from spec/store/GraphStore.tla (the copy of the abstract store used here is older or newer)")
    for d, c in drift.most_common(8):
        ctx.notes.append("MODEL-DRIFT (%d cases) %s" % (c, d))
    if pred.get("model-missed"):
        ctx.notes.append("MODEL-DRIFT KVGraphImpl predicted a sound outcome for %d crash points whose real read-back was judged unsound" % pred["model-missed"])
    for h in hs[:: max(1, len(hs) // 3)][:3]:
        ctx.sample([x["call"] for x in h])
    for r in creqs[:: max(1, len(creqs) // 3)][:3]:
        st = states[r["si"]]
        ctx.sample(dict(history=st["calls"], interrupted=st["cases"][r["ci"]]["call"], writes=st["cases"][r["ci"]]["kinds"]))
    ctx.cov.update(evaluations=nsteps + points, distinct_nontrivial=len(hs) - len(trivial) + points, traces_validated_against_impl=len(rreqs) + points,
                   restart_histories=len(hs) - len(trivial), restart_histories_without_any_graph_left_out=len(trivial), restart_replays=len(rreqs), restart_steps_compared=nsteps,
                   crash_cases=len(creqs), crash_points=points, crash_points_judged_by_tlc=len(judged), recovery_calls_judged=len(conts),
                   model_prediction_agreement=dict(pred),   # model-only: keys the model calls unsound but no observation shows divergences_also_without_restart=not_reopen,
                   histories_diverging_before_the_restart=pre_restart, crash_cases_on_unsound_start_state=prefix_bad,
                   drivers=drivers(ctx),
                   rule="restarts: all sequences of 2 calls%s over the 64-call alphabet of GraphStore.tla with a restart after the 1st / 2nd%s call, "
                        "plus seeded random walks of 12 steps with 1-2 restarts; after every step the complete observation is compared with Obs of the "
                        "abstract state.  crashes: every call of the alphabet that issues at least one top-level write, out of every distinct stored state "
                        "reachable in <= %d calls (plus the end states of random walks), interrupted before each of the writes it really issued; every "
                        "read-back is judged by Admissible/Integrity in TLC; distinct = histories + crash points"
                        % ((" and 3 calls", " / 3rd", 3) if ctx.tier != "quick" else ("", "", 2)))
    ctx.assumptions += [
        "every top-level kvi write (Set, Delete, DeletePrefix, BulkWrite, Update) is atomic and durable in the underlying store, as the property states; "
        "torn writes inside Badger/Bolt/LevelDB and power loss are outside the model",
        "a crash is modelled by abandoning the request before a write and building a new kvgraph over the same store (all in-memory state dropped); "
        "clean restarts additionally close and re-open the store directory (a share of the histories in the quick tier, all in the thorough tier)",
        "timestamps are not compared across a restart (every graph is touched at open); after it they must follow successful mutations as in C03",
        "after a crash only ONE further call is judged (from the state observed after the crash); longer continuations are covered for clean restarts only",
        "re-creating an existing graph, batches mixing valid and invalid elements and the result code of deleting something absent are left open (as in C03)",
    ]
