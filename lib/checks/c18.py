"""C18 - bulk loading equals loading the same elements one by one (spec/bulk).

Abstract clause (BulkAbs.tla): Result(stream) = the GraphStore state after adding the valid elements
one at a time in stream order; insertCount = number of valid vertices/edges addressed to writable
existing graphs; errorCount >= number of vertices/edges that fail validation.  Implementation-shaped
clauses: BulkImpl.tla (the server's stream loop: graphName, element channel open/closed, per-graph
consumer goroutines, Recv / SwitchGraph / Validate / Forward / EOF, with 'close of a closed channel',
'send on a closed channel' and 'send to a channel nobody reads' as explicit states; TLC checks the
repaired variant against the abstract clause and prints, for the pinned variant, every finished run that
disagrees - PREDICTIONS) and StreamBatchImpl.tla (batching, final flush, shared error accumulator).

Binding: every stream TLC generates (and scaled versions around the real batch sizes) is replayed by
harness/bulk on GripServer.BulkAdd (with and without accounts.BulkWriteFilter + casbin policy), on
kvgraph's BulkAdd(chan), on util.StreamBatch with kvgraph sinks, and element by element through
AddVertex/AddEdge; BulkEditResult counts and harness/store.Observe of every graph are compared with the
abstract outcome.  Verdicts come only from these replays.

Also here: clause (g) of C06 (EditRequests.tla) - edit/lookup requests naming missing graphs, the empty
name, schema-suffixed names, GraphElements with neither vertex nor edge, elements without data - sent to
the in-process server handlers; a crash is reported with signature `server <Handler> crash: <site>`."""
import json, os, collections, shutil, tempfile
from concurrent.futures import ThreadPoolExecutor
import storecmp
from travcmp import norm
from vlib import Inconclusive

POLICY_WRITABLE = {"all": ["*"], "g1": ["g1", "g3"], "g2": ["g2"]}   # Policies of BulkAbs.tla as casbin grants


def skey_el(stream):
    return json.dumps(stream, sort_keys=True)


def dedup(msgs, key):
    seen, out = set(), []
    for m in msgs:
        k = json.dumps(m[key], sort_keys=True)
        if k not in seen:
            seen.add(k)
            out.append(m)
    return out


def features(stream):
    f = set()
    gs = [e["g"] for e in stream]
    if "g3" in gs:
        f.add("missing-graph")
    if "" in gs:
        f.add("empty-name")
    if any(g.endswith("__schema__") for g in gs):
        f.add("schema-name")
    if any(e["k"] == "n" for e in stream):
        f.add("neither")
    runs = [g for n, g in enumerate(gs) if n == 0 or gs[n - 1] != g]
    if len(runs) > len(set(runs)):
        f.add("graph-revisited")
    return f


POLICY_VISIBLE = {"all": None, "g1": {"g1", "g3"}, "g2": {"g2"}}


def consumers(stream, visible):
    """number of per-graph loaders the server starts for the stream (runs of elements naming an existing graph)"""
    gs = [e["g"] for e in stream if visible is None or e["g"] in visible]
    gs = [g for g in gs if not g.endswith("__schema__")]
    runs = [g for n, g in enumerate(gs) if n == 0 or gs[n - 1] != g]
    return sum(1 for g in runs if g in ("g1", "g2"))


def listing_diff(spec_g, real_g):
    """scaled streams: compare the complete vertex and edge listings with the abstract graph"""
    bad = []
    if "panic" in real_g:
        return ["panic:" + str(real_g["panic"])[:60]]
    if real_g.get("dupV") or real_g.get("dupE"):
        bad.append("listing-duplicates")
    for name in ("V", "E"):
        s = norm(storecmp.dictify(spec_g.get(name)))
        r = norm(real_g.get(name) or {})
        if s != r:
            if set(s) - set(r):
                bad.append(name + "-listing-missing")
            elif set(r) - set(s):
                bad.append(name + "-listing-extra")
            else:
                bad.append(name + "-listing-content")
    return bad


def strip_ts(obs):
    out = {}
    for g, o in (obs or {}).items():
        out[g] = {k: v for k, v in o.items() if k not in ("ts", "listed")}
    return out


class Judge:
    def __init__(self, ctx, tbl):
        self.ctx, self.tbl = ctx, tbl
        self.n = 0
        self.nontrivial = set()

    def store_aspects(self, want_store, obs, scaled):
        aspects = []
        want = storecmp.nstate(want_store)
        table = None if scaled else self.tbl.get(json.dumps(want, sort_keys=True))
        if not scaled and table is None:
            raise Inconclusive("abstract result state missing from the observation table")
        for g in ("g1", "g2", "g3"):
            present = g in obs and "listed_but_unopenable" not in obs.get(g, {})
            if (g in want) != present:
                aspects.append("graph-existence")
                continue
            if g not in want:
                continue
            if scaled:
                aspects += listing_diff(want_store[g], obs[g])
            else:
                aspects += storecmp.cmp_graph(storecmp.dictify(table)[g], obs[g])
        return sorted(set(aspects))

    def judge(self, rq, o, want, extra_low=0):
        """rq: the request, o: harness answer, want: abstract outcome {store, ins, errLow}"""
        ctx = self.ctx
        tgt = rq["target"] + (" (consumers committing in another order)" if rq.get("order") else " (consumers starting late)" if rq.get("late") else "")
        scaled = rq.get("scaled", False)
        rep = dict(target=rq["target"], policy=rq.get("pol"), batch=rq.get("batch"), order=rq.get("order"), late=rq.get("late"),
                   stream=rq["stream"] if len(rq["stream"]) <= 12 else dict(base=rq.get("base"), scaled_to=len(rq["stream"])),
                   specified=dict(ins=want["ins"], errLow=want["errLow"], store=want["store"] if not scaled else "(large)"),
                   observed={k: v for k, v in o.items() if k not in ("obs", "trace", "i")})
        self.n += 1
        for bad in ("crash", "hang"):
            if o.get(bad):
                site = o[bad]
                handler = "BulkAdd" if rq["target"].startswith("server") else ("AddVertex/AddEdge" if rq["target"] == "sequential" else rq["target"])
                rep["trace"] = (o.get("trace") or "")[:3000]
                ctx.diverge("server %s %s: %s" % (handler, bad, site) if rq["target"] in ("server", "server+filter", "sequential")
                            else "bulk %s %s: %s" % (rq["target"], bad, site),
                            "a bulk load %s (%s)" % ("made the handler panic" if bad == "crash" else "never returned", ", ".join(sorted(features(rq["stream"]))) or "plain stream"), rep)
                return True
        if o.get("died"):
            raise Inconclusive("a bulk worker died without a Go panic")
        if "harness_err" in o:
            raise Inconclusive("bulk harness: %s" % o["harness_err"])
        obs = o.get("obs") or {}
        aspects = self.store_aspects(want["store"], obs, scaled)
        if aspects:
            rep["aspects"] = aspects
            rep["observed_store"] = {g: dict(V=obs[g].get("V"), E=obs[g].get("E")) for g in obs if isinstance(obs[g], dict)} if not scaled else "(large)"
            cls = ",".join(sorted(storecmp.classes(aspects)))
            if rq["target"] == "kvgraph" and want["errLow"] > 0:
                cls = "an invalid element discards valid elements of the same stream"
            elif rq["target"] == "streambatch" and any(e["k"] == "e" and e["g"] == "g1" and (e["r"].get("from") == "" or e["r"].get("to") == "") for e in rq["stream"]):
                cls = "an edge without endpoints reaches the sink and fails its whole batch"
            elif rq["target"].startswith("server") and consumers(rq["stream"], POLICY_VISIBLE[rq.get("pol", "all")]) >= 2:
                cls = "elements lost, misplaced or applied out of order when the stream switches graphs"
            ctx.diverge("bulk %s: %s" % (tgt, cls),
                        "after the load the observable state differs from adding the valid elements one at a time", rep)
            return True
        if rq["target"] in ("server", "server+filter"):
            if o.get("noresult"):
                ctx.diverge("bulk %s: no BulkEditResult" % tgt, "the handler returned without a result", rep)
                return True
            if o.get("ins") != want["ins"]:
                f = features(rq["stream"])
                why = "empty-name" if "empty-name" in f and o.get("ins", 0) > want["ins"] else ("more" if o.get("ins", 0) > want["ins"] else "less")
                ctx.diverge("bulk %s: insert count %s" % (tgt, {"empty-name": "includes elements for the empty graph name that are stored nowhere",
                                                                 "more": "above the number of valid elements", "less": "below the number of valid elements"}[why]),
                            "BulkEditResult.insertCount differs from the number of valid elements addressed to writable existing graphs", rep)
                return True
            if o.get("errs", 0) < want["errLow"]:
                ctx.diverge("bulk %s: error count below the number of invalid elements" % tgt,
                            "BulkEditResult.errorCount is smaller than the number of elements that fail validation", rep)
                return True
        elif rq["target"] == "kvgraph":
            got = sum((o.get("graph_errs") or {}).values())
            if got < want["errLow"]:
                ctx.diverge("bulk kvgraph: fewer errors reported than invalid elements", "BulkAdd(chan) returned fewer errors than elements that fail validation", rep)
                return True
        elif rq["target"] == "streambatch":
            if o.get("nerr", 0) < want["errLow"] + extra_low:
                ctx.diverge("bulk streambatch: fewer errors reported than invalid/foreign elements",
                            "StreamBatch returned fewer errors than elements that fail validation or name another graph", rep)
                return True
        if want["ins"] > 0:
            self.nontrivial.add(skey_el(rq["stream"]) if not scaled else (skey_el(rq.get("base")), len(rq["stream"])))
        return False


def requests_for(stream_msg, idx, scaled=False, nvar=6):
    """the replay requests for one TLC stream message: always the plain server; of the six other
    variants `nvar` are taken in rotation (all of them are covered evenly over the stream space)"""
    st = stream_msg["stream"]
    out = stream_msg["out"]
    base = dict(kind="stream", stream=st)
    if scaled:
        base.update(scaled=True, base=stream_msg["base"])
    foreign = sum(1 for e in st if e["g"] != "g1")
    reqs = [(dict(base, target="server", pol="all"), out["all"], 0)]
    variants = [(dict(base, target="server+filter", pol=p, writable=POLICY_WRITABLE[p]), out[p], 0) for p in (["g1"] if scaled else ["all", "g1", "g2"])]
    # every other stream hands kvgraph its invalid elements in a second concrete shape: valid id, label and endpoints but
    # data that cannot be stored (a Go []string) - still one element that is skipped and counted, nothing more
    variants.append((dict(base, target="kvgraph", pol="all", unstorable=(idx % 2 == 1)), out["all"], 0))
    variants.append((dict(base, target="streambatch", pol="g1", graph="g1", batch=(50 if scaled else 1 + (idx // 3) % 3)), out["g1"], foreign))
    variants.append((dict(base, target="sequential", pol="all"), out["all"], 0))
    if nvar >= len(variants):
        return reqs + variants
    return reqs + [variants[(idx * nvar + j) % len(variants)] for j in range(nvar)]


def run(ctx):
    quick = ctx.tier == "quick"
    # ---------------------------------------------------------------- 1. TLC: models and generators (independent runs, in parallel)
    jobs = {
        "states": dict(module="BulkStates", cfg="BulkStates.cfg"),
        "gen": dict(module="BulkLoad", cfg="BulkLoad_quick.cfg"),
        "relabel": dict(module="BulkLoad", cfg="BulkLoad_relabel.cfg"),
        "sim": dict(module="BulkLoad", cfg="BulkLoad_sim.cfg", simulate="num=%d" % (12 if quick else 300), depth=6, workers=1),
        "sim4": dict(module="BulkLoad", cfg="BulkLoad_sim4.cfg", simulate="num=%d" % (6 if quick else 200), depth=5, workers=1),
        "scaled": dict(module="BulkLoad", cfg="BulkLoad_scaled.cfg", simulate="num=%d" % (1 if quick else 12), depth=4, workers=1),
        "waits": dict(module="BulkImpl", cfg="BulkImpl_waits.cfg" if quick else "BulkImpl_waits4.cfg"),
        "pinned": dict(module="BulkImpl", cfg="BulkImpl_pinned_a.cfg" if quick else "BulkImpl_pinned_full.cfg"),
        "pinned_m": dict(module="BulkImpl", cfg="BulkImpl_pinned_m.cfg"),
        "pinned_refines": dict(module="BulkImpl", cfg="BulkImpl_pinned_refines.cfg", expect_violation=True),
        "sbatch": dict(module="StreamBatchImpl", cfg="StreamBatchImpl_quick.cfg" if quick else "StreamBatchImpl.cfg"),
        "shared": dict(module="StreamBatchImpl", cfg="StreamBatchImpl_shared.cfg", expect_violation=True),
        "edit": dict(module="EditRequests", cfg="EditRequests.cfg"),
    }

    def one(name):
        kw = dict(jobs[name])
        module, cfg = kw.pop("module"), kw.pop("cfg")
        kw.setdefault("workers", 8)
        return name, ctx.tlc("bulk", module, cfg, timeout=1500, label=name, count=(name in ("gen", "waits", "pinned", "pinned_m", "sbatch", "states")), **kw)

    res = {}
    with ThreadPoolExecutor(max_workers=3) as ex:
        futs = [ex.submit(one, n) for n in jobs]
        errs = []
        for f in futs:
            try:
                n, r = f.result()
                res[n] = r
            except Inconclusive as e:
                errs.append(e)
        if errs:
            raise errs[0]

    tbl = {storecmp.skey(o["state"]): o["obs"] for o in res["states"].msgs.get("obs", [])}
    init = res["gen"].msgs.get("init", [None])[0]
    if not tbl or init is None:
        raise Inconclusive("BulkStates/BulkLoad printed no observation table / initial store")
    streams = dedup(res["gen"].msgs.get("stream", []) + res["relabel"].msgs.get("stream", []) + res["sim4"].msgs.get("stream", []) + res["sim"].msgs.get("stream", []), "stream")
    scaled = dedup(res["scaled"].msgs.get("scaled", []), "stream")
    # predictions of the pinned-loop model: one per (stream, policy, kind)
    preds, seenp = [], set()
    for p in res["pinned"].msgs.get("pred", []) + res["pinned_m"].msgs.get("pred", []):
        k = (skey_el(p["stream"]), p["pol"], p["kind"])
        if k not in seenp:
            seenp.add(k)
            preds.append(p)
    pred_kinds = collections.Counter(p["kind"] for p in preds)
    minimal = {}
    for p in preds:
        k = p["kind"]
        if k not in minimal or (len(p["stream"]), len(p["sched"])) < (len(minimal[k]["stream"]), len(minimal[k]["sched"])):
            minimal[k] = p
    ctx.notes.append(dict(model_predictions_for_the_pinned_loop={k: dict(count=v, minimal=[[e["g"], e["k"], e["r"].get("id", "")] for e in minimal[k]["stream"]],
                                                                         policy=minimal[k]["pol"], schedule=minimal[k]["sched"]) for k, v in pred_kinds.items()},
                          pinned_loop_refinement="TLC: Refines %s on the pinned-loop model (shortest counterexample = a single element naming a missing graph)" %
                                                 ("violated" if res["pinned_refines"].violation else "holds"),
                          streambatch_shared_accumulator="TLC: NoLostError %s on the model with read/write appends (a lead for C17, no verdict here)" %
                                                         ("violated" if res["shared"].violation else "holds")))
    if not streams:
        raise Inconclusive("no streams generated")
    ctx.log("streams=%d scaled=%d predictions=%s" % (len(streams), len(scaled), dict(pred_kinds)))

    # ---------------------------------------------------------------- 2. requests
    reqs = []
    thin = int(os.environ.get("VERIF_C18_THIN", "1") or 1)      # development aid: replay every n-th stream only
    all_streams = streams
    if thin > 1:
        streams = streams[::thin]
        scaled = scaled[::thin]
    for n, s in enumerate(streams):
        reqs += requests_for(s, n, nvar=(1 if quick else 6))
    for n, s in enumerate(scaled):
        reqs += requests_for(s, n, scaled=True)
    # the model's commit-order witnesses, replayed with that schedule imposed on the consumer goroutines
    by_stream = {skey_el(s["stream"]): s for s in all_streams}
    sched = []
    for cls, cap in (("commit order", 12 if quick else 60), ("started late", 40 if quick else 300)):
        ps = [p for p in preds if cls in p["kind"] and p["pol"] == "all"]
        sched += ps[:: max(1, len(ps) // cap)]
    for p in sched:
        s = by_stream.get(skey_el(p["stream"]))
        if s is None:
            continue
        if "commit order" in p["kind"]:
            order = [x[1] for x in p["sched"] if x[0] == "commit"]
            reqs.append((dict(kind="stream", stream=s["stream"], target="server", pol="all", order=order), s["out"]["all"], 0))
        else:
            reqs.append((dict(kind="stream", stream=s["stream"], target="server", pol="all", late=True), s["out"]["all"], 0))
    if os.environ.get("VERIF_C18_CORRUPT"):
        # self-test of the binding: falsify one expected insert count; the check must then report a divergence
        for n, (rq, want, extra) in enumerate(reqs):
            if rq["target"] == "server" and want["ins"] > 0 and not rq.get("scaled"):
                reqs[n] = (rq, dict(want, ins=want["ins"] + 1), extra)
                break
    edits = dedup([dict(req=r) for r in res["edit"].msgs.get("req", [])], "req")
    lines = [dict(setup=True, init=init)]
    for i, (rq, want, extra) in enumerate(reqs):
        lines.append(dict({k: v for k, v in rq.items() if k not in ("base", "scaled", "pol")}, i=i))
    nstream = len(reqs)
    for j, e in enumerate(edits):
        lines.append(dict(kind="edit", req=e["req"], i=nstream + j))
    inp = ctx.write_ndjson("bulk_in.ndjson", lines)
    outp = os.path.join(ctx.scratch, "bulk_out.ndjson")
    # the stores live on tmpfs when there is one: Badger syncs every transaction, which dominates the replay otherwise
    shm = None
    if os.path.isdir("/dev/shm") and os.access("/dev/shm", os.W_OK):
        shm = tempfile.mkdtemp(prefix="verif_C18_", dir="/dev/shm")
    try:
        ctx.harness(["bulk", "-j", "14", "-timeout", "120s"], input_path=inp, output_path=outp, timeout=3000,
                    env=(dict(TMPDIR=shm) if shm else None))
    finally:
        if shm:
            shutil.rmtree(shm, ignore_errors=True)
    outs = {o["i"]: o for o in ctx.read_ndjson(outp) if "i" in o}
    if len(outs) != len(lines) - 1:
        raise Inconclusive("bulk harness answered %d of %d requests" % (len(outs), len(lines) - 1))

    # ---------------------------------------------------------------- 3. verdicts
    J = Judge(ctx, tbl)
    bad = set()
    for i, (rq, want, extra) in enumerate(reqs):
        if J.judge(rq, outs[i], want, extra):
            bad.add(i)
    # differential: the state after the bulk load equals the state after the one-by-one load on a second store
    ndiff = 0
    groups = collections.defaultdict(dict)
    for i, (rq, want, extra) in enumerate(reqs):
        if rq.get("order") or rq.get("late"):
            continue
        groups[skey_el(rq["stream"])][rq["target"] + ":" + rq.get("pol", "")] = (rq, outs[i], i)
    for k, g in groups.items():
        if "server:all" in g and "sequential:all" in g:
            (rq, a, ia), (_, b, ib) = g["server:all"], g["sequential:all"]
            if ia in bad or ib in bad:
                continue   # already reported against the abstract state
            ndiff += 1
            if strip_ts(a.get("obs")) != strip_ts(b.get("obs")):
                ctx.diverge("bulk server: state differs from the one-by-one load of the same stream",
                            "the complete observation after BulkAdd differs from the observation after adding the same elements one at a time on a second store",
                            dict(stream=rq["stream"] if len(rq["stream"]) <= 12 else dict(base=rq.get("base"), scaled_to=len(rq["stream"])),
                                 bulk=strip_ts(a.get("obs")) if len(rq["stream"]) <= 12 else "(large)", one_by_one=strip_ts(b.get("obs")) if len(rq["stream"]) <= 12 else "(large)"))
    # edit requests (C06 clause g)
    nedit = 0
    for j, e in enumerate(edits):
        o = outs[nstream + j]
        r = e["req"]
        nedit += 1
        if "harness_err" in o:
            raise Inconclusive("bulk harness (edit): %s" % o["harness_err"])
        for bad in ("crash", "hang"):
            if o.get(bad):
                ctx.diverge("server %s %s: %s" % (r["op"].replace("TraversalEmpty", "Traversal"), bad, o[bad]),
                            "an edit/lookup request made the server handler %s (C06 clause g)" % ("panic" if bad == "crash" else "block"),
                            dict(request=r, site=o[bad], trace=(o.get("trace") or "")[:3000]))
        if o.get("died"):
            raise Inconclusive("a worker died without a Go panic on an edit request")
        if not o.get("crash") and not o.get("hang") and o.get("probe_ok") is False:
            ctx.diverge("server %s: no longer serving afterwards" % r["op"], "a lookup on an existing graph failed after the request", dict(request=r, observed=o))

    for s in streams[:: max(1, len(streams) // 3)][:3]:
        ctx.sample(dict(stream=s["stream"], specified=s["out"]["all"]))
    if edits:
        ctx.sample(dict(edit_request=edits[len(edits) // 2]["req"]))
    ctx.cov.update(evaluations=J.n + nedit, distinct_nontrivial=len(J.nontrivial), traces_validated_against_impl=J.n + nedit,
                   streams=len(streams), scaled_streams=len(scaled), scheduled_replays=len(sched), edit_requests=nedit, differential_pairs=ndiff,
                   exhaustive=True, observation_table_states=len(tbl),
                   rule="every stream of length <= 3 over the 18-element alphabet of BulkAbs.tla ({g1, g2, missing graph, empty name, schema-suffixed name} x "
                        "{vertex, edge, neither} x {valid, invalid}, repeated ids) plus sampled streams of length 4 and 5 and scaled streams of lengths 49-51, 99-101, 250; "
                        "each replayed on server.BulkAdd (plain; behind BulkWriteFilter with 3 policies), kvgraph BulkAdd, util.StreamBatch (batch 1-3, 50) and "
                        "one-by-one AddVertex/AddEdge (quick tier: the plain server for every stream plus one of the six other variants in rotation), "
                        "then counts and the complete observation compared with the abstract outcome; "
                        "evaluations = judged replays + edit requests; non-trivial = distinct streams with at least one storable element"
                   )
    ctx.assumptions += [
        "errorCount is only bounded from below (number of vertices/edges that fail validation); whether elements naming a missing graph, a schema-suffixed graph, "
        "the empty graph name, or carrying neither vertex nor edge are counted as errors is left open; elements denied by the policy are not counted at all",
        "edges with an empty id are given a generated id by the bulk paths and are therefore not part of the invalid alphabet; elements carrying both a vertex and an edge are not generated",
        "re-labelling an existing element through a stream is excluded (C03 known finding: stale label index)",
        "kvgraph over Badger only; the gRPC transport is replaced by an in-process grpc.ServerStream driven through the generated stream handler and accounts.Config.StreamInterceptor()",
        "commit-order predictions are replayed by delaying the start of a consumer goroutine's graph.BulkAdd (a legal schedule) for at most 400 ms",
        "StreamBatch's unsynchronised error accumulator is modelled (lost error predicted by TLC) but no verdict is taken from it: data races are observed by C17",
        "a panic recovered on the request goroutine counts as a crash: grip's gRPC server installs no recovery interceptor",
    ]
