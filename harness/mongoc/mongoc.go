// Package mongoc binds the C14 specifications to the real compilers.
//
// mode "docs": the abstract documents [id,label,x] printed by MongoGrid.tla are
// packed with the real mongo.PackVertex and flattened to path -> tagged value.
//
// mode "has": V().has(e) is compiled by the real Mongo compiler
// (mongo.VerifCompile, no database); the $match document it emitted is
// normalised to the abstract filter syntax of MongoFilter.tla; every leaf
// condition is also translated alone (mongo.VerifConvertHas) to build the "mix"
// tree.  Nothing is evaluated here: the meaning of the documents is decided by
// TLC (MongoEval.tla).
//
// mode "prog": a statement sequence printed by MongoTyping.tla is compiled by
// the Mongo compiler and by core.NewCompiler(nil); accept/reject, result type
// and mark types of both are reported.
package mongoc

import (
	"encoding/json"
	"fmt"
	"reflect"
	"runtime/debug"
	"sort"
	"strings"

	"verifharness/qry"
	"verifharness/sup"
	"verifharness/val"

	"github.com/bmeg/grip/engine/core"
	"github.com/bmeg/grip/gdbi"
	"github.com/bmeg/grip/gripql"
	"github.com/bmeg/grip/mongo"
	"go.mongodb.org/mongo-driver/bson"
	"google.golang.org/protobuf/encoding/protojson"
)

type handler struct{}

func New() sup.Handler { return &handler{} }

func (h *handler) Setup(req map[string]interface{}) error { return nil }
func (h *handler) Close()                                  {}

// ---------------------------------------------------------------- bson -> plain

// plain converts bson containers (bson.M, bson.D, bson.A, typed slices and maps)
// to map[string]interface{} / []interface{} and numbers to float64.
func plain(v interface{}) interface{} {
	switch x := v.(type) {
	case nil, bool, string, float64:
		return x
	case bson.D:
		m := map[string]interface{}{}
		for _, e := range x {
			m[e.Key] = plain(e.Value)
		}
		return m
	}
	rv := reflect.ValueOf(v)
	switch rv.Kind() {
	case reflect.Map:
		m := map[string]interface{}{}
		for _, k := range rv.MapKeys() {
			m[fmt.Sprint(k.Interface())] = plain(rv.MapIndex(k).Interface())
		}
		return m
	case reflect.Slice, reflect.Array:
		out := make([]interface{}, 0, rv.Len())
		for i := 0; i < rv.Len(); i++ {
			out = append(out, plain(rv.Index(i).Interface()))
		}
		return out
	case reflect.Int, reflect.Int8, reflect.Int16, reflect.Int32, reflect.Int64:
		return float64(rv.Int())
	case reflect.Uint, reflect.Uint8, reflect.Uint16, reflect.Uint32, reflect.Uint64:
		return float64(rv.Uint())
	case reflect.Float32, reflect.Float64:
		return rv.Float()
	}
	return fmt.Sprintf("%T:%v", v, v)
}

func sortedKeys(m map[string]interface{}) []string {
	ks := make([]string, 0, len(m))
	for k := range m {
		ks = append(ks, k)
	}
	sort.Strings(ks)
	return ks
}

func isOpDoc(v interface{}) (map[string]interface{}, bool) {
	m, ok := v.(map[string]interface{})
	if !ok || len(m) == 0 {
		return nil, false
	}
	for k := range m {
		if !strings.HasPrefix(k, "$") {
			return nil, false
		}
	}
	return m, true
}

// normPred normalises the value of a field clause: an operator document or a literal.
func normPred(v interface{}) []interface{} {
	m, ok := isOpDoc(v)
	if !ok {
		return []interface{}{map[string]interface{}{"o": "$eq", "v": val.Encode(v)}}
	}
	out := []interface{}{}
	for _, k := range sortedKeys(m) {
		switch k {
		case "$not", "$elemMatch":
			if sub, ok := isOpDoc(m[k]); ok {
				out = append(out, map[string]interface{}{"o": k, "p": normPred(sub)})
			} else if mm, ok := m[k].(map[string]interface{}); ok && len(mm) == 0 {
				out = append(out, map[string]interface{}{"o": k, "p": []interface{}{}})
			} else {
				out = append(out, map[string]interface{}{"o": k + " (non-operator operand)", "v": val.Encode(m[k])})
			}
		default:
			out = append(out, map[string]interface{}{"o": k, "v": val.Encode(m[k])})
		}
	}
	return out
}

// NormFilter normalises a (plain) filter document to the syntax of MongoFilter.tla.
func NormFilter(v interface{}) []interface{} {
	m, ok := v.(map[string]interface{})
	if !ok {
		return []interface{}{map[string]interface{}{"k": "unk", "name": fmt.Sprintf("filter is not a document: %T", v)}}
	}
	out := []interface{}{}
	for _, k := range sortedKeys(m) {
		switch k {
		case "$and", "$or", "$nor":
			arr, ok := m[k].([]interface{})
			if !ok {
				out = append(out, map[string]interface{}{"k": "unk", "name": k + " (operand is not an array)"})
				continue
			}
			fs := []interface{}{}
			for _, x := range arr {
				fs = append(fs, NormFilter(x))
			}
			out = append(out, map[string]interface{}{"k": k[1:], "fs": fs})
		default:
			if strings.HasPrefix(k, "$") {
				out = append(out, map[string]interface{}{"k": "unk", "name": k})
			} else {
				out = append(out, map[string]interface{}{"k": "field", "path": k, "p": normPred(m[k])})
			}
		}
	}
	return out
}

// flatten lists every node of a document under its dotted path.
func flatten(prefix string, v interface{}, out map[string]interface{}) {
	if prefix != "" {
		out[prefix] = val.Encode(v)
	}
	if m, ok := v.(map[string]interface{}); ok {
		for k, x := range m {
			p := k
			if prefix != "" {
				p = prefix + "." + k
			}
			flatten(p, x, out)
		}
	}
}

// ---------------------------------------------------------------- compile

type outcome struct {
	Ok    bool              `json:"ok"`
	Err   string            `json:"err,omitempty"`
	Panic string            `json:"panic,omitempty"`
	Trace string            `json:"trace,omitempty"`
	Type  string            `json:"type,omitempty"`
	Marks map[string]string `json:"marks,omitempty"`
	// mongo only
	Native bool          `json:"native,omitempty"`
	Start  string        `json:"start,omitempty"`
	Stages []string      `json:"stages,omitempty"`
	Match  []interface{} `json:"-"`
}

func markNames(m map[string]gdbi.DataType) map[string]string {
	out := map[string]string{}
	for k, t := range m {
		out[k] = qry.TypeName(t)
	}
	return out
}

func compileMongo(stmts []*gripql.GraphStatement) (o outcome) {
	defer func() {
		if r := recover(); r != nil {
			o = outcome{Panic: fmt.Sprintf("%v", r), Trace: panicSite(string(debug.Stack()))}
		}
	}()
	stages, start, native, ty, marks, err := mongo.VerifCompile("g", stmts)
	if err != nil {
		return outcome{Err: err.Error()}
	}
	o = outcome{Ok: true, Type: qry.TypeName(ty), Marks: markNames(marks), Native: native, Start: start}
	for _, st := range stages {
		for _, e := range st {
			o.Stages = append(o.Stages, e.Key)
			if e.Key == "$match" {
				o.Match = append(o.Match, plain(e.Value))
			}
		}
	}
	return o
}

func compileCore(stmts []*gripql.GraphStatement) (o outcome) {
	defer func() {
		if r := recover(); r != nil {
			o = outcome{Panic: fmt.Sprintf("%v", r), Trace: panicSite(string(debug.Stack()))}
		}
	}()
	pipe, err := core.NewCompiler(nil).Compile(stmts, nil)
	if err != nil {
		return outcome{Err: err.Error()}
	}
	return outcome{Ok: true, Type: qry.TypeName(pipe.DataType()), Marks: markNames(pipe.MarkTypes())}
}

// panicSite names the first grip frame of a stack trace.
func panicSite(stack string) string {
	lines := strings.Split(stack, "\n")
	for i, l := range lines {
		if strings.HasPrefix(l, "github.com/bmeg/grip/") && i+1 < len(lines) {
			fn := strings.TrimPrefix(l, "github.com/bmeg/grip/")
			if j := strings.Index(fn, "("); j > 0 {
				fn = fn[:j]
			}
			return fn
		}
	}
	return "?"
}

func hasExpr(e map[string]interface{}, key string) (*gripql.HasExpression, error) {
	b, _ := json.Marshal(qry.HasJSON(e, key))
	he := &gripql.HasExpression{}
	if err := protojson.Unmarshal(b, he); err != nil {
		return nil, err
	}
	return he, nil
}

// mixTree replaces every leaf condition of e by the filter document the real
// translator emits for that leaf alone.
func mixTree(e map[string]interface{}, key string) (out map[string]interface{}, err error) {
	defer func() {
		if r := recover(); r != nil {
			out, err = nil, fmt.Errorf("panic: %v", r)
		}
	}()
	switch e["t"] {
	case "c":
		he, err := hasExpr(e, key)
		if err != nil {
			return nil, err
		}
		return map[string]interface{}{"t": "f", "f": NormFilter(plain(mongo.VerifConvertHas(he, false)))}, nil
	case "not":
		sub, err := mixTree(e["e"].(map[string]interface{}), key)
		if err != nil {
			return nil, err
		}
		return map[string]interface{}{"t": "not", "e": sub}, nil
	default:
		es := []interface{}{}
		arr, _ := e["es"].([]interface{})
		for _, x := range arr {
			sub, err := mixTree(x.(map[string]interface{}), key)
			if err != nil {
				return nil, err
			}
			es = append(es, sub)
		}
		return map[string]interface{}{"t": e["t"], "es": es}, nil
	}
}

func (h *handler) Handle(req map[string]interface{}) interface{} {
	resp := map[string]interface{}{"i": req["i"]}
	switch req["mode"] {
	case "docs":
		docs, _ := req["docs"].([]interface{})
		mdocs := []interface{}{}
		for _, d := range docs {
			dm := d.(map[string]interface{})
			id, _ := val.Decode(dm["id"])
			label, _ := val.Decode(dm["label"])
			data := map[string]interface{}{"other": "z"}
			if x, present := val.Decode(dm["x"]); present {
				data["x"] = x
			}
			packed := mongo.PackVertex(&gdbi.Vertex{ID: id.(string), Label: label.(string), Data: data, Loaded: true})
			flat := map[string]interface{}{}
			flatten("", plain(packed), flat)
			mdocs = append(mdocs, flat)
		}
		resp["mdocs"] = mdocs

	case "has":
		e, _ := req["e"].(map[string]interface{})
		key, _ := req["key"].(string)
		he, err := hasExpr(e, key)
		if err != nil {
			resp["wire_err"] = err.Error()
			return resp
		}
		stmts := []*gripql.GraphStatement{
			{Statement: &gripql.GraphStatement_V{}},
			{Statement: &gripql.GraphStatement_Has{Has: he}},
		}
		m := compileMongo(stmts)
		resp["mongo"] = m
		resp["core"] = compileCore(stmts)
		if m.Ok {
			// V() with no ids emits one $project and no $match: every later $match stage belongs
			// to the has statement (consecutive $match stages are a conjunction)
			shapeOK := len(m.Stages) >= 1 && m.Stages[0] == "$project"
			for _, s := range m.Stages[1:] {
				if s != "$match" {
					shapeOK = false
				}
			}
			switch {
			case !shapeOK:
				resp["shape_err"] = fmt.Sprintf("stages after V() are not all $match: %v", m.Stages)
			case len(m.Match) == 1:
				resp["f"] = NormFilter(m.Match[0])
			default:
				fs := []interface{}{}
				for _, x := range m.Match {
					fs = append(fs, NormFilter(x))
				}
				if len(fs) == 0 {
					resp["f"] = []interface{}{}
				} else {
					resp["f"] = []interface{}{map[string]interface{}{"k": "and", "fs": fs}}
				}
			}
			raw, _ := json.Marshal(m.Match)
			resp["raw"] = string(raw)
		}
		if mix, err := mixTree(e, key); err == nil {
			resp["mix"] = mix
		} else {
			resp["mix_err"] = err.Error()
		}

	case "prog":
		prog, _ := req["prog"].([]interface{})
		q, err := qry.Parse("g", prog)
		if err != nil {
			resp["wire_err"] = err.Error()
			return resp
		}
		resp["mongo"] = compileMongo(q.Query)
		resp["core"] = compileCore(q.Query)
	default:
		resp["wire_err"] = fmt.Sprintf("unknown mode %v", req["mode"])
	}
	return resp
}
