// Package qry converts the step records printed by the TLA+ specifications into
// GripQL statements (through protojson, i.e. the wire format), runs compiled
// pipelines and normalises result rows.
package qry

import (
	"context"
	"encoding/json"
	"fmt"
	"sort"
	"strings"

	"verifharness/val"

	"github.com/bmeg/grip/gdbi"
	"github.com/bmeg/grip/gripql"
	"google.golang.org/protobuf/encoding/protojson"
)

func strList(raw interface{}) []interface{} {
	a, _ := raw.([]interface{})
	if a == nil {
		return []interface{}{}
	}
	return a
}

// HasJSON converts a has-expression record to the GripQL JSON form.
func HasJSON(e map[string]interface{}, defKey string) map[string]interface{} {
	switch e["t"] {
	case "c":
		key, _ := e["key"].(string)
		if key == "" {
			key = defKey
		}
		v, _ := val.Decode(e["arg"])
		return map[string]interface{}{"condition": map[string]interface{}{
			"key": key, "value": v, "condition": strings.ToUpper(e["op"].(string))}}
	case "not":
		return map[string]interface{}{"not": HasJSON(e["e"].(map[string]interface{}), defKey)}
	case "and", "or":
		es := []interface{}{}
		for _, x := range strList(e["es"]) {
			es = append(es, HasJSON(x.(map[string]interface{}), defKey))
		}
		return map[string]interface{}{e["t"].(string): map[string]interface{}{"expressions": es}}
	case "raw": // already wire-format JSON (used by the arbitrary-request space)
		m, _ := e["json"].(map[string]interface{})
		return m
	}
	return map[string]interface{}{}
}

// tplDecode decodes a render template: tagged value whose strings are field paths.
func tplDecode(raw interface{}) interface{} {
	v, _ := val.Decode(raw)
	return v
}

// StatementJSON converts one step record into the GripQL JSON statement.
func StatementJSON(s map[string]interface{}) map[string]interface{} {
	op, _ := s["op"].(string)
	switch op {
	case "V", "E":
		return map[string]interface{}{strings.ToLower(op): strList(s["ids"])}
	case "out", "in", "both", "outE", "inE", "bothE", "outNull", "inNull", "outENull", "inENull":
		return map[string]interface{}{op: strList(s["labels"])}
	case "has":
		return map[string]interface{}{"has": HasJSON(s["e"].(map[string]interface{}), "x")}
	case "hasLabel":
		return map[string]interface{}{"hasLabel": strList(s["labels"])}
	case "hasId":
		return map[string]interface{}{"hasId": strList(s["ids"])}
	case "hasKey":
		return map[string]interface{}{"hasKey": strList(s["keys"])}
	case "as":
		return map[string]interface{}{"as": s["name"]}
	case "select":
		return map[string]interface{}{"select": map[string]interface{}{"marks": strList(s["marks"])}}
	case "fields":
		return map[string]interface{}{"fields": strList(s["fields"])}
	case "render":
		return map[string]interface{}{"render": tplDecode(s["tpl"])}
	case "path":
		return map[string]interface{}{"path": []interface{}{}}
	case "unwind":
		return map[string]interface{}{"unwind": s["field"]}
	case "distinct":
		return map[string]interface{}{"distinct": strList(s["fields"])}
	case "count":
		return map[string]interface{}{"count": ""}
	case "limit":
		return map[string]interface{}{"limit": s["n"]}
	case "skip":
		return map[string]interface{}{"skip": s["n"]}
	case "range":
		return map[string]interface{}{"range": map[string]interface{}{"start": s["a"], "stop": s["b"]}}
	case "mark":
		return map[string]interface{}{"mark": s["name"]}
	case "jump":
		j := map[string]interface{}{"mark": s["mark"], "emit": s["emit"]}
		if e, ok := s["e"].(map[string]interface{}); ok {
			j["expression"] = HasJSON(e, "x")
		}
		return map[string]interface{}{"jump": j}
	case "set":
		v, _ := val.Decode(s["value"])
		return map[string]interface{}{"set": map[string]interface{}{"key": s["key"], "value": v}}
	case "increment":
		return map[string]interface{}{"increment": map[string]interface{}{"key": s["key"], "value": s["n"]}}
	case "aggregate":
		aggs := []interface{}{}
		for _, x := range strList(s["aggs"]) {
			a := x.(map[string]interface{})
			o := map[string]interface{}{"name": a["name"]}
			switch a["t"] {
			case "term":
				o["term"] = map[string]interface{}{"field": a["field"], "size": a["size"]}
			case "histogram":
				o["histogram"] = map[string]interface{}{"field": a["field"], "interval": a["interval"]}
			case "percentile":
				o["percentile"] = map[string]interface{}{"field": a["field"], "percents": strList(a["percents"])}
			case "field":
				o["field"] = map[string]interface{}{"field": a["field"]}
			case "type":
				o["type"] = map[string]interface{}{"field": a["field"]}
			case "count":
				o["count"] = map[string]interface{}{}
			case "none": // an aggregation without a type
			}
			aggs = append(aggs, o)
		}
		return map[string]interface{}{"aggregate": map[string]interface{}{"aggregations": aggs}}
	case "raw":
		m, _ := s["json"].(map[string]interface{})
		return m
	}
	return map[string]interface{}{"unknown_" + op: true}
}

// QueryJSON renders a program as the JSON body of a GraphQuery.
func QueryJSON(graph string, prog []interface{}) ([]byte, error) {
	stmts := []interface{}{}
	for _, s := range prog {
		stmts = append(stmts, StatementJSON(s.(map[string]interface{})))
	}
	return json.Marshal(map[string]interface{}{"graph": graph, "query": stmts})
}

// Parse turns a program into GripQL statements via protojson (the wire format).
func Parse(graph string, prog []interface{}) (*gripql.GraphQuery, error) {
	b, err := QueryJSON(graph, prog)
	if err != nil {
		return nil, err
	}
	q := &gripql.GraphQuery{}
	if err := protojson.Unmarshal(b, q); err != nil {
		return nil, fmt.Errorf("wire: %v", err)
	}
	return q, nil
}

// ---------------------------------------------------------------- rows

func dataOf(m map[string]interface{}) interface{} {
	if m == nil {
		m = map[string]interface{}{}
	}
	return val.Encode(m)
}

func VertexRow(v *gripql.Vertex) map[string]interface{} {
	if v == nil {
		return map[string]interface{}{"k": "v", "nil": true}
	}
	return map[string]interface{}{"k": "v", "gid": v.Gid, "label": v.Label, "data": dataOf(v.Data.AsMap())}
}

func EdgeRow(e *gripql.Edge) map[string]interface{} {
	if e == nil {
		return map[string]interface{}{"k": "e", "nil": true}
	}
	return map[string]interface{}{"k": "e", "gid": e.Gid, "label": e.Label, "from": e.From, "to": e.To, "data": dataOf(e.Data.AsMap())}
}

// Row normalises one query result.
func Row(r *gripql.QueryResult) map[string]interface{} {
	if r == nil {
		return map[string]interface{}{"k": "nil"}
	}
	switch x := r.Result.(type) {
	case *gripql.QueryResult_Vertex:
		return VertexRow(x.Vertex)
	case *gripql.QueryResult_Edge:
		return EdgeRow(x.Edge)
	case *gripql.QueryResult_Count:
		return map[string]interface{}{"k": "c", "n": x.Count}
	case *gripql.QueryResult_Render:
		if x.Render == nil {
			return map[string]interface{}{"k": "r", "nil": true}
		}
		return map[string]interface{}{"k": "r", "v": val.Encode(x.Render.AsInterface())}
	case *gripql.QueryResult_Path:
		if x.Path == nil {
			return map[string]interface{}{"k": "p", "nil": true}
		}
		return map[string]interface{}{"k": "p", "p": x.Path.AsSlice()}
	case *gripql.QueryResult_Selections:
		m := map[string]interface{}{}
		if x.Selections == nil {
			return map[string]interface{}{"k": "s", "nil": true}
		}
		for k, s := range x.Selections.Selections {
			switch y := s.Result.(type) {
			case *gripql.Selection_Vertex:
				m[k] = VertexRow(y.Vertex)
			case *gripql.Selection_Edge:
				m[k] = EdgeRow(y.Edge)
			}
		}
		return map[string]interface{}{"k": "s", "m": m}
	case *gripql.QueryResult_Aggregations:
		if x.Aggregations == nil {
			return map[string]interface{}{"k": "a", "nil": true}
		}
		return map[string]interface{}{"k": "a", "name": x.Aggregations.Name, "key": val.Encode(x.Aggregations.Key.AsInterface()), "value": x.Aggregations.Value}
	}
	return map[string]interface{}{"k": "nil"}
}

// TypeName names a pipeline data type the way the specifications do.
func TypeName(t gdbi.DataType) string {
	switch t {
	case gdbi.NoData:
		return "none"
	case gdbi.VertexData:
		return "vertex"
	case gdbi.EdgeData:
		return "edge"
	case gdbi.CountData:
		return "count"
	case gdbi.AggregationData:
		return "aggregation"
	case gdbi.SelectionData:
		return "selection"
	case gdbi.RenderData:
		return "render"
	case gdbi.PathData:
		return "path"
	}
	return "unknown"
}

// Outcome of running a traversal.
type Outcome struct {
	Err   string                   `json:"err,omitempty"` // compile error (before any row)
	Rows  []map[string]interface{} `json:"rows"`
	Type  string                   `json:"type,omitempty"`
	Marks map[string]string        `json:"marks,omitempty"`
	Panic string                   `json:"panic,omitempty"` // recovered panic on the calling goroutine
}

// Run compiles stmts with the graph's production compiler and runs the pipeline.
func Run(ctx context.Context, g gdbi.GraphInterface, stmts []*gripql.GraphStatement, workdir string, run func(context.Context, gdbi.Pipeline, string) <-chan *gripql.QueryResult) (o Outcome) {
	defer func() {
		if r := recover(); r != nil {
			o.Panic = fmt.Sprintf("%v", r)
		}
	}()
	pipe, err := g.Compiler().Compile(stmts, nil)
	if err != nil {
		o.Err = err.Error()
		return
	}
	return RunPipe(ctx, pipe, workdir, run)
}

// RunPipe runs an already compiled pipeline.
func RunPipe(ctx context.Context, pipe gdbi.Pipeline, workdir string, run func(context.Context, gdbi.Pipeline, string) <-chan *gripql.QueryResult) (o Outcome) {
	defer func() {
		if r := recover(); r != nil {
			o.Panic = fmt.Sprintf("%v", r)
		}
	}()
	o.Type = TypeName(pipe.DataType())
	o.Marks = map[string]string{}
	for k, t := range pipe.MarkTypes() {
		o.Marks[k] = TypeName(t)
	}
	o.Rows = []map[string]interface{}{}
	for r := range run(ctx, pipe, workdir) {
		o.Rows = append(o.Rows, Row(r))
	}
	return
}

// SortedKeys helper.
func SortedKeys(m map[string]interface{}) []string {
	ks := make([]string, 0, len(m))
	for k := range m {
		ks = append(ks, k)
	}
	sort.Strings(ks)
	return ks
}
