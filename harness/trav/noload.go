package trav

import (
	"context"

	"github.com/bmeg/grip/engine/core"
	"github.com/bmeg/grip/gdbi"
)

// NoLoadGraph decorates a GraphInterface so that it honours the "do not load"
// hint the way the Mongo/Grids/SQL backends do: whenever load=false is passed
// the returned elements carry only id/label/endpoints and Loaded=false.  The
// default kvgraph ignores the hint for vertices, which hides load-elision
// mistakes of the planner; this wrapper makes them observable.
type NoLoadGraph struct {
	gdbi.GraphInterface
}

func strip(e *gdbi.DataElement) *gdbi.DataElement {
	if e == nil {
		return nil
	}
	return &gdbi.DataElement{ID: e.ID, Label: e.Label, From: e.From, To: e.To, Data: map[string]interface{}{}, Loaded: false}
}

func (g *NoLoadGraph) Compiler() gdbi.Compiler {
	return core.NewCompiler(g, core.IndexStartOptimize)
}

func (g *NoLoadGraph) GetVertex(key string, load bool) *gdbi.Vertex {
	v := g.GraphInterface.GetVertex(key, load)
	if !load {
		return strip(v)
	}
	return v
}

func (g *NoLoadGraph) GetEdge(key string, load bool) *gdbi.Edge {
	e := g.GraphInterface.GetEdge(key, load)
	if !load {
		return strip(e)
	}
	return e
}

func (g *NoLoadGraph) GetVertexList(ctx context.Context, load bool) <-chan *gdbi.Vertex {
	in := g.GraphInterface.GetVertexList(ctx, load)
	if load {
		return in
	}
	out := make(chan *gdbi.Vertex, 100)
	go func() {
		defer close(out)
		for v := range in {
			out <- strip(v)
		}
	}()
	return out
}

func (g *NoLoadGraph) GetEdgeList(ctx context.Context, load bool) <-chan *gdbi.Edge {
	in := g.GraphInterface.GetEdgeList(ctx, load)
	if load {
		return in
	}
	out := make(chan *gdbi.Edge, 100)
	go func() {
		defer close(out)
		for v := range in {
			out <- strip(v)
		}
	}()
	return out
}

func stripChan(in chan gdbi.ElementLookup, load bool) chan gdbi.ElementLookup {
	if load {
		return in
	}
	out := make(chan gdbi.ElementLookup, 100)
	go func() {
		defer close(out)
		for r := range in {
			if !r.IsSignal() {
				r.Vertex = strip(r.Vertex)
				r.Edge = strip(r.Edge)
			}
			out <- r
		}
	}()
	return out
}

func (g *NoLoadGraph) GetVertexChannel(ctx context.Context, req chan gdbi.ElementLookup, load bool) chan gdbi.ElementLookup {
	return stripChan(g.GraphInterface.GetVertexChannel(ctx, req, load), load)
}
func (g *NoLoadGraph) GetOutChannel(ctx context.Context, req chan gdbi.ElementLookup, load bool, emitNull bool, l []string) chan gdbi.ElementLookup {
	return stripChan(g.GraphInterface.GetOutChannel(ctx, req, load, emitNull, l), load)
}
func (g *NoLoadGraph) GetInChannel(ctx context.Context, req chan gdbi.ElementLookup, load bool, emitNull bool, l []string) chan gdbi.ElementLookup {
	return stripChan(g.GraphInterface.GetInChannel(ctx, req, load, emitNull, l), load)
}
func (g *NoLoadGraph) GetOutEdgeChannel(ctx context.Context, req chan gdbi.ElementLookup, load bool, emitNull bool, l []string) chan gdbi.ElementLookup {
	return stripChan(g.GraphInterface.GetOutEdgeChannel(ctx, req, load, emitNull, l), load)
}
func (g *NoLoadGraph) GetInEdgeChannel(ctx context.Context, req chan gdbi.ElementLookup, load bool, emitNull bool, l []string) chan gdbi.ElementLookup {
	return stripChan(g.GraphInterface.GetInEdgeChannel(ctx, req, load, emitNull, l), load)
}
