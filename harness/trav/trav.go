// Package trav replays the states of Traversal.tla: every (graph, program) is
// executed on the real engine through (1) the production compiler on kvgraph,
// (2) the production compiler on a backend that honours the load hint, and
// (3) the literal pipeline (no optimizer, every step forced to load).
package trav

import (
	"context"
	"fmt"
	"os"

	"verifharness/gstore"
	"verifharness/qry"
	"verifharness/sup"

	"github.com/bmeg/grip/engine/core"
	"github.com/bmeg/grip/engine/pipeline"
	"github.com/bmeg/grip/gdbi"
	"github.com/bmeg/grip/gripql"
)

type handler struct {
	st     *gstore.Store
	graphs map[string]gdbi.GraphInterface
	work   string
}

func New() sup.Handler { return &handler{graphs: map[string]gdbi.GraphInterface{}} }

func (h *handler) Setup(req map[string]interface{}) error {
	if h.st == nil {
		drv, _ := req["driver"].(string)
		if drv == "" {
			drv = "badger"
		}
		st, err := gstore.Open(drv)
		if err != nil {
			return err
		}
		h.st = st
		h.work, _ = os.MkdirTemp("", "vwork_")
	}
	gs, _ := req["graphs"].([]interface{})
	for i, g := range gs {
		name := fmt.Sprintf("g%d", i+1)
		gi, err := gstore.LoadGraph(h.st.DB, name, g.(map[string]interface{}))
		if err != nil {
			return err
		}
		h.graphs[name] = gi
	}
	return nil
}

func (h *handler) Close() {
	if h.st != nil {
		h.st.Destroy()
	}
	if h.work != "" {
		os.RemoveAll(h.work)
	}
}

// Literal builds the pipeline statement by statement with no optimizer and
// with every step forced to load all data.
func Literal(g gdbi.GraphInterface, stmts []*gripql.GraphStatement) (pipe gdbi.Pipeline, err error) {
	defer func() {
		if r := recover(); r != nil {
			err = fmt.Errorf("PANIC in literal compile: %v", r)
		}
	}()
	if len(stmts) == 0 {
		return &core.DefaultPipeline{}, nil
	}
	if err := core.Validate(stmts, nil); err != nil {
		return nil, err
	}
	ps := pipeline.NewPipelineState(stmts)
	for _, s := range ps.Steps {
		ps.StepOutputs[s] = []string{"*"}
	}
	procs := []gdbi.Processor{}
	for i, gs := range stmts {
		ps.SetCurStatment(i)
		p, err := core.StatementProcessor(gs, g, ps)
		if err != nil {
			return nil, err
		}
		procs = append(procs, p)
	}
	return core.NewPipeline(g, procs, ps), nil
}

func (h *handler) Handle(req map[string]interface{}) interface{} {
	resp := map[string]interface{}{"i": req["i"]}
	gname := fmt.Sprintf("g%v", req["g"])
	g := h.graphs[gname]
	if g == nil {
		resp["harness_err"] = "no graph " + gname
		return resp
	}
	prog, _ := req["prog"].([]interface{})
	q, err := qry.Parse(gname, prog)
	if err != nil {
		resp["wire_err"] = err.Error()
		return resp
	}
	only, _ := req["only"].(string)
	ctx := context.Background()
	if only == "" || only == "prod" {
		resp["prod"] = qry.Run(ctx, g, q.Query, h.work, pipeline.Run)
	}
	if only == "" || only == "noload" {
		resp["noload"] = qry.Run(ctx, &NoLoadGraph{g}, q.Query, h.work, pipeline.Run)
	}
	if only == "" || only == "literal" {
		pipe, err := Literal(g, q.Query)
		if err != nil {
			resp["literal"] = qry.Outcome{Err: err.Error()}
		} else {
			resp["literal"] = qry.RunPipe(ctx, pipe, h.work, pipeline.Run)
		}
	}
	return resp
}
