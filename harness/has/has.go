// Package has replays the C08 grid: every has-expression printed by Has.tla is
// evaluated (1) directly by logic.MatchesHasExpression on one traveler per
// document value and (2) by running V().has(expr) on a graph with one vertex per
// document value through the production compiler and pipeline.
package has

import (
	"context"
	"encoding/json"
	"fmt"
	"os"
	"sort"

	"verifharness/gstore"
	"verifharness/qry"
	"verifharness/sup"
	"verifharness/val"

	"github.com/bmeg/grip/engine/logic"
	"github.com/bmeg/grip/engine/pipeline"
	"github.com/bmeg/grip/gdbi"
	"github.com/bmeg/grip/gripql"
	"google.golang.org/protobuf/encoding/protojson"
)

type handler struct {
	st   *gstore.Store
	g    gdbi.GraphInterface
	docs []*gdbi.DataElement
	idOf map[string]int
	work string
}

func New() sup.Handler { return &handler{} }

func (h *handler) Setup(req map[string]interface{}) error {
	docs, _ := req["docs"].([]interface{})
	st, err := gstore.Open("badger")
	if err != nil {
		return err
	}
	h.st = st
	h.work, _ = os.MkdirTemp("", "vwork_")
	if err := st.DB.AddGraph("has"); err != nil {
		return err
	}
	h.g, _ = st.DB.Graph("has")
	h.idOf = map[string]int{}
	for i, d := range docs {
		id := fmt.Sprintf("d%02d", i+1)
		data := map[string]interface{}{"other": "z"}
		if v, present := val.Decode(d); present {
			data["x"] = v
		}
		el := &gdbi.DataElement{ID: id, Label: "D", Data: data, Loaded: true}
		h.docs = append(h.docs, el)
		h.idOf[id] = i + 1
		if err := h.g.AddVertex([]*gdbi.Vertex{el}); err != nil {
			return err
		}
	}
	// read the documents back through the store so that the direct path sees the
	// values exactly as a traversal would (protobuf Struct round trip)
	for i, d := range h.docs {
		if v := h.g.GetVertex(d.ID, true); v != nil {
			h.docs[i] = v
		}
	}
	return nil
}

func (h *handler) Close() {
	if h.st != nil {
		h.st.Destroy()
	}
	if h.work != "" {
		os.RemoveAll(h.work)
	}
}

func matchOne(doc *gdbi.DataElement, e *gripql.HasExpression) (ok bool, pan string) {
	defer func() {
		if r := recover(); r != nil {
			pan = fmt.Sprintf("%v", r)
		}
	}()
	t := &gdbi.BaseTraveler{}
	tr := t.AddCurrent(doc)
	return logic.MatchesHasExpression(tr, e), ""
}

func (h *handler) Handle(req map[string]interface{}) interface{} {
	resp := map[string]interface{}{"i": req["i"]}
	e, _ := req["e"].(map[string]interface{})
	hj := qry.HasJSON(e, "x")
	b, _ := json.Marshal(hj)
	he := &gripql.HasExpression{}
	if err := protojson.Unmarshal(b, he); err != nil {
		resp["wire_err"] = err.Error()
		return resp
	}
	direct := []int{}
	for i, d := range h.docs {
		ok, pan := matchOne(d, he)
		if pan != "" {
			resp["panic"] = pan
		}
		if ok {
			direct = append(direct, i+1)
		}
	}
	resp["direct"] = direct
	stmts := []*gripql.GraphStatement{
		{Statement: &gripql.GraphStatement_V{}},
		{Statement: &gripql.GraphStatement_Has{Has: he}},
	}
	o := qry.Run(context.Background(), h.g, stmts, h.work, pipeline.Run)
	if o.Err != "" {
		resp["query_err"] = o.Err
	}
	if o.Panic != "" {
		resp["panic"] = o.Panic
	}
	q := []int{}
	for _, r := range o.Rows {
		gid, _ := r["gid"].(string)
		q = append(q, h.idOf[gid])
	}
	sort.Ints(q)
	resp["query"] = q
	return resp
}
