// Package keyenc replays, for C16, histories of write calls whose graph names,
// ids, labels, property names and property values come from the witnesses of
// spec/keyenc/KeyEnc.tla and from the accepted-identifier grid, on a real
// kvgraph over a fresh Badger store, through the public gdbi API only, and
// then reads back everything: graph list, vertex/edge listings, lookups,
// adjacency in both directions, label listings, label scan and the
// V().hasLabel() / V(id).render() traversals through the production compiler.
//
// All strings cross the process boundary hex-encoded (they contain 0x00,
// invalid UTF-8, ...). The handler makes no judgement: results and
// observations are validated against the abstract graph store by TLC
// (spec/keyenc/KeyEncTrace.tla).
package keyenc

import (
	"context"
	"encoding/hex"
	"fmt"
	"os"
	"runtime"
	"sort"
	"time"

	"verifharness/gstore"
	"verifharness/sup"
	"verifharness/val"

	"github.com/bmeg/grip/engine/pipeline"
	"github.com/bmeg/grip/gdbi"
	"github.com/bmeg/grip/gripql"
)

type Handler struct {
	workdir string
	tainted bool // goroutines of an earlier history are still alive: leave before they can be blamed on the next one
}

func New() sup.Handler { return &Handler{} }

func (h *Handler) Setup(req map[string]interface{}) error { return nil }
func (h *Handler) Close() {
	if h.workdir != "" {
		os.RemoveAll(h.workdir)
	}
}

func unhex(v interface{}) string {
	s, _ := v.(string)
	b, err := hex.DecodeString(s)
	if err != nil {
		panic("keyenc: bad hex " + s)
	}
	return string(b)
}

func hx(s string) string { return hex.EncodeToString([]byte(s)) }

// decodeData turns {hexname: taggedvalue} into a Go map.
func decodeData(raw interface{}) map[string]interface{} {
	out := map[string]interface{}{}
	m, _ := raw.(map[string]interface{})
	for k, v := range m {
		x, present := val.Decode(hexStrings(v))
		if present {
			out[unhex(k)] = x
		}
	}
	return out
}

// hexStrings decodes the hex payload of every ["s", hex] and the keys of every ["m", {...}] in a tagged value.
func hexStrings(v interface{}) interface{} {
	a, ok := v.([]interface{})
	if !ok || len(a) == 0 {
		return v
	}
	switch a[0] {
	case "s":
		return []interface{}{"s", unhex(a[1])}
	case "l":
		items, _ := a[1].([]interface{})
		out := make([]interface{}, len(items))
		for i, it := range items {
			out[i] = hexStrings(it)
		}
		return []interface{}{"l", out}
	case "m":
		m, ok := a[1].(map[string]interface{})
		if !ok {
			return []interface{}{"m", map[string]interface{}{}}
		}
		out := map[string]interface{}{}
		for k, x := range m {
			out[unhex(k)] = hexStrings(x)
		}
		return []interface{}{"m", out}
	}
	return v
}

// encodeValue is val.Encode with strings and map keys hex-encoded.
func encodeValue(v interface{}) interface{} {
	switch x := v.(type) {
	case string:
		return []interface{}{"s", hx(x)}
	case []interface{}:
		out := make([]interface{}, len(x))
		for i, it := range x {
			out[i] = encodeValue(it)
		}
		return []interface{}{"l", out}
	case map[string]interface{}:
		out := map[string]interface{}{}
		for k, it := range x {
			out[hx(k)] = encodeValue(it)
		}
		return []interface{}{"m", out}
	}
	return val.Encode(v)
}

func encodeData(d map[string]interface{}) interface{} {
	if d == nil {
		d = map[string]interface{}{}
	}
	return encodeValue(d)
}

func guard(f func()) (p string) {
	defer func() {
		if r := recover(); r != nil {
			p = fmt.Sprintf("%v", r)
		}
	}()
	f()
	return ""
}

func apply(db gdbi.GraphDB, c map[string]interface{}) (res, msg string) {
	op, _ := c["op"].(string)
	g := unhex(c["g"])
	fail := func(err error) (string, string) {
		if err != nil {
			return "error", err.Error()
		}
		return "ok", ""
	}
	var err error
	p := guard(func() {
		switch op {
		case "AddGraph":
			err = db.AddGraph(g)
			return
		case "DeleteGraph":
			err = db.DeleteGraph(g)
			return
		}
		gi, gerr := db.Graph(g)
		if gerr != nil {
			err = gerr
			return
		}
		switch op {
		case "AddVertex":
			err = gi.AddVertex([]*gdbi.Vertex{{ID: unhex(c["id"]), Label: unhex(c["label"]), Data: decodeData(c["data"]), Loaded: true}})
		case "AddEdge":
			err = gi.AddEdge([]*gdbi.Edge{{ID: unhex(c["id"]), Label: unhex(c["label"]), From: unhex(c["from"]), To: unhex(c["to"]), Data: decodeData(c["data"]), Loaded: true}})
		case "BulkAdd":
			ch := make(chan *gdbi.GraphElement, 2)
			el := &gdbi.DataElement{ID: unhex(c["id"]), Label: unhex(c["label"]), Data: decodeData(c["data"]), Loaded: true}
			if _, isEdge := c["from"]; isEdge {
				el.From, el.To = unhex(c["from"]), unhex(c["to"])
				ch <- &gdbi.GraphElement{Graph: g, Edge: el}
			} else {
				ch <- &gdbi.GraphElement{Graph: g, Vertex: el}
			}
			close(ch)
			err = gi.BulkAdd(ch)
		case "DelVertex":
			err = gi.DelVertex(unhex(c["id"]))
		case "DelEdge":
			err = gi.DelEdge(unhex(c["id"]))
		default:
			err = fmt.Errorf("harness: unknown op %s", op)
		}
	})
	if p != "" {
		return "panic", p
	}
	return fail(err)
}

type adjFn func(ctx context.Context, req chan gdbi.ElementLookup, load bool, emitNull bool, labels []string) chan gdbi.ElementLookup

func adjacency(fn adjFn, ids []string, edge bool) []interface{} {
	out := []interface{}{}
	for _, v := range ids {
		req := make(chan gdbi.ElementLookup, 1)
		t := &gdbi.BaseTraveler{}
		req <- gdbi.ElementLookup{ID: v, Ref: t.AddCurrent(&gdbi.DataElement{ID: v})}
		close(req)
		for r := range fn(context.Background(), req, true, false, nil) {
			if edge {
				if r.Edge == nil {
					out = append(out, []interface{}{hx(v), "nil"})
				} else {
					out = append(out, []interface{}{hx(v), hx(r.Edge.ID), hx(r.Edge.Label), hx(r.Edge.From), hx(r.Edge.To)})
				}
			} else {
				if r.Vertex == nil {
					out = append(out, []interface{}{hx(v), "nil"})
				} else {
					out = append(out, []interface{}{hx(v), hx(r.Vertex.ID), hx(r.Vertex.Label)})
				}
			}
		}
	}
	return out
}

func (h *Handler) traversal(gi gdbi.GraphInterface, q *gripql.Query) (rows []*gripql.QueryResult, errs string) {
	p := guard(func() {
		pipe, err := gi.Compiler().Compile(q.Statements, nil)
		if err != nil {
			errs = "compile: " + err.Error()
			return
		}
		ctx, cancel := context.WithTimeout(context.Background(), 20*time.Second)
		defer cancel()
		for r := range pipeline.Run(ctx, pipe, h.workdir) {
			rows = append(rows, r)
		}
	})
	if p != "" {
		errs = "panic: " + p
	}
	return
}

// observeGraph reads everything observable about one graph.
func (h *Handler) observeGraph(gi gdbi.GraphInterface, vids, eids, labels []string, render map[string][]string) map[string]interface{} {
	obs := map[string]interface{}{}
	ctx := context.Background()
	if p := guard(func() {
		V := []interface{}{}
		for v := range gi.GetVertexList(ctx, true) {
			V = append(V, []interface{}{hx(v.ID), hx(v.Label), encodeData(v.Data)})
		}
		E := []interface{}{}
		for e := range gi.GetEdgeList(ctx, true) {
			E = append(E, []interface{}{hx(e.ID), hx(e.Label), hx(e.From), hx(e.To), encodeData(e.Data)})
		}
		obs["V"], obs["E"] = V, E
		getV := []interface{}{}
		for _, id := range vids {
			if v := gi.GetVertex(id, true); v != nil {
				getV = append(getV, []interface{}{hx(id), hx(v.ID), hx(v.Label), encodeData(v.Data)})
			}
		}
		getE := []interface{}{}
		for _, id := range eids {
			if e := gi.GetEdge(id, true); e != nil {
				getE = append(getE, []interface{}{hx(id), hx(e.ID), hx(e.Label), hx(e.From), hx(e.To), encodeData(e.Data)})
			}
		}
		obs["getV"], obs["getE"] = getV, getE
		vl, err := gi.ListVertexLabels()
		if err != nil {
			obs["vlabels_err"] = err.Error()
		}
		el, err := gi.ListEdgeLabels()
		if err != nil {
			obs["elabels_err"] = err.Error()
		}
		hl := func(xs []string) []string {
			out := []string{}
			for _, x := range xs {
				out = append(out, hx(x))
			}
			sort.Strings(out)
			return out
		}
		obs["vlabels"], obs["elabels"] = hl(vl), hl(el)
		by := []interface{}{}
		has := []interface{}{}
		for _, l := range labels {
			for id := range gi.VertexLabelScan(ctx, l) {
				by = append(by, []interface{}{hx(l), hx(id)})
			}
			rows, errs := h.traversal(gi, gripql.NewQuery().V().HasLabel(l))
			if errs != "" {
				has = append(has, []interface{}{hx(l), "err", errs})
			}
			for _, r := range rows {
				if v := r.GetVertex(); v != nil {
					has = append(has, []interface{}{hx(l), hx(v.Gid), hx(v.Label)})
				} else {
					has = append(has, []interface{}{hx(l), "nil"})
				}
			}
		}
		obs["byLabel"], obs["hasLabel"] = by, has
		obs["outE"] = adjacency(gi.GetOutEdgeChannel, vids, true)
		obs["inE"] = adjacency(gi.GetInEdgeChannel, vids, true)
		obs["out"] = adjacency(gi.GetOutChannel, vids, false)
		obs["in"] = adjacency(gi.GetInChannel, vids, false)
		// property values through the traversal engine: V(id).render("$.<name>")
		rend := []interface{}{}
		for id, names := range render {
			for _, name := range names {
				rows, errs := h.traversal(gi, gripql.NewQuery().V(id).Render("$."+name))
				if errs != "" {
					rend = append(rend, []interface{}{hx(id), hx(name), "err", errs})
				}
				for _, r := range rows {
					rend = append(rend, []interface{}{hx(id), hx(name), encodeValue(r.GetRender().AsInterface())})
				}
			}
		}
		obs["render"] = rend
	}); p != "" {
		obs["panic"] = p
	}
	return obs
}

func hexList(v interface{}) []string {
	out := []string{}
	l, _ := v.([]interface{})
	for _, x := range l {
		out = append(out, unhex(x))
	}
	return out
}

func (h *Handler) Handle(req map[string]interface{}) interface{} {
	if h.tainted {
		// exit without a Go panic: the supervisor retries this request on a fresh worker
		os.Exit(3)
	}
	base := runtime.NumGoroutine()
	resp := h.handle(req)
	// every history must leave the process as it found it
	for n := 0; n < 100 && runtime.NumGoroutine() > base; n++ {
		time.Sleep(20 * time.Millisecond)
	}
	if extra := runtime.NumGoroutine() - base; extra > 0 {
		h.tainted = true
		resp["stray_goroutines"] = extra
	}
	return resp
}

func (h *Handler) handle(req map[string]interface{}) map[string]interface{} {
	resp := map[string]interface{}{"i": req["i"]}
	if h.workdir == "" {
		d, err := os.MkdirTemp("", "vkeyenc_work_")
		if err != nil {
			resp["harness_err"] = err.Error()
			return resp
		}
		h.workdir = d
	}
	st, err := gstore.Open("badger")
	if err != nil {
		resp["harness_err"] = err.Error()
		return resp
	}
	defer st.Destroy()
	calls, _ := req["calls"].([]interface{})
	results := []interface{}{}
	for _, c := range calls {
		res, msg := apply(st.DB, c.(map[string]interface{}))
		results = append(results, map[string]interface{}{"res": res, "msg": msg})
	}
	resp["results"] = results
	// observations
	graphs := hexList(req["graphs"])
	vids, eids, labels := hexList(req["vids"]), hexList(req["eids"]), hexList(req["labels"])
	listed := []string{}
	if p := guard(func() {
		for _, g := range st.DB.ListGraphs() {
			listed = append(listed, hx(g))
		}
	}); p != "" {
		resp["listgraphs_panic"] = p
	}
	sort.Strings(listed)
	resp["listed"] = listed
	render := map[string]map[string][]string{}
	if rm, ok := req["render"].([]interface{}); ok {
		for _, x := range rm {
			t := hexList(x)
			if len(t) == 3 {
				if render[t[0]] == nil {
					render[t[0]] = map[string][]string{}
				}
				render[t[0]][t[1]] = append(render[t[0]][t[1]], t[2])
			}
		}
	}
	og := []interface{}{}
	for _, g := range graphs {
		entry := map[string]interface{}{"g": hx(g)}
		var gi gdbi.GraphInterface
		var gerr error
		if p := guard(func() { gi, gerr = st.DB.Graph(g) }); p != "" {
			entry["panic"] = p
		} else if gerr != nil {
			entry["exists"] = false
		} else {
			entry["exists"] = true
			entry["obs"] = h.observeGraph(gi, vids, eids, labels, render[g])
		}
		og = append(og, entry)
	}
	resp["graphs"] = og
	return resp
}
