// Package gripperh binds Gripper.tla to the real gripper driver.  A world printed
// by the specification (tables, vertex mappings, edge mappings) is served as
// external tables by the repository's own table server (gripper.SimpleTableServicer
// over an in-memory gripper.Driver) on an in-process gRPC listener; the graph GRIP
// exposes for it is built with gripper.NewTabularGraph and every program is run
// through graph.Compiler() (which includes TabularOptimizer) + pipeline.Run.  The
// graph the specification says the mapping describes (GraphOf) is also loaded into
// kvgraph and the same program is run there as a cross-check.
package gripperh

import (
	"context"
	"fmt"
	"io"
	stdlog "log"
	"net"
	"os"
	"sort"
	"time"

	"verifharness/gstore"
	"verifharness/qry"
	"verifharness/sup"
	"verifharness/val"

	"github.com/bmeg/grip/engine/pipeline"
	"github.com/bmeg/grip/gdbi"
	"github.com/bmeg/grip/gripper"
	"google.golang.org/grpc"
	"google.golang.org/grpc/credentials/insecure"
	"google.golang.org/grpc/test/bufconn"
)

// ---------------------------------------------------------------- external tables

// memTable is one external table: rows in table order, looked up by id or by the
// text value of a field.  It is the whole "external system" of a world.
type memTable struct {
	rows   []*gripper.BaseRow
	fields []string
	slow   bool
}

func (d *memTable) GetTimeout() int                           { return 10 }
func (d *memTable) GetFields() ([]string, error)              { return d.fields, nil }
func (d *memTable) GetFieldLinks() (map[string]string, error) { return map[string]string{}, nil }

func (d *memTable) FetchRow(id string) (*gripper.BaseRow, error) {
	for _, r := range d.rows {
		if r.Key == id {
			return r, nil
		}
	}
	return nil, fmt.Errorf("row %s not found", id)
}

func (d *memTable) emit(ctx context.Context, keep func(*gripper.BaseRow) bool) (chan *gripper.BaseRow, error) {
	out := make(chan *gripper.BaseRow, len(d.rows)+1)
	for _, r := range d.rows {
		if keep(r) {
			out <- r
		}
	}
	close(out)
	return out, nil
}

func (d *memTable) FetchRows(ctx context.Context) (chan *gripper.BaseRow, error) {
	if !d.slow {
		return d.emit(ctx, func(*gripper.BaseRow) bool { return true })
	}
	// a table whose full scan takes a while: the first row at once, the others a little later, so that
	// lookups by field arrive at a gripper.DriverCache that is still loading
	out := make(chan *gripper.BaseRow)
	go func() {
		defer close(out)
		for i, r := range d.rows {
			if i > 0 {
				time.Sleep(3 * time.Millisecond)
			}
			select {
			case out <- r:
			case <-ctx.Done():
				return
			}
		}
	}()
	return out, nil
}

func (d *memTable) FetchMatchRows(ctx context.Context, field string, value string) (chan *gripper.BaseRow, error) {
	return d.emit(ctx, func(r *gripper.BaseRow) bool {
		s, ok := r.Value[field].(string)
		return ok && s == value
	})
}

// cachedTable completes gripper.DriverCache to a gripper.Driver (the cache does not forward GetFieldLinks).
type cachedTable struct {
	*gripper.DriverCache
	inner *memTable
}

func (c cachedTable) GetFieldLinks() (map[string]string, error) { return c.inner.GetFieldLinks() }

// ---------------------------------------------------------------- worlds

type world struct {
	tables []gripper.Driver
	graph  *gripper.TabularGraph
	srv    *grpc.Server
	conn   *grpc.ClientConn
}

func (w *world) close() {
	if w.conn != nil {
		w.conn.Close()
	}
	if w.srv != nil {
		w.srv.Stop()
	}
}

func str(m map[string]interface{}, k string) string { s, _ := m[k].(string); return s }

func buildWorld(spec map[string]interface{}, cached bool) (*world, error) {
	tables, _ := spec["tables"].(map[string]interface{})
	vmap, _ := spec["vmap"].([]interface{})
	emap, _ := spec["emap"].([]interface{})
	// every field a mapping names is declared searchable by its table
	linkFields := map[string]map[string]bool{}
	for _, e := range emap {
		em := e.(map[string]interface{})
		t := str(em, "table")
		if linkFields[t] == nil {
			linkFields[t] = map[string]bool{}
		}
		linkFields[t][str(em, "ff")] = true
		linkFields[t][str(em, "tf")] = true
	}
	drivers := map[string]gripper.Driver{}
	for name, raw := range tables {
		mt := &memTable{}
		fs := map[string]bool{}
		for f := range linkFields[name] {
			fs[f] = true
		}
		rows, _ := raw.([]interface{})
		for _, r := range rows {
			rm := r.(map[string]interface{})
			data := map[string]interface{}{}
			if d, ok := rm["f"].([]interface{}); ok && len(d) == 2 {
				data = val.DecodeMap(d[1])
			}
			for f := range data {
				fs[f] = true
			}
			mt.rows = append(mt.rows, &gripper.BaseRow{Key: str(rm, "id"), Value: data})
		}
		for f := range fs {
			mt.fields = append(mt.fields, f)
		}
		sort.Strings(mt.fields)
		if cached {
			// the deployment form of a table service: the driver behind gripper.DriverCache
			mt.slow = true
			drivers[name] = cachedTable{gripper.NewDriverCache(mt), mt}
		} else {
			drivers[name] = mt
		}
	}
	w := &world{}
	for _, d := range drivers {
		w.tables = append(w.tables, d)
	}
	lis := bufconn.Listen(1 << 20)
	w.srv = grpc.NewServer()
	gripper.RegisterGRIPSourceServer(w.srv, gripper.NewSimpleTableServer(drivers))
	go w.srv.Serve(lis)
	conn, err := grpc.DialContext(context.Background(), "bufnet",
		grpc.WithContextDialer(func(ctx context.Context, _ string) (net.Conn, error) { return lis.DialContext(ctx) }),
		grpc.WithTransportCredentials(insecure.NewCredentials()))
	if err != nil {
		w.close()
		return nil, err
	}
	w.conn = conn
	conf := gripper.GraphConfig{Vertices: map[string]gripper.VertexConfig{}, Edges: map[string]gripper.EdgeConfig{}}
	for _, v := range vmap {
		vm := v.(map[string]interface{})
		conf.Vertices[str(vm, "prefix")] = gripper.VertexConfig{Gid: str(vm, "prefix"), Label: str(vm, "label"),
			Data: gripper.ElementConfig{Source: "ext", Collection: str(vm, "table")}}
	}
	for _, e := range emap {
		em := e.(map[string]interface{})
		conf.Edges[str(em, "name")] = gripper.EdgeConfig{Gid: str(em, "name"), From: str(em, "from"), To: str(em, "to"), Label: str(em, "label"),
			Data: gripper.ElementConfig{Source: "ext", Collection: str(em, "table"), FromField: str(em, "ff"), ToField: str(em, "tf")}}
	}
	g, err := gripper.NewTabularGraph(conf, map[string]gripper.GRIPSourceClient{"ext": gripper.NewGRIPSourceClient(conn)})
	if err != nil {
		w.close()
		return nil, fmt.Errorf("NewTabularGraph: %v", err)
	}
	w.graph = g
	return w, nil
}

// ---------------------------------------------------------------- handler

type handler struct {
	specs  []interface{} // world specifications, by index
	graphs []interface{} // GraphOf(world), by index
	worlds map[int]*world
	st     *gstore.Store
	kv     map[int]gdbi.GraphInterface
	work   string
	cached bool // tables are served through gripper.DriverCache over slow scans
}

func New() sup.Handler {
	stdlog.SetOutput(io.Discard) // SimpleTableServicer logs every row request
	return &handler{worlds: map[int]*world{}, kv: map[int]gdbi.GraphInterface{}}
}

func (h *handler) Setup(req map[string]interface{}) error {
	if ws, ok := req["worlds"].([]interface{}); ok {
		h.specs = ws
	}
	if gs, ok := req["graphs"].([]interface{}); ok {
		h.graphs = gs
	}
	if c, ok := req["cached"].(bool); ok {
		h.cached = c
	}
	if h.work == "" {
		h.work, _ = os.MkdirTemp("", "vwork_")
	}
	return nil
}

func (h *handler) Close() {
	for _, w := range h.worlds {
		w.close()
	}
	if h.st != nil {
		h.st.Destroy()
	}
	if h.work != "" {
		os.RemoveAll(h.work)
	}
}

func (h *handler) world(i int) (*world, error) {
	if w, ok := h.worlds[i]; ok {
		return w, nil
	}
	if i < 1 || i > len(h.specs) {
		return nil, fmt.Errorf("no world %d", i)
	}
	w, err := buildWorld(h.specs[i-1].(map[string]interface{}), h.cached)
	if err != nil {
		return nil, err
	}
	h.worlds[i] = w
	return w, nil
}

func (h *handler) kvgraph(i int) (gdbi.GraphInterface, error) {
	if g, ok := h.kv[i]; ok {
		return g, nil
	}
	if i < 1 || i > len(h.graphs) {
		return nil, fmt.Errorf("no graph %d", i)
	}
	if h.st == nil {
		st, err := gstore.Open("badger")
		if err != nil {
			return nil, err
		}
		h.st = st
	}
	g, err := gstore.LoadGraph(h.st.DB, fmt.Sprintf("g%d", i), h.graphs[i-1].(map[string]interface{}))
	if err != nil {
		return nil, err
	}
	h.kv[i] = g
	return g, nil
}

func (h *handler) Handle(req map[string]interface{}) interface{} {
	resp := map[string]interface{}{"i": req["i"]}
	gi := int(req["g"].(float64))
	only, _ := req["only"].(string)
	ctx := context.Background()
	var w *world
	var err error
	if fresh, _ := req["fresh"].(bool); fresh || (h.cached && gi%2 == 0) {
		// a newly built graph (the driver fixes the order of its mappings when the graph is built)
		if gi >= 1 && gi <= len(h.specs) {
			w, err = buildWorld(h.specs[gi-1].(map[string]interface{}), h.cached)
		} else {
			err = fmt.Errorf("no world %d", gi)
		}
		if err == nil {
			defer w.close()
		}
	} else {
		w, err = h.world(gi)
	}
	if err != nil {
		resp["harness_err"] = err.Error()
		return resp
	}
	if h.cached && gi%2 == 0 {
		// worlds with an even index are built anew for every program and all their tables start loading just
		// before it runs (a cold service being scanned by another client); the others keep their caches
		sctx, stop := context.WithCancel(context.Background())
		defer stop()
		for _, d := range w.tables {
			go func(d gripper.Driver) {
				if ch, err := d.FetchRows(sctx); err == nil {
					for range ch {
					}
				}
			}(d)
		}
		time.Sleep(500 * time.Microsecond)
	}
	if writes, ok := req["writes"].([]interface{}); ok {
		resp["results"] = doWrites(w.graph, writes)
		resp["v"] = h.runProg(ctx, w.graph, gi, []interface{}{map[string]interface{}{"op": "V", "ids": []interface{}{}}})
		resp["e"] = h.runProg(ctx, w.graph, gi, []interface{}{map[string]interface{}{"op": "E", "ids": []interface{}{}}})
		return resp
	}
	prog, _ := req["prog"].([]interface{})
	if only == "" || only == "gripper" {
		p := prog
		if gp, ok := req["gprog"].([]interface{}); ok { // the program with edge ids as the driver shows them
			p = gp
		}
		resp["gripper"] = h.runProg(ctx, w.graph, gi, p)
	}
	if only == "" || only == "kv" {
		kg, err := h.kvgraph(gi)
		if err != nil {
			resp["harness_err"] = err.Error()
			return resp
		}
		resp["kv"] = h.runProg(ctx, kg, gi, prog)
	}
	return resp
}

func (h *handler) runProg(ctx context.Context, g gdbi.GraphInterface, gi int, prog []interface{}) interface{} {
	q, err := qry.Parse(fmt.Sprintf("g%d", gi), prog)
	if err != nil {
		return map[string]interface{}{"wire_err": err.Error()}
	}
	return qry.Run(ctx, g, q.Query, h.work, pipeline.Run)
}

// doWrites issues write calls against the gripper graph and reports, per call, the error returned.
func doWrites(g gdbi.GraphInterface, writes []interface{}) []interface{} {
	out := []interface{}{}
	for _, x := range writes {
		c := x.(map[string]interface{})
		op := str(c, "op")
		el := &gdbi.DataElement{ID: str(c, "gid"), Label: str(c, "label"), From: str(c, "from"), To: str(c, "to"),
			Data: map[string]interface{}{"x": 1.0}, Loaded: true}
		res := map[string]interface{}{"op": op}
		func() {
			defer func() {
				if r := recover(); r != nil {
					res["panic"] = fmt.Sprintf("%v", r)
				}
			}()
			var err error
			switch op {
			case "AddVertex":
				err = g.AddVertex([]*gdbi.Vertex{el})
			case "AddEdge":
				err = g.AddEdge([]*gdbi.Edge{el})
			case "BulkAdd":
				ch := make(chan *gdbi.GraphElement, 2)
				if el.From != "" {
					ch <- &gdbi.GraphElement{Edge: el, Graph: "g"}
				} else {
					ch <- &gdbi.GraphElement{Vertex: el, Graph: "g"}
				}
				close(ch)
				err = g.BulkAdd(ch)
			case "DelVertex":
				err = g.DelVertex(el.ID)
			case "DelEdge":
				err = g.DelEdge(el.ID)
			default:
				res["harness_err"] = "unknown write " + op
			}
			if err != nil {
				res["err"] = err.Error()
			}
		}()
		out = append(out, res)
	}
	return out
}
