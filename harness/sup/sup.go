// Package sup runs a request handler either as a worker process (one JSON line
// in, one JSON line out) or as a supervisor that feeds workers and survives
// their death: a worker that panics or hangs yields a {"crash":...} or
// {"hang":...} record for the request in flight, is restarted (setup lines are
// replayed) and the remaining requests are still executed.
package sup

import (
	"bufio"
	"encoding/json"
	"flag"
	"fmt"
	"io"
	"os"
	"os/exec"
	"regexp"
	"strings"
	"sync"
	"syscall"
	"time"
)

// Handler processes requests inside a worker process.
type Handler interface {
	// Setup receives lines that carry "setup":true (graph definitions etc.).
	Setup(req map[string]interface{}) error
	// Handle answers one request; the result is marshalled as the response line.
	Handle(req map[string]interface{}) interface{}
	Close()
}

const maxLine = 64 << 20

// Main dispatches between worker and supervisor mode.
func Main(name string, args []string, mk func() Handler) {
	fs := flag.NewFlagSet(name, flag.ExitOnError)
	worker := fs.Bool("worker", false, "run as worker")
	jobs := fs.Int("j", 8, "number of worker processes")
	tmo := fs.Duration("timeout", 60*time.Second, "per-request deadline before the worker is declared hung")
	fs.Parse(args)
	if *worker {
		runWorker(mk())
		return
	}
	runSupervisor(name, *jobs, *tmo, fs.Args())
}

func runWorker(h Handler) {
	// the engine prints debug lines on stdout: keep the protocol on a private
	// duplicate of fd 1 and point fd 1 at stderr.
	fd, err := syscall.Dup(1)
	if err != nil {
		panic(err)
	}
	syscall.Dup2(2, 1)
	out := bufio.NewWriter(os.NewFile(uintptr(fd), "proto"))
	in := bufio.NewReaderSize(os.Stdin, 1<<20)
	defer h.Close()
	for {
		line, err := readLine(in)
		if len(line) > 0 {
			var req map[string]interface{}
			if jerr := json.Unmarshal(line, &req); jerr != nil {
				fmt.Fprintf(out, "{\"bad\":%q}\n", jerr.Error())
				out.Flush()
			} else if s, _ := req["setup"].(bool); s {
				resp := map[string]interface{}{"setup": true}
				if e := h.Setup(req); e != nil {
					resp["err"] = e.Error()
				}
				b, _ := json.Marshal(resp)
				out.Write(b)
				out.WriteByte('\n')
				out.Flush()
			} else {
				resp := h.Handle(req)
				b, merr := json.Marshal(resp)
				if merr != nil {
					b, _ = json.Marshal(map[string]interface{}{"i": req["i"], "marshal_err": merr.Error()})
				}
				out.Write(b)
				out.WriteByte('\n')
				out.Flush()
			}
		}
		if err != nil {
			return
		}
	}
}

func readLine(r *bufio.Reader) ([]byte, error) {
	var buf []byte
	for {
		part, isPrefix, err := r.ReadLine()
		buf = append(buf, part...)
		if err != nil {
			return buf, err
		}
		if !isPrefix {
			return buf, nil
		}
	}
}

type proc struct {
	cmd    *exec.Cmd
	in     io.WriteCloser
	out    *bufio.Reader
	errBuf *tailBuf
}

type tailBuf struct {
	mu  sync.Mutex
	buf []byte
}

func (t *tailBuf) Write(p []byte) (int, error) {
	t.mu.Lock()
	t.buf = append(t.buf, p...)
	if len(t.buf) > 1<<20 {
		t.buf = t.buf[len(t.buf)-(1<<19):]
	}
	t.mu.Unlock()
	return len(p), nil
}
func (t *tailBuf) String() string { t.mu.Lock(); defer t.mu.Unlock(); return string(t.buf) }
func (t *tailBuf) Reset()         { t.mu.Lock(); t.buf = t.buf[:0]; t.mu.Unlock() }

func start(name string, extra []string) (*proc, error) {
	args := append([]string{"--worker"}, extra...)
	cmd := exec.Command(os.Args[0], args...)
	in, _ := cmd.StdinPipe()
	outp, _ := cmd.StdoutPipe()
	tb := &tailBuf{}
	cmd.Stderr = tb
	if err := cmd.Start(); err != nil {
		return nil, err
	}
	return &proc{cmd: cmd, in: in, out: bufio.NewReaderSize(outp, 1<<20), errBuf: tb}, nil
}

func (p *proc) kill() {
	if p == nil {
		return
	}
	p.in.Close()
	p.cmd.Process.Kill()
	p.cmd.Wait()
}

type result struct {
	line []byte
	err  error
}

// call sends one line and waits for the answer or the deadline.
func (p *proc) call(line []byte, tmo time.Duration) ([]byte, string) {
	if _, err := p.in.Write(append(line, '\n')); err != nil {
		return nil, "crash"
	}
	ch := make(chan result, 1)
	go func() {
		l, err := readLine(p.out)
		ch <- result{l, err}
	}()
	select {
	case r := <-ch:
		if r.err != nil || len(r.line) == 0 {
			return nil, "crash"
		}
		return r.line, ""
	case <-time.After(tmo):
		// goroutine dump, then make sure it is gone
		p.cmd.Process.Signal(syscall.SIGQUIT)
		time.Sleep(500 * time.Millisecond)
		return nil, "hang"
	}
}

const maxRSSMB = 1500

func rssMB(pid int) int {
	b, err := os.ReadFile(fmt.Sprintf("/proc/%d/statm", pid))
	if err != nil {
		return 0
	}
	f := strings.Fields(string(b))
	if len(f) < 2 {
		return 0
	}
	var pages int
	fmt.Sscanf(f[1], "%d", &pages)
	return pages * 4 / 1024
}

func goDied(stderr string) bool {
	return strings.Contains(stderr, "panic: ") || strings.Contains(stderr, "fatal error: ") || strings.Contains(stderr, "goroutine ")
}

var frameRe = regexp.MustCompile(`(?m)^((?:github\.com/bmeg/grip|verifharness)[^\n]*?)\((?:[^()\n]*|\.\.\.)\)\s*$`)

// Site extracts a short, stable crash site from a Go panic trace: the panic
// message plus the first grip frame.
func Site(trace string) string {
	msg := ""
	for _, l := range strings.Split(trace, "\n") {
		if strings.HasPrefix(l, "panic: ") || strings.HasPrefix(l, "fatal error: ") {
			msg = l
			break
		}
	}
	msg = regexp.MustCompile(`0x[0-9a-f]+`).ReplaceAllString(msg, "0x?")
	msg = regexp.MustCompile(`\[[^\]]*\]`).ReplaceAllString(msg, "[..]")
	msg = regexp.MustCompile(`\d+`).ReplaceAllString(msg, "N")
	idx := strings.Index(trace, msg)
	rest := trace
	if idx >= 0 {
		rest = trace[idx:]
	}
	m := frameRe.FindStringSubmatch(rest)
	fr := ""
	if m != nil {
		fr = m[1]
	}
	if len(msg) > 120 {
		msg = msg[:120]
	}
	return strings.TrimSpace(msg + " @ " + fr)
}

func runSupervisor(name string, jobs int, tmo time.Duration, extra []string) {
	in := bufio.NewReaderSize(os.Stdin, 1<<20)
	out := bufio.NewWriterSize(os.Stdout, 1<<20)
	var outMu sync.Mutex
	defer out.Flush()

	var setups [][]byte
	type job struct{ line []byte }
	work := make(chan job, 1024)
	var wg sync.WaitGroup
	var started sync.Once
	var setupsFrozen [][]byte

	runner := func(id int) {
		defer wg.Done()
		var p *proc
		boot := func() bool {
			var err error
			p, err = start(name, extra)
			if err != nil {
				return false
			}
			for _, s := range setupsFrozen {
				if _, bad := p.call(s, 10*time.Minute); bad != "" {
					return false
				}
			}
			return true
		}
		if !boot() {
			fmt.Fprintf(os.Stderr, "sup: worker %d could not boot: %s\n", id, p.errBuf.String())
			os.Exit(3)
		}
		n := 0
		for j := range work {
			n++
			if n%10 == 0 && rssMB(p.cmd.Process.Pid) > maxRSSMB {
				// the engine's temporary stores are not freed promptly: recycle the worker
				p.kill()
				if !boot() {
					fmt.Fprintf(os.Stderr, "sup: worker %d could not reboot\n", id)
					os.Exit(3)
				}
			}
			p.errBuf.Reset()
			resp, bad := p.call(j.line, tmo)
			if bad == "crash" && !goDied(p.errBuf.String()) {
				// died without a Go panic/fatal message (e.g. killed by the OS): not an
				// observation about grip - retry once on a fresh worker
				time.Sleep(100 * time.Millisecond)
				if !goDied(p.errBuf.String()) {
					p.kill()
					if !boot() {
						os.Exit(3)
					}
					p.errBuf.Reset()
					resp, bad = p.call(j.line, tmo)
					if bad == "crash" {
						time.Sleep(100 * time.Millisecond)
						if !goDied(p.errBuf.String()) {
							bad = "died"
						}
					}
				}
			}
			if bad == "hang" {
				// a deadline can also be missed because the machine is overloaded: a hang is
				// reported only when it reproduces on a fresh worker
				first := p.errBuf.String()
				p.kill()
				if !boot() {
					os.Exit(3)
				}
				p.errBuf.Reset()
				resp, bad = p.call(j.line, tmo)
				if bad == "hang" {
					p.errBuf.Write([]byte("\n--- first attempt ---\n" + first))
				}
			}
			if bad != "" {
				var req map[string]interface{}
				json.Unmarshal(j.line, &req)
				time.Sleep(100 * time.Millisecond)
				trace := p.errBuf.String()
				p.kill()
				trace = p.errBuf.String()
				rec := map[string]interface{}{"i": req["i"], bad: Site(trace)}
				if len(trace) > 6000 {
					trace = trace[:3000] + "\n...\n" + trace[len(trace)-3000:]
				}
				rec["trace"] = trace
				resp, _ = json.Marshal(rec)
				if !boot() {
					fmt.Fprintf(os.Stderr, "sup: worker %d could not reboot\n", id)
					os.Exit(3)
				}
			}
			outMu.Lock()
			out.Write(resp)
			out.WriteByte('\n')
			outMu.Unlock()
		}
		p.kill()
	}

	launch := func() {
		started.Do(func() {
			setupsFrozen = setups
			for i := 0; i < jobs; i++ {
				wg.Add(1)
				go runner(i)
			}
		})
	}
	for {
		line, err := readLine(in)
		if len(line) > 0 {
			cp := append([]byte(nil), line...)
			if head := string(cp[:min(len(cp), 200)]); strings.Contains(head, `"setup":true`) || strings.Contains(head, `"setup": true`) {
				setups = append(setups, cp)
			} else {
				launch()
				work <- job{cp}
			}
		}
		if err != nil {
			break
		}
	}
	launch()
	close(work)
	wg.Wait()
}

func min(a, b int) int {
	if a < b {
		return a
	}
	return b
}
