// Package agg replays the cases of Agg.tla: a graph with one vertex per input
// value (field x), V().aggregate(...) through the production compiler and
// pipeline, and the reported buckets are handed back for judgement by TLC.
package agg

import (
	"context"
	"fmt"
	"math"
	"os"

	"verifharness/gstore"
	"verifharness/qry"
	"verifharness/sup"
	"verifharness/trav"
	"verifharness/val"

	"github.com/bmeg/grip/engine/pipeline"
	"github.com/bmeg/grip/gdbi"
)

type handler struct {
	st   *gstore.Store
	work string
	n    int
}

func New() sup.Handler { return &handler{} }

func (h *handler) Setup(req map[string]interface{}) error { return nil }

func (h *handler) Close() {
	if h.st != nil {
		h.st.Destroy()
	}
	if h.work != "" {
		os.RemoveAll(h.work)
	}
}

func (h *handler) Handle(req map[string]interface{}) interface{} {
	resp := map[string]interface{}{"i": req["i"]}
	if h.st == nil {
		st, err := gstore.Open("badger")
		if err != nil {
			resp["harness_err"] = err.Error()
			return resp
		}
		h.st = st
		h.work, _ = os.MkdirTemp("", "vwork_")
	}
	h.n++
	name := fmt.Sprintf("c%d", h.n)
	if err := h.st.DB.AddGraph(name); err != nil {
		resp["harness_err"] = err.Error()
		return resp
	}
	defer h.st.DB.DeleteGraph(name)
	g, _ := h.st.DB.Graph(name)
	vals, _ := req["vals"].([]interface{})
	for k, tv := range vals {
		data := map[string]interface{}{"o": float64(k)}
		if v, present := val.Decode(tv); present {
			data["x"] = v
		}
		if err := g.AddVertex([]*gdbi.Vertex{{ID: fmt.Sprintf("v%02d", k), Label: "D", Data: data, Loaded: true}}); err != nil {
			resp["harness_err"] = err.Error()
			return resp
		}
	}
	if sl, _ := req["selfloops"].(bool); sl {
		for k := range vals {
			id := fmt.Sprintf("v%02d", k)
			if err := g.AddEdge([]*gdbi.Edge{{ID: "s" + id, Label: "selfloop", From: id, To: id, Data: map[string]interface{}{}, Loaded: true}}); err != nil {
				resp["harness_err"] = err.Error()
				return resp
			}
		}
	}
	if nl, _ := req["noload"].(bool); nl {
		// a backend that honours the do-not-load hint: load elision becomes observable
		g = &trav.NoLoadGraph{GraphInterface: g}
	}
	pre, _ := req["pre"].([]interface{}) // statements between V() and aggregate (optional)
	results := []interface{}{}
	lists, _ := req["agglists"].([]interface{})
	for _, al := range lists {
		results = append(results, h.runOne(name, g, pre, al))
	}
	resp["results"] = results
	return resp
}

func (h *handler) runOne(name string, g gdbi.GraphInterface, pre []interface{}, aggs interface{}) map[string]interface{} {
	resp := map[string]interface{}{}
	prog := []interface{}{map[string]interface{}{"op": "V", "ids": []interface{}{}}}
	prog = append(prog, pre...)
	prog = append(prog, map[string]interface{}{"op": "aggregate", "aggs": aggs})
	q, err := qry.Parse(name, prog)
	if err != nil {
		resp["wire_err"] = err.Error()
		return resp
	}
	o := qry.Run(context.Background(), g, q.Query, h.work, pipeline.Run)
	if o.Err != "" {
		resp["err"] = o.Err
	}
	if o.Panic != "" {
		resp["panic"] = o.Panic
	}
	rows := []interface{}{}
	for _, r := range o.Rows {
		if r["k"] != "a" {
			resp["foreign_row"] = r
			continue
		}
		v, _ := r["value"].(float64)
		row := map[string]interface{}{"name": r["name"], "key": r["key"]}
		if math.IsNaN(v) || math.IsInf(v, 0) {
			row["nan"] = true
			row["value"] = 0
		} else {
			row["value"] = v
		}
		rows = append(rows, row)
	}
	resp["rows"] = rows
	resp["type"] = o.Type
	return resp
}
