// Package jobsh replays the behaviours generated from Jobs.tla (sequences of
// submit / finish / status / view / resume / search / list / delete / restart)
// against the real job machinery, through two bindings:
//
//	storage: jobstorage.NewFSJobStorage + the engine, wired call by call the
//	         way server/job_manager.go wires them;
//	server:  the GripServer job handlers (Submit, GetJob, ViewJob, ResumeJob,
//	         SearchJobs, ListJobs, DeleteJob) called in process with fake
//	         stream objects (job storage attached by the verif hook
//	         VerifInitJobStorage).
//
// Every step yields one observation; the comparison with the specification
// is done by lib/checks/c11.py.  A "restart" is a new NewFSJobStorage (and a
// new GripServer) on the same directory.
package jobsh

import (
	"context"
	"fmt"
	"os"
	"path/filepath"
	"runtime"
	"runtime/debug"
	"runtime/pprof"
	"sort"
	"time"

	"verifharness/gstore"
	"verifharness/qry"
	"verifharness/sup"
	"verifharness/val"

	"github.com/bmeg/grip/config"
	"github.com/bmeg/grip/engine"
	"github.com/bmeg/grip/engine/pipeline"
	"github.com/bmeg/grip/gdbi"
	"github.com/bmeg/grip/gripql"
	"github.com/bmeg/grip/jobstorage"
	"github.com/bmeg/grip/server"
	"google.golang.org/grpc"
)

type handler struct {
	st     *gstore.Store
	graphs map[string]gdbi.GraphInterface
	work   string
	nbeh   int
}

func New() sup.Handler {
	if p := os.Getenv("VERIF_JOBSH_PROF"); p != "" { // developer aid: CPU profile of a worker
		if f, err := os.Create(fmt.Sprintf("%s.%d", p, os.Getpid())); err == nil {
			pprof.StartCPUProfile(f)
		}
	}
	return &handler{graphs: map[string]gdbi.GraphInterface{}}
}

// loadGraph adds the spec graph; large graphs go in with one call per kind.
func loadGraph(db gdbi.GraphDB, name string, g map[string]interface{}) (gdbi.GraphInterface, error) {
	vs, _ := g["V"].(map[string]interface{})
	es, _ := g["E"].(map[string]interface{})
	if len(vs)+len(es) <= 64 {
		return gstore.LoadGraph(db, name, g)
	}
	if err := db.AddGraph(name); err != nil {
		return nil, err
	}
	gi, err := db.Graph(name)
	if err != nil {
		return nil, err
	}
	velems := []*gdbi.Vertex{}
	for _, id := range val.Keys(g["V"]) {
		velems = append(velems, gstore.Elem(id, vs[id].(map[string]interface{})))
	}
	if err := gi.AddVertex(velems); err != nil {
		return nil, err
	}
	eelems := []*gdbi.Edge{}
	for _, id := range val.Keys(g["E"]) {
		eelems = append(eelems, gstore.Elem(id, es[id].(map[string]interface{})))
	}
	if err := gi.AddEdge(eelems); err != nil {
		return nil, err
	}
	return gi, nil
}

func (h *handler) Setup(req map[string]interface{}) error {
	if h.st == nil {
		drv, _ := req["driver"].(string)
		if drv == "" {
			drv = "badger"
		}
		st, err := gstore.Open(drv)
		if err != nil {
			return err
		}
		h.st = st
		h.work, _ = os.MkdirTemp("", "vjobs_")
	}
	gs, _ := req["graphs"].([]interface{})
	for i, g := range gs {
		name := fmt.Sprintf("g%d", i+1)
		gi, err := loadGraph(h.st.DB, name, g.(map[string]interface{}))
		if err != nil {
			return err
		}
		h.graphs[name] = gi
	}
	return nil
}

func (h *handler) Close() {
	pprof.StopCPUProfile()
	if h.st != nil {
		h.st.Destroy()
	}
	if h.work != "" {
		os.RemoveAll(h.work)
	}
}

// ---------------------------------------------------------------- bindings

// found is one job reported by Search.
type found struct {
	ID    string
	Graph string
}

type backend interface {
	Submit(g string, q []*gripql.GraphStatement) (string, error)
	Status(g, id string) (*gripql.JobStatus, error)
	View(g, id string) ([]*gripql.QueryResult, error)
	Resume(g, id string, ext []*gripql.GraphStatement) ([]*gripql.QueryResult, error)
	Search(g string, q []*gripql.GraphStatement) ([]found, error)
	List(g string) ([]string, error)
	Delete(g, id string) error
	Restart() error
}

// storageBackend mirrors server/job_manager.go statement by statement on a
// bare jobstorage.JobStorage.
type storageBackend struct {
	h    *handler
	dir  string // job directory
	work string // engine work directory
	js   jobstorage.JobStorage
}

func (b *storageBackend) Restart() error {
	b.js = jobstorage.NewFSJobStorage(b.dir)
	return nil
}

func (b *storageBackend) graph(g string) (gdbi.GraphInterface, error) {
	return b.h.st.DB.Graph(g)
}

func (b *storageBackend) Submit(g string, q []*gripql.GraphStatement) (string, error) {
	graph, err := b.graph(g)
	if err != nil {
		return "", err
	}
	compiler := graph.Compiler()
	pipe, err := compiler.Compile(q, nil)
	if err != nil {
		return "", err
	}
	dataType := pipe.DataType()
	markTypes := pipe.MarkTypes()
	man := engine.NewManager(b.work)
	bufsize := 5000
	res := pipeline.Start(context.Background(), pipe, man, bufsize, nil, nil)
	return b.js.Spool(g, &jobstorage.Stream{DataType: dataType, MarkTypes: markTypes, Pipe: res, Query: q})
}

func (b *storageBackend) Status(g, id string) (*gripql.JobStatus, error) {
	return b.js.Status(g, id)
}

func (b *storageBackend) View(g, id string) ([]*gripql.QueryResult, error) {
	stream, err := b.js.Stream(context.Background(), g, id)
	if err != nil {
		return nil, err
	}
	graph, err := b.graph(g)
	if err != nil {
		return nil, err
	}
	out := []*gripql.QueryResult{}
	for o := range stream.Pipe {
		out = append(out, pipeline.Convert(graph, stream.DataType, stream.MarkTypes, o))
	}
	return out, nil
}

func (b *storageBackend) Resume(g, id string, ext []*gripql.GraphStatement) ([]*gripql.QueryResult, error) {
	graph, err := b.graph(g)
	if err != nil {
		return nil, err
	}
	ctx, cancel := context.WithCancel(context.Background())
	defer cancel()
	stream, err := b.js.Stream(ctx, g, id)
	if err != nil {
		return nil, err
	}
	compiler := graph.Compiler()
	pipe, err := compiler.Compile(ext, &gdbi.CompileOptions{PipelineExtension: stream.DataType, ExtensionMarkTypes: stream.MarkTypes})
	if err != nil {
		cancel()
		go func() {
			for range stream.Pipe {
			}
		}()
		return nil, err
	}
	out := []*gripql.QueryResult{}
	for o := range pipeline.Resume(context.Background(), pipe, b.work, stream.Pipe, cancel) {
		out = append(out, o)
	}
	return out, nil
}

func (b *storageBackend) Search(g string, q []*gripql.GraphStatement) ([]found, error) {
	ch, err := b.js.Search(g, q)
	if err != nil {
		return nil, err
	}
	out := []found{}
	for s := range ch {
		out = append(out, found{ID: s.Id, Graph: s.Graph})
	}
	return out, nil
}

func (b *storageBackend) List(g string) ([]string, error) {
	ch, err := b.js.List(g)
	if err != nil {
		return nil, err
	}
	out := []string{}
	for s := range ch {
		out = append(out, s)
	}
	return out, nil
}

func (b *storageBackend) Delete(g, id string) error { return b.js.Delete(g, id) }

// serverBackend drives the GripServer job handlers.
type serverBackend struct {
	h    *handler
	dir  string
	work string
	srv  *server.GripServer
}

type fakeStream struct {
	grpc.ServerStream
}

func (f fakeStream) Context() context.Context { return context.Background() }

type resultSink struct {
	fakeStream
	rows []*gripql.QueryResult
}

func (s *resultSink) Send(r *gripql.QueryResult) error { s.rows = append(s.rows, r); return nil }

type jobSink struct {
	fakeStream
	ids []string
	gs  []string
}

func (s *jobSink) Send(j *gripql.QueryJob) error {
	s.ids = append(s.ids, j.Id)
	s.gs = append(s.gs, j.Graph)
	return nil
}

type statusSink struct {
	fakeStream
	out []found
}

func (s *statusSink) Send(j *gripql.JobStatus) error {
	s.out = append(s.out, found{ID: j.Id, Graph: j.Graph})
	return nil
}

func (b *serverBackend) Restart() error {
	conf := &config.Config{}
	conf.Server.WorkDir = b.work
	conf.Default = "kv"
	srv, err := server.NewGripServer(conf, "", map[string]gdbi.GraphDB{"kv": b.h.st.DB})
	if err != nil {
		return err
	}
	srv.VerifInitJobStorage(b.dir)
	b.srv = srv
	return nil
}

func (b *serverBackend) Submit(g string, q []*gripql.GraphStatement) (string, error) {
	j, err := b.srv.Submit(context.Background(), &gripql.GraphQuery{Graph: g, Query: q})
	if err != nil {
		return "", err
	}
	if j.Graph != g {
		return j.Id, fmt.Errorf("verif: Submit answered graph %q for %q", j.Graph, g)
	}
	return j.Id, nil
}

func (b *serverBackend) Status(g, id string) (*gripql.JobStatus, error) {
	return b.srv.GetJob(context.Background(), &gripql.QueryJob{Graph: g, Id: id})
}

func (b *serverBackend) View(g, id string) ([]*gripql.QueryResult, error) {
	sink := &resultSink{rows: []*gripql.QueryResult{}}
	err := b.srv.ViewJob(&gripql.QueryJob{Graph: g, Id: id}, sink)
	return sink.rows, err
}

func (b *serverBackend) Resume(g, id string, ext []*gripql.GraphStatement) ([]*gripql.QueryResult, error) {
	sink := &resultSink{rows: []*gripql.QueryResult{}}
	err := b.srv.ResumeJob(&gripql.ExtendQuery{Graph: g, SrcId: id, Query: ext}, sink)
	return sink.rows, err
}

func (b *serverBackend) Search(g string, q []*gripql.GraphStatement) ([]found, error) {
	sink := &statusSink{out: []found{}}
	err := b.srv.SearchJobs(&gripql.GraphQuery{Graph: g, Query: q}, sink)
	return sink.out, err
}

func (b *serverBackend) List(g string) ([]string, error) {
	sink := &jobSink{ids: []string{}}
	err := b.srv.ListJobs(&gripql.GraphID{Graph: g}, sink)
	for _, x := range sink.gs {
		if x != g {
			return sink.ids, fmt.Errorf("verif: ListJobs answered graph %q for %q", x, g)
		}
	}
	return sink.ids, err
}

func (b *serverBackend) Delete(g, id string) error {
	st, err := b.srv.DeleteJob(context.Background(), &gripql.QueryJob{Graph: g, Id: id})
	if err == nil && st != nil && st.State != gripql.JobState_DELETED {
		return fmt.Errorf("verif: DeleteJob answered state %s", st.State)
	}
	return err
}

// ---------------------------------------------------------------- replay

type jobInfo struct {
	id    string
	graph string
	prog  []interface{}
}

func errStr(err error) string {
	if err == nil {
		return ""
	}
	s := err.Error()
	if s == "" {
		s = "error"
	}
	return s
}

func rowsOf(rs []*gripql.QueryResult) []map[string]interface{} {
	out := make([]map[string]interface{}, 0, len(rs))
	for _, r := range rs {
		out = append(out, qry.Row(r))
	}
	return out
}

const finishDeadline = 120 * time.Second

func (h *handler) Handle(req map[string]interface{}) interface{} {
	resp := map[string]interface{}{"i": req["i"]}
	h.nbeh++
	if h.nbeh == 40 {
		defer pprof.StopCPUProfile() // flushes the developer profile, if one was started
	}
	base, err := os.MkdirTemp(h.work, "beh_")
	if err != nil {
		resp["harness_err"] = err.Error()
		return resp
	}
	defer os.RemoveAll(base)
	dir := filepath.Join(base, "jobs")
	work := filepath.Join(base, "work")
	os.MkdirAll(work, 0700)
	var be backend
	mode, _ := req["mode"].(string)
	switch mode {
	case "storage":
		be = &storageBackend{h: h, dir: dir, work: work}
	case "server":
		be = &serverBackend{h: h, dir: dir, work: work}
	default:
		resp["harness_err"] = "unknown mode " + mode
		return resp
	}
	if err := be.Restart(); err != nil {
		resp["harness_err"] = err.Error()
		return resp
	}
	jobs := map[string]*jobInfo{} // spec handle -> real job
	byID := map[string]string{}   // graph/real id -> spec handle
	handle := func(g, id string) string {
		if hd, ok := byID[g+"/"+id]; ok {
			return hd
		}
		return "?" + g + "/" + id
	}
	obs := []interface{}{}
	steps, _ := req["steps"].([]interface{})
	for _, raw := range steps {
		st, _ := raw.(map[string]interface{})
		o := h.step(be, st, jobs, byID, handle)
		obs = append(obs, o)
		if _, bad := o["harness_err"]; bad {
			break
		}
	}
	resp["obs"] = obs
	// a job that the behaviour never awaited may still be running: let it end before
	// its work directory is removed (the behaviour is over; nothing is observed here)
	drainEnd := time.Now().Add(60 * time.Second)
	for _, j := range jobs {
		for time.Now().Before(drainEnd) {
			s, err := be.Status(j.graph, j.id)
			if err != nil || s.State == gripql.JobState_COMPLETE || s.State == gripql.JobState_ERROR {
				break
			}
			time.Sleep(2 * time.Millisecond)
		}
	}
	return resp
}

func (h *handler) step(be backend, st map[string]interface{}, jobs map[string]*jobInfo, byID map[string]string,
	handle func(g, id string) string) (o map[string]interface{}) {
	op, _ := st["op"].(string)
	o = map[string]interface{}{"op": op}
	defer func() {
		if r := recover(); r != nil {
			o["panic"] = fmt.Sprintf("%v", r)
			o["trace"] = string(debug.Stack())
		}
	}()
	gname := func() string { return fmt.Sprintf("g%v", st["g"]) }
	job := func() *jobInfo {
		j := jobs[fmt.Sprintf("%v", st["j"])]
		if j == nil {
			o["harness_err"] = fmt.Sprintf("unknown job handle %v", st["j"])
		}
		return j
	}
	switch op {
	case "submit":
		prog, _ := st["prog"].([]interface{})
		q, err := qry.Parse(gname(), prog)
		if err != nil {
			o["harness_err"] = err.Error()
			return
		}
		id, err := be.Submit(gname(), q.Query)
		o["err"] = errStr(err)
		o["id"] = id
		if err == nil {
			hd := fmt.Sprintf("%v", st["j"])
			jobs[hd] = &jobInfo{id: id, graph: gname(), prog: prog}
			if _, dup := byID[gname()+"/"+id]; dup {
				o["dup_id"] = true
			}
			byID[gname()+"/"+id] = hd
		}
	case "finish":
		j := job()
		if j == nil {
			return
		}
		deadline := time.Now().Add(finishDeadline)
		polls := 0
		for {
			s, err := be.Status(j.graph, j.id)
			polls++
			if err != nil {
				o["err"] = errStr(err)
				break
			}
			o["state"] = s.State.String()
			o["count"] = s.Count
			if s.State == gripql.JobState_COMPLETE || s.State == gripql.JobState_ERROR {
				break
			}
			if time.Now().After(deadline) {
				o["timeout"] = true
				break
			}
			if polls < 200 {
				runtime.Gosched()
			} else if polls < 400 {
				time.Sleep(200 * time.Microsecond)
			} else {
				time.Sleep(2 * time.Millisecond)
			}
		}
		o["polls"] = polls
	case "status":
		j := job()
		if j == nil {
			return
		}
		s, err := be.Status(j.graph, j.id)
		o["err"] = errStr(err)
		if err == nil && s != nil {
			o["state"] = s.State.String()
			o["count"] = s.Count
			o["id_ok"] = s.Id == j.id
			o["graph_ok"] = s.Graph == j.graph
		}
	case "view":
		j := job()
		if j == nil {
			return
		}
		rs, err := be.View(j.graph, j.id)
		o["err"] = errStr(err)
		o["rows"] = rowsOf(rs)
		if d, _ := st["direct"].(bool); d {
			h.direct(o, j.graph, j.prog)
		}
	case "resume":
		j := job()
		if j == nil {
			return
		}
		ext, _ := st["ext"].([]interface{})
		q, err := qry.Parse(j.graph, ext)
		if err != nil {
			o["harness_err"] = err.Error()
			return
		}
		rs, err := be.Resume(j.graph, j.id, q.Query)
		o["err"] = errStr(err)
		o["rows"] = rowsOf(rs)
		if d, _ := st["direct"].(bool); d {
			full := append(append([]interface{}{}, j.prog...), ext...)
			h.direct(o, j.graph, full)
		}
	case "search":
		prog, _ := st["prog"].([]interface{})
		q, err := qry.Parse(gname(), prog)
		if err != nil {
			o["harness_err"] = err.Error()
			return
		}
		fs, err := be.Search(gname(), q.Query)
		o["err"] = errStr(err)
		hs := []string{}
		for _, f := range fs {
			hd := handle(gname(), f.ID)
			if f.Graph != gname() {
				hd = "?" + f.Graph + "/" + f.ID
			}
			hs = append(hs, hd)
		}
		sort.Strings(hs)
		o["jobs"] = hs
	case "list":
		ids, err := be.List(gname())
		o["err"] = errStr(err)
		hs := []string{}
		for _, id := range ids {
			hs = append(hs, handle(gname(), id))
		}
		sort.Strings(hs)
		o["jobs"] = hs
	case "delete":
		j := job()
		if j == nil {
			return
		}
		o["err"] = errStr(be.Delete(j.graph, j.id))
	case "restart":
		// no grace period: a job that has been observed COMPLETE is a completed job
		if err := be.Restart(); err != nil {
			o["harness_err"] = err.Error()
		}
	default:
		o["harness_err"] = "unknown op " + op
	}
	return
}

// direct runs the traversal directly (production compiler + pipeline.Run).
func (h *handler) direct(o map[string]interface{}, g string, prog []interface{}) {
	gi := h.graphs[g]
	if gi == nil {
		o["harness_err"] = "no graph " + g
		return
	}
	q, err := qry.Parse(g, prog)
	if err != nil {
		o["harness_err"] = err.Error()
		return
	}
	o["direct"] = qry.Run(context.Background(), gi, q.Query, h.work, pipeline.Run)
}
