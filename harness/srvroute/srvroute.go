// Package srvroute replays ServerRouting.tla histories on a real in-process
// GripServer with two kvgraph drivers ("kv" = default, "kv2") over two real
// Badger stores and one configured route (h1 -> kv2). Every call goes through
// the server's handler methods; after every call everything a client can see
// of the namespace is read back through handlers too: ListGraphs, the
// existence and content of every graph name of the universe (GetTimestamp,
// V()/E() traversals), and GetSchema of every base graph.
package srvroute

import (
	"context"
	"fmt"
	"io"
	"os"
	"path/filepath"
	"sort"
	"strings"

	"verifharness/sup"

	"github.com/bmeg/grip/config"
	"github.com/bmeg/grip/gdbi"
	"github.com/bmeg/grip/gripql"
	"github.com/bmeg/grip/kvgraph"
	"github.com/bmeg/grip/kvi"
	_ "github.com/bmeg/grip/kvi/badgerdb"
	"github.com/bmeg/grip/log"
	"github.com/bmeg/grip/server"
	"google.golang.org/grpc"
	"google.golang.org/grpc/metadata"
	"google.golang.org/protobuf/proto"
	"google.golang.org/protobuf/types/known/structpb"
)

func init() {
	log.ConfigureLogger(log.Logger{Level: "error", Formatter: "text"})
	log.GetLogger().SetOutput(io.Discard)
}

var base = []string{"g1", "h1", "g3"}
var allNames = []string{"g1", "h1", "g3", "g1__schema__", "h1__schema__", "g3__schema__"}

type node struct {
	dir  string
	kvs  []kvi.KVInterface
	dbs  map[string]gdbi.GraphDB
	conf *config.Config
	srv  *server.GripServer
}

func newNode() (*node, error) {
	dir, err := os.MkdirTemp("", "srvroute_")
	if err != nil {
		return nil, err
	}
	n := &node{dir: dir, dbs: map[string]gdbi.GraphDB{}}
	for _, d := range []string{"kv", "kv2"} {
		kv, err := kvi.NewKVInterface("badger", filepath.Join(dir, d), nil)
		if err != nil {
			n.close()
			return nil, err
		}
		n.kvs = append(n.kvs, kv)
		n.dbs[d] = kvgraph.NewKVGraph(kv)
	}
	conf := config.DefaultConfig()
	conf.Server.WorkDir = filepath.Join(dir, "work")
	conf.Default = "kv"
	conf.Graphs = map[string]string{}
	n.conf = conf
	srv, err := server.NewGripServer(conf, dir, n.dbs)
	if err != nil {
		n.close()
		return nil, err
	}
	n.srv = srv
	return n, nil
}

func (n *node) close() {
	for _, kv := range n.kvs {
		func() {
			defer func() { recover() }()
			kv.Close()
		}()
	}
	os.RemoveAll(n.dir)
}

// ---------------------------------------------------------------- in-process streams
type bulkStream struct {
	ctx    context.Context
	elems  []*gripql.GraphElement
	pos    int
	result *gripql.BulkEditResult
}

func (f *bulkStream) SetHeader(metadata.MD) error  { return nil }
func (f *bulkStream) SendHeader(metadata.MD) error { return nil }
func (f *bulkStream) SetTrailer(metadata.MD)       {}
func (f *bulkStream) Context() context.Context     { return f.ctx }
func (f *bulkStream) SendMsg(m interface{}) error {
	if r, ok := m.(*gripql.BulkEditResult); ok {
		f.result = r
	}
	return nil
}
func (f *bulkStream) RecvMsg(m interface{}) error {
	if f.pos >= len(f.elems) {
		return io.EOF
	}
	dst := m.(proto.Message)
	proto.Reset(dst)
	proto.Merge(dst, f.elems[f.pos])
	f.pos++
	return nil
}

type travStream struct {
	ctx  context.Context
	rows []*gripql.QueryResult
}

func (f *travStream) SetHeader(metadata.MD) error  { return nil }
func (f *travStream) SendHeader(metadata.MD) error { return nil }
func (f *travStream) SetTrailer(metadata.MD)       {}
func (f *travStream) Context() context.Context     { return f.ctx }
func (f *travStream) SendMsg(m interface{}) error  { return nil }
func (f *travStream) RecvMsg(m interface{}) error  { return io.EOF }
func (f *travStream) Send(r *gripql.QueryResult) error {
	f.rows = append(f.rows, r)
	return nil
}

func bulkAddHandler() grpc.StreamHandler {
	for _, sd := range gripql.Edit_ServiceDesc.Streams {
		if sd.StreamName == "BulkAdd" {
			return sd.Handler
		}
	}
	panic("gripql.Edit_ServiceDesc has no BulkAdd stream")
}

// ---------------------------------------------------------------- handler
type Handler struct {
	n     *node
	count int
}

func New() sup.Handler { return &Handler{} }

func (h *Handler) Setup(req map[string]interface{}) error { return nil }

func (h *Handler) Close() {
	if h.n != nil {
		h.n.close()
	}
}

func (h *Handler) fresh() error {
	if h.n != nil && h.count%150 != 0 {
		return nil
	}
	if h.n != nil {
		h.n.close()
		h.n = nil
	}
	n, err := newNode()
	if err != nil {
		return err
	}
	h.n = n
	return nil
}

func str(m map[string]interface{}, k string) string { s, _ := m[k].(string); return s }

type session struct {
	n      *node
	prefix string
	ctx    context.Context
}

func (s *session) name(g string) string {
	if strings.Contains(g, " ") || g == "" {
		return g
	}
	return s.prefix + g
}

func empty() *structpb.Struct { return &structpb.Struct{Fields: map[string]*structpb.Value{}} }

// the two schemas of ServerRouting.tla
func schemaGraph(id, graph string) *gripql.Graph {
	if id == "S1" {
		return &gripql.Graph{Graph: graph, Vertices: []*gripql.Vertex{{Gid: "a", Label: "L1", Data: empty()}}}
	}
	return &gripql.Graph{Graph: graph,
		Vertices: []*gripql.Vertex{{Gid: "a", Label: "L2", Data: empty()}, {Gid: "b", Label: "L1", Data: empty()}},
		Edges:    []*gripql.Edge{{Gid: "e1", Label: "K1", From: "a", To: "b", Data: empty()}}}
}

func schemaID(g *gripql.Graph) string {
	vs := []string{}
	for _, v := range g.Vertices {
		vs = append(vs, v.Gid+":"+v.Label)
	}
	sort.Strings(vs)
	k := strings.Join(vs, ",") + fmt.Sprintf("|%d", len(g.Edges))
	switch k {
	case "a:L1|0":
		return "S1"
	case "a:L2,b:L1|1":
		return "S2"
	}
	return "other:" + k
}

func res(err error) map[string]interface{} {
	if err != nil {
		return map[string]interface{}{"res": "error", "msg": err.Error()}
	}
	return map[string]interface{}{"res": "ok"}
}

func (s *session) do(call map[string]interface{}) map[string]interface{} {
	srv := s.n.srv
	g := s.name(str(call, "g"))
	switch str(call, "op") {
	case "AddGraph":
		_, err := srv.AddGraph(s.ctx, &gripql.GraphID{Graph: g})
		return res(err)
	case "DeleteGraph":
		_, err := srv.DeleteGraph(s.ctx, &gripql.GraphID{Graph: g})
		return res(err)
	case "AddVertex":
		_, err := srv.AddVertex(s.ctx, &gripql.GraphElement{Graph: g, Vertex: &gripql.Vertex{Gid: str(call, "id"), Label: str(call, "l"), Data: empty()}})
		return res(err)
	case "AddEdge":
		_, err := srv.AddEdge(s.ctx, &gripql.GraphElement{Graph: g, Edge: &gripql.Edge{Gid: str(call, "id"), Label: str(call, "l"),
			From: str(call, "from"), To: str(call, "to"), Data: empty()}})
		return res(err)
	case "DelVertex":
		_, err := srv.DeleteVertex(s.ctx, &gripql.ElementID{Graph: g, Id: str(call, "id")})
		return res(err)
	case "DelEdge":
		_, err := srv.DeleteEdge(s.ctx, &gripql.ElementID{Graph: g, Id: str(call, "id")})
		return res(err)
	case "AddSchema":
		_, err := srv.AddSchema(s.ctx, schemaGraph(str(call, "schema"), g))
		return res(err)
	case "AddIndex":
		_, err := srv.AddIndex(s.ctx, &gripql.IndexID{Graph: g, Label: "L1", Field: "f"})
		return res(err)
	case "BulkAdd":
		raw, _ := call["elems"].([]interface{})
		st := &bulkStream{ctx: s.ctx}
		for _, x := range raw {
			e := x.(map[string]interface{})
			st.elems = append(st.elems, &gripql.GraphElement{Graph: s.name(str(e, "g")),
				Vertex: &gripql.Vertex{Gid: str(e, "id"), Label: str(e, "l"), Data: empty()}})
		}
		if err := bulkAddHandler()(srv, st); err != nil {
			return res(err)
		}
		if st.result == nil {
			return map[string]interface{}{"res": "error", "msg": "BulkAdd returned no result"}
		}
		return map[string]interface{}{"res": "counts", "insert": st.result.InsertCount, "errors": st.result.ErrorCount}
	}
	return map[string]interface{}{"res": "bad-call"}
}

func (s *session) traverse(g string, q *gripql.Query) ([]*gripql.QueryResult, error) {
	st := &travStream{ctx: s.ctx}
	err := s.n.srv.Traversal(&gripql.GraphQuery{Graph: g, Query: q.Statements}, st)
	return st.rows, err
}

// observe reads back everything ServerRouting.tla calls observable.
func (s *session) observe() map[string]interface{} {
	srv := s.n.srv
	o := map[string]interface{}{}
	listed := []string{}
	if l, err := srv.ListGraphs(s.ctx, &gripql.Empty{}); err != nil {
		o["listed_err"] = err.Error()
	} else {
		for _, g := range l.Graphs {
			if strings.HasPrefix(g, s.prefix) {
				listed = append(listed, strings.TrimPrefix(g, s.prefix))
			}
		}
	}
	sort.Strings(listed)
	o["listed"] = listed
	graphs := map[string]interface{}{}
	for _, n := range allNames {
		real := s.name(n)
		if _, err := srv.GetTimestamp(s.ctx, &gripql.GraphID{Graph: real}); err != nil {
			graphs[n] = "absent"
			continue
		}
		V := map[string]interface{}{}
		E := map[string]interface{}{}
		note := ""
		rows, err := s.traverse(real, gripql.NewQuery().V())
		if err != nil {
			note = "V(): " + err.Error()
		}
		for _, r := range rows {
			if v := r.GetVertex(); v != nil {
				if _, dup := V[v.Gid]; dup {
					note = "V() lists " + v.Gid + " twice"
				}
				V[v.Gid] = v.Label
			}
		}
		rows, err = s.traverse(real, gripql.NewQuery().E())
		if err != nil {
			note = "E(): " + err.Error()
		}
		for _, r := range rows {
			if e := r.GetEdge(); e != nil {
				if _, dup := E[e.Gid]; dup {
					note = "E() lists " + e.Gid + " twice"
				}
				E[e.Gid] = []interface{}{e.Label, e.From, e.To}
			}
		}
		// lookups by id agree with the listings
		for _, id := range []string{"a", "b"} {
			v, err := srv.GetVertex(s.ctx, &gripql.ElementID{Graph: real, Id: id})
			_, in := V[id]
			if (err == nil) != in || (err == nil && v.Label != V[id]) {
				note = "GetVertex(" + id + ") disagrees with V()"
			}
		}
		e, err := srv.GetEdge(s.ctx, &gripql.ElementID{Graph: real, Id: "e1"})
		if _, in := E["e1"]; (err == nil) != in || (err == nil && e.Label != E["e1"].([]interface{})[0]) {
			note = "GetEdge(e1) disagrees with E()"
		}
		gr := map[string]interface{}{"V": V, "E": E}
		if note != "" {
			gr["note"] = note
		}
		graphs[n] = gr
	}
	o["graphs"] = graphs
	schema := map[string]interface{}{}
	for _, g := range base {
		sc, err := srv.GetSchema(s.ctx, &gripql.GraphID{Graph: s.name(g)})
		if err != nil {
			schema[g] = "notfound"
		} else {
			schema[g] = schemaID(sc)
		}
	}
	o["schema"] = schema
	// where the graphs live: asked of the drivers directly (implementation-shaped state, not client-visible)
	homes := map[string]interface{}{}
	for _, n := range allNames {
		hs := []string{}
		for _, d := range []string{"kv", "kv2"} {
			for _, g := range s.n.dbs[d].ListGraphs() {
				if g == s.name(n) {
					hs = append(hs, d)
				}
			}
		}
		homes[n] = hs
	}
	o["homes"] = homes
	return o
}

func (h *Handler) Handle(req map[string]interface{}) interface{} {
	out := map[string]interface{}{"i": req["i"]}
	if err := h.fresh(); err != nil {
		out["fail"] = err.Error()
		return out
	}
	h.count++
	s := &session{n: h.n, prefix: fmt.Sprintf("p%dx", h.count), ctx: context.Background()}
	// the configured route of this history's h1; with started=true the routing table is computed now,
	// as Serve does after start-up; otherwise it is first computed by the first AddGraph/DeleteGraph
	h.n.conf.Graphs[s.name("h1")] = "kv2"
	if b, _ := req["started"].(bool); b {
		h.n.srv.VerifUpdateGraphMap()
	}
	steps := []interface{}{}
	hist, _ := req["hist"].([]interface{})
	for _, x := range hist {
		call := x.(map[string]interface{})["call"].(map[string]interface{})
		r := s.do(call)
		r["obs"] = s.observe()
		steps = append(steps, r)
	}
	out["steps"] = steps
	// leave nothing of this history behind
	delete(h.n.conf.Graphs, s.name("h1"))
	for _, db := range h.n.dbs {
		for _, g := range db.ListGraphs() {
			if strings.HasPrefix(g, s.prefix) {
				db.DeleteGraph(g)
			}
		}
	}
	return out
}
