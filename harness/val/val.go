// Package val converts between the tagged JSON values printed by the TLA+
// specifications (["n",1], ["s","a"], ["l",[...]], ["m",{...}], ["b",true],
// ["null"], ["missing"]) and plain Go values as grip uses them.
package val

import (
	"fmt"
	"sort"
)

// Decode turns a tagged value into a Go value; present=false for ["missing"].
func Decode(raw interface{}) (v interface{}, present bool) {
	a, ok := raw.([]interface{})
	if !ok || len(a) == 0 {
		panic(fmt.Sprintf("val.Decode: not a tagged value: %#v", raw))
	}
	tag, _ := a[0].(string)
	switch tag {
	case "missing":
		return nil, false
	case "null":
		return nil, true
	case "b":
		return a[1].(bool), true
	case "n":
		return a[1].(float64), true
	case "h": // halves: ["h",k] denotes k/2
		return a[1].(float64) / 2, true
	case "s":
		return a[1].(string), true
	case "l":
		items, _ := a[1].([]interface{})
		out := make([]interface{}, 0, len(items))
		for _, it := range items {
			x, _ := Decode(it)
			out = append(out, x)
		}
		return out, true
	case "m":
		return DecodeMap(a[1]), true
	}
	panic(fmt.Sprintf("val.Decode: unknown tag %q", tag))
}

// DecodeMap decodes the payload of an ["m", ...] value: a JSON object of tagged
// values, or [] (TLC prints the empty function as an empty sequence).
func DecodeMap(raw interface{}) map[string]interface{} {
	out := map[string]interface{}{}
	if m, ok := raw.(map[string]interface{}); ok {
		for k, x := range m {
			if v, present := Decode(x); present {
				out[k] = v
			}
		}
	}
	return out
}

// Encode turns a Go value (as returned by grip: float64, string, bool, nil,
// []interface{}, map[string]interface{}) into the tagged form.
func Encode(v interface{}) interface{} {
	switch x := v.(type) {
	case nil:
		return []interface{}{"null"}
	case bool:
		return []interface{}{"b", x}
	case float64:
		return []interface{}{"n", x}
	case float32:
		return []interface{}{"n", float64(x)}
	case int:
		return []interface{}{"n", float64(x)}
	case int32:
		return []interface{}{"n", float64(x)}
	case int64:
		return []interface{}{"n", float64(x)}
	case uint32:
		return []interface{}{"n", float64(x)}
	case string:
		return []interface{}{"s", x}
	case []interface{}:
		out := make([]interface{}, 0, len(x))
		for _, it := range x {
			out = append(out, Encode(it))
		}
		return []interface{}{"l", out}
	case []string:
		out := make([]interface{}, 0, len(x))
		for _, it := range x {
			out = append(out, Encode(it))
		}
		return []interface{}{"l", out}
	case map[string]interface{}:
		m := map[string]interface{}{}
		for k, it := range x {
			m[k] = Encode(it)
		}
		return []interface{}{"m", m}
	}
	return []interface{}{"other", fmt.Sprintf("%T:%v", v, v)}
}

// Keys returns the sorted keys of a JSON object (or none for the [] TLC prints for an empty function).
func Keys(raw interface{}) []string {
	m, ok := raw.(map[string]interface{})
	if !ok {
		return nil
	}
	ks := make([]string, 0, len(m))
	for k := range m {
		ks = append(ks, k)
	}
	sort.Strings(ks)
	return ks
}

// Strs converts a JSON array of strings.
func Strs(raw interface{}) []string {
	a, _ := raw.([]interface{})
	out := make([]string, 0, len(a))
	for _, x := range a {
		s, _ := x.(string)
		out = append(out, s)
	}
	return out
}
