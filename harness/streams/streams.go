// Package streams records histories of grip's internal stream combinators by
// external observation (C13): the harness is the producer and the consumer of
// the REAL combinator and logs its own channel operations - nothing inside
// grip is instrumented.
//
// Every operation is logged by the goroutine that performs it, in that
// goroutine's own list (the list position is the per-goroutine sequence
// number), together with two tickets drawn from one shared atomic counter:
// b immediately before the operation is invoked, e immediately after it
// returned.  Tickets are a logical clock, not wall-clock time: X.e < Y.b proves
// that X returned before Y was invoked; any other pair is concurrent and the
// trace specification (spec/streamcomb/StreamTrace.tla) tries both orders.
//
//	producer list p:  {"k":"s","v":[items owed],"b":..,"e":..}   a send / Put that returned
//	                  {"k":"c",...}                              close(input) / Close()
//	consumer list c:  {"k":"r","v":[items],...}                  a receive that yielded a value
//	                  {"k":"x",...}                              a receive that reported "closed"
//
// The harness never judges a history; it only reports what it saw.
package streams

import (
	"context"
	"encoding/json"
	"fmt"
	"math"
	"math/rand"
	"os"
	"runtime"
	"strconv"
	"strings"
	"sync"
	"sync/atomic"
	"time"

	"verifharness/sup"

	"github.com/bmeg/grip/engine/queue"
	"github.com/bmeg/grip/gdbi"
	"github.com/bmeg/grip/gripper"
	"github.com/bmeg/grip/jobstorage"
)

// Op is one logged operation.
type Op struct {
	K string `json:"k"`
	V []int  `json:"v"`
	B int64  `json:"b"`
	E int64  `json:"e"`
}

type recorder struct {
	clock int64
	p, c  []Op
}

func (r *recorder) tick() int64 { return atomic.AddInt64(&r.clock, 1) }

// scenario parameters (one request line)
type scen struct {
	Comb     string // marshal | unmarshal | serde | mux | batcher | dual | queue
	N        int    // input length
	W        int    // workers / lanes / batch size
	Pat      string // plain | big | slowcons | slowprod | burst | yield | stall | longstall | jitter | testmux
	Procs    int    // GOMAXPROCS
	Seed     int64
	CapIn    int // capacity of the caller's input channel
	LaneCap  int // mux: capacity of the lane channels (0 = unbuffered, as in TestMux)
	Lazy     bool
	TimeoutU int // batcher: timeout in microseconds
	MaxRes   int // dual: maximal results per request
	Deadline time.Duration
}

func geti(m map[string]interface{}, k string, d int) int {
	if v, ok := m[k].(float64); ok {
		return int(v)
	}
	return d
}

func parse(req map[string]interface{}) scen {
	s := scen{}
	s.Comb, _ = req["comb"].(string)
	s.Pat, _ = req["pat"].(string)
	s.N = geti(req, "n", 0)
	s.W = geti(req, "w", 1)
	s.Procs = geti(req, "procs", 4)
	s.Seed = int64(geti(req, "seed", 1))
	s.CapIn = geti(req, "capin", 10)
	s.LaneCap = geti(req, "lanecap", 0)
	s.Lazy, _ = req["lazy"].(bool)
	s.TimeoutU = geti(req, "timeout_us", 1)
	s.MaxRes = geti(req, "maxres", 3)
	s.Deadline = time.Duration(geti(req, "deadline_ms", 15000)) * time.Millisecond
	return s
}

type handler struct{}

func New() sup.Handler { return &handler{} }

func (h *handler) Setup(req map[string]interface{}) error { return nil }
func (h *handler) Close()                                 {}

// pacing of the caller's two goroutines
type pace struct {
	s   scen
	rng *rand.Rand
}

func (p *pace) nap(every int, k int) {
	if p.s.N > 200 {
		if k%64 != 0 {
			return
		}
	} else if every > 1 && k%every != 0 {
		return
	}
	time.Sleep(time.Duration(50+p.rng.Intn(400)) * time.Microsecond)
}

func (p *pace) producer(k int) {
	switch p.s.Pat {
	case "slowprod":
		p.nap(1, k)
	case "burst":
		// bursts of irregular length separated by pauses that outlast any batch timeout
		if p.rng.Intn(7) == 0 {
			time.Sleep(time.Duration(p.s.TimeoutU)*time.Microsecond*3 + 300*time.Microsecond)
		}
	case "yield":
		if p.rng.Intn(3) == 0 {
			runtime.Gosched()
		}
	}
}

func (p *pace) consumer(k int) {
	switch p.s.Pat {
	case "slowcons":
		p.nap(1, k)
	case "stall":
		// the consumer stops for a while: every buffer of the combinator fills up and the
		// producer is pushed back, then everything drains
		if k%1000 == 1 {
			time.Sleep(20 * time.Millisecond)
		}
	case "longstall":
		// a reader that starts late and later pauses for longer than any plausible internal time-out:
		// nothing but back-pressure may happen meanwhile
		if k == 1 {
			time.Sleep(1200 * time.Millisecond)
		} else if k%1000 == 500 {
			time.Sleep(300 * time.Millisecond)
		}
	case "yield":
		if p.rng.Intn(3) == 0 {
			runtime.Gosched()
		}
	}
}

// payload makes the work of one item (and so the latency of the worker that
// gets it) depend on the item: "big" puts large documents on one residue class.
func payload(s scen, k int) map[string]interface{} {
	size := 0
	switch s.Pat {
	case "big":
		m := s.W
		if m < 2 {
			m = 2
		}
		if k%m == 1 {
			size = 20000
		}
	case "plain", "":
		size = 0
	default:
		if k%7 == 0 {
			size = 2000
		}
	}
	d := map[string]interface{}{"k": float64(k)}
	if unencodable(s, k) {
		d["bad"] = math.NaN()
	}
	if size > 0 {
		d["pad"] = strings.Repeat("x", size)
	}
	return d
}

// unencodable says whether the k-th traveler of the scenario carries a value encoding/json refuses (pattern
// "nan"): the serializer cannot output such an item, so the producer owes nothing for it and a placeholder
// that takes its place is not an item; every OTHER item must still come out once and in input order.
func unencodable(s scen, k int) bool {
	return s.Pat == "nan" && (k+int(s.Seed))%5 == 2
}

func traveler(s scen, k int) gdbi.Traveler {
	return &gdbi.BaseTraveler{Current: &gdbi.Vertex{ID: strconv.Itoa(k), Label: "T", Data: payload(s, k), Loaded: true}}
}

func travelerID(t gdbi.Traveler) int {
	if t == nil || t.GetCurrent() == nil {
		return -1
	}
	k, err := strconv.Atoi(t.GetCurrent().ID)
	if err != nil {
		return -2
	}
	return k
}

func bytesID(b []byte) int {
	var m struct {
		Current *struct{ ID string }
	}
	if err := json.Unmarshal(b, &m); err != nil || m.Current == nil {
		return -1
	}
	k, err := strconv.Atoi(m.Current.ID)
	if err != nil {
		return -2
	}
	return k
}

// run is the outcome of one scenario
type run struct {
	rec      *recorder
	cap      int
	maxchunk int
	hang     string
	dump     string
}

// drive runs the producer and the consumer around a combinator whose caller-side
// operations are given as closures.  send(k) performs the k-th input operation
// and returns the items it owes; closeIn closes the input; recv performs one
// receive and returns (items, open).
func drive(s scen, rec *recorder, send func(k int, abort <-chan struct{}) ([]int, bool), closeIn func(), recv func(abort <-chan struct{}) ([]int, bool, bool)) (hang string, dump string) {
	abort := make(chan struct{})
	var wg sync.WaitGroup
	var progress int64
	pp := &pace{s: s, rng: rand.New(rand.NewSource(s.Seed*7919 + 1))}
	pc := &pace{s: s, rng: rand.New(rand.NewSource(s.Seed*7919 + 2))}
	wg.Add(2)
	go func() {
		defer wg.Done()
		for k := 1; k <= s.N; k++ {
			pp.producer(k)
			b := rec.tick()
			items, ok := send(k, abort)
			e := rec.tick()
			if !ok {
				return // blocked until the deadline: nothing is logged for an operation that never returned
			}
			rec.p = append(rec.p, Op{K: "s", V: items, B: b, E: e})
			atomic.AddInt64(&progress, 1)
		}
		b := rec.tick()
		closeIn()
		e := rec.tick()
		rec.p = append(rec.p, Op{K: "c", V: []int{}, B: b, E: e})
		atomic.AddInt64(&progress, 1)
	}()
	go func() {
		defer wg.Done()
		for k := 1; ; k++ {
			b := rec.tick()
			items, open, ok := recv(abort)
			e := rec.tick()
			if !ok {
				return
			}
			atomic.AddInt64(&progress, 1)
			if !open {
				rec.c = append(rec.c, Op{K: "x", V: []int{}, B: b, E: e})
				return
			}
			rec.c = append(rec.c, Op{K: "r", V: items, B: b, E: e})
			pc.consumer(k)
		}
	}()
	// watchdog: no operation of either side completed for a whole deadline
	both := make(chan struct{})
	go func() { wg.Wait(); close(both) }()
	last := int64(-1)
	tk := time.NewTicker(s.Deadline / 4)
	defer tk.Stop()
	idle := 0
	for {
		select {
		case <-both:
			return "", ""
		case <-tk.C:
			cur := atomic.LoadInt64(&progress)
			if cur != last {
				last, idle = cur, 0
				continue
			}
			idle++
			if idle < 4 {
				continue
			}
			buf := make([]byte, 1<<20)
			n := runtime.Stack(buf, true)
			dump = string(buf[:n])
			close(abort)
			<-both
			if len(rec.p) == 0 || rec.p[len(rec.p)-1].K != "c" {
				return "producer blocked", dump
			}
			return "output never closed", dump
		}
	}
}

func (h *handler) Handle(req map[string]interface{}) interface{} {
	s := parse(req)
	resp := map[string]interface{}{"i": req["i"]}
	if s.Procs > 0 {
		runtime.GOMAXPROCS(s.Procs)
	}
	var r run
	switch s.Comb {
	case "marshal":
		r = runMarshal(s)
	case "unmarshal":
		r = runUnmarshal(s)
	case "serde":
		r = runSerde(s)
	case "mux":
		r = runMux(s)
	case "batcher":
		r = runBatcher(s)
	case "dual":
		r = runDual(s)
	case "queue":
		r = runQueue(s)
	default:
		resp["err"] = "unknown combinator " + s.Comb
		return resp
	}
	if r.rec.p == nil {
		r.rec.p = []Op{}
	}
	if r.rec.c == nil {
		r.rec.c = []Op{}
	}
	resp["p"], resp["c"] = r.rec.p, r.rec.c
	resp["cap"], resp["maxchunk"] = r.cap, r.maxchunk
	if r.hang != "" {
		resp["hang"] = r.hang
		if len(r.dump) > 12000 {
			r.dump = r.dump[:12000]
		}
		resp["dump"] = r.dump
		// goroutines of the combinator are still blocked (or spinning) in this process:
		// answer, then leave; the supervisor starts a fresh worker for the next request
		time.AfterFunc(300*time.Millisecond, func() { os.Exit(0) })
	}
	return resp
}

// ---------------------------------------------------------------- serializer

func runMarshal(s scen) run {
	rec := &recorder{}
	in := make(chan gdbi.Traveler, s.CapIn)
	out := jobstorage.MarshalStream(in, s.W)
	hang, dump := drive(s, rec,
		func(k int, abort <-chan struct{}) ([]int, bool) {
			t := traveler(s, k)
			select {
			case in <- t:
				if unencodable(s, k) {
					return []int{}, true
				}
				return []int{k}, true
			case <-abort:
				return nil, false
			}
		},
		func() { close(in) },
		func(abort <-chan struct{}) ([]int, bool, bool) {
			for {
				select {
				case b, ok := <-out:
					if !ok {
						return nil, false, true
					}
					if s.Pat == "nan" && len(b) == 0 {
						continue // placeholder of an item that cannot be encoded
					}
					return []int{bytesID(b)}, true, true
				case <-abort:
					return nil, false, false
				}
			}
		})
	// toWorkers 10 + worker 1 + fromWorkers 10 per lane, distributor 1, merger 1, out 10*W
	return run{rec: rec, cap: s.CapIn + 1 + s.W*21 + 1 + 10*s.W, maxchunk: 1, hang: hang, dump: dump}
}

func runUnmarshal(s scen) run {
	rec := &recorder{}
	in := make(chan []byte, s.CapIn)
	out := jobstorage.UnmarshalStream(in, s.W)
	hang, dump := drive(s, rec,
		func(k int, abort <-chan struct{}) ([]int, bool) {
			b, _ := json.Marshal(traveler(s, k))
			select {
			case in <- b:
				return []int{k}, true
			case <-abort:
				return nil, false
			}
		},
		func() { close(in) },
		func(abort <-chan struct{}) ([]int, bool, bool) {
			select {
			case t, ok := <-out:
				if !ok {
					return nil, false, true
				}
				return []int{travelerID(t)}, true, true
			case <-abort:
				return nil, false, false
			}
		})
	return run{rec: rec, cap: s.CapIn + 1 + s.W*21 + 1 + 10*s.W, maxchunk: 1, hang: hang, dump: dump}
}

// the composition used by the job store (and by TestSerializeStream)
func runSerde(s scen) run {
	rec := &recorder{}
	in := make(chan gdbi.Traveler, s.CapIn)
	out := jobstorage.UnmarshalStream(jobstorage.MarshalStream(in, s.W), s.W)
	hang, dump := drive(s, rec,
		func(k int, abort <-chan struct{}) ([]int, bool) {
			t := traveler(s, k)
			select {
			case in <- t:
				if unencodable(s, k) {
					return []int{}, true
				}
				return []int{k}, true
			case <-abort:
				return nil, false
			}
		},
		func() { close(in) },
		func(abort <-chan struct{}) ([]int, bool, bool) {
			for {
				select {
				case t, ok := <-out:
					if !ok {
						return nil, false, true
					}
					if s.Pat == "nan" && travelerID(t) == -1 {
						continue // what the blank line of an unencodable item decodes to
					}
					return []int{travelerID(t)}, true, true
				case <-abort:
					return nil, false, false
				}
			}
		})
	return run{rec: rec, cap: s.CapIn + 2*(1+s.W*21+1+10*s.W), maxchunk: 1, hang: hang, dump: dump}
}

// ----------------------------------------------------------------------- mux

type muxItem struct{ K, Lane int }

func lanePipeline(s scen, lane int, seed int64) (chan interface{}, chan interface{}) {
	in := make(chan interface{}, s.LaneCap)
	out := make(chan interface{}, s.LaneCap)
	rng := rand.New(rand.NewSource(seed))
	go func() {
		defer close(out)
		for i := range in {
			switch s.Pat {
			case "plain", "":
			case "big":
				if lane == 0 {
					time.Sleep(time.Duration(rng.Intn(300)) * time.Microsecond)
				}
			case "testmux":
				time.Sleep(time.Duration(rng.Intn(10)) * time.Millisecond)
			default:
				if rng.Intn(4) == 0 {
					time.Sleep(time.Duration(rng.Intn(200)) * time.Microsecond)
				}
			}
			out <- i
		}
	}()
	return in, out
}

func runMux(s scen) run {
	rec := &recorder{}
	mux := gripper.NewChannelMux()
	out := mux.GetOutChannel()
	rng := rand.New(rand.NewSource(s.Seed*31 + 5))
	ids := make([]int, s.W)
	for l := 0; l < s.W; l++ {
		ids[l] = -1
	}
	add := func(l int) {
		in, o := lanePipeline(s, l, s.Seed*101+int64(l))
		ids[l], _ = mux.AddPipeline(in, o)
	}
	if !s.Lazy {
		for l := 0; l < s.W; l++ {
			add(l)
		}
	}
	hang, dump := drive(s, rec,
		func(k int, abort <-chan struct{}) ([]int, bool) {
			l := rng.Intn(s.W)
			if ids[l] < 0 {
				add(l) // pipelines are added on first use, as gripper/graph.go does
			}
			done := make(chan struct{})
			go func() { mux.Put(ids[l], muxItem{K: k, Lane: l}); close(done) }()
			select {
			case <-done:
				return []int{k}, true
			case <-abort:
				return nil, false
			}
		},
		func() { mux.Close() },
		func(abort <-chan struct{}) ([]int, bool, bool) {
			select {
			case v, ok := <-out:
				if !ok {
					return nil, false, true
				}
				if it, isItem := v.(muxItem); isItem {
					return []int{it.K}, true, true
				}
				return []int{-1}, true, true
			case <-abort:
				return nil, false, false
			}
		})
	// every Put that returned owns an entry of messageOrder (250), or is held by runMux, or sits in outChannel (50)
	return run{rec: rec, cap: gripper.QueueSize*5 + 1 + gripper.QueueSize, maxchunk: 1, hang: hang, dump: dump}
}

// ------------------------------------------------------------------- batcher

func runBatcher(s scen) run {
	rec := &recorder{}
	in := make(chan gdbi.ElementLookup, s.CapIn)
	out := gdbi.LookupBatcher(in, s.W, time.Duration(s.TimeoutU)*time.Microsecond)
	hang, dump := drive(s, rec,
		func(k int, abort <-chan struct{}) ([]int, bool) {
			select {
			case in <- gdbi.ElementLookup{ID: strconv.Itoa(k)}:
				return []int{k}, true
			case <-abort:
				return nil, false
			}
		},
		func() { close(in) },
		func(abort <-chan struct{}) ([]int, bool, bool) {
			select {
			case b, ok := <-out:
				if !ok {
					return nil, false, true
				}
				ks := make([]int, len(b))
				for i, e := range b {
					k, err := strconv.Atoi(e.ID)
					if err != nil {
						k = -1
					}
					ks[i] = k
				}
				return ks, true, true
			case <-abort:
				return nil, false, false
			}
		})
	return run{rec: rec, cap: s.CapIn + 101*s.W, maxchunk: s.W, hang: hang, dump: dump}
}

// ---------------------------------------------------------------------- dual

// number of loader results of request k: 0..MaxRes, fixed by (seed, k)
func nres(s scen, k int) int {
	x := uint64(k)*0x9E3779B97F4A7C15 + uint64(s.Seed)*0xBF58476D1CE4E5B9
	x ^= x >> 29
	x *= 0x94D049BB133111EB
	x ^= x >> 32
	return int((x >> 7) % uint64(s.MaxRes+1))
}

func isSignalReq(s scen, k int) bool { return k%11 == 5 }

func runDual(s scen) run {
	rec := &recorder{}
	in := make(chan gdbi.ElementLookup, s.CapIn)
	loader := func(req gdbi.ElementLookup, load bool) chan interface{} {
		k, _ := strconv.Atoi(req.ID)
		m := nres(s, k)
		c := make(chan interface{}, 1)
		go func() {
			defer close(c)
			for x := 1; x <= m; x++ {
				if s.Pat == "big" && k%3 == 1 {
					time.Sleep(100 * time.Microsecond)
				}
				c <- x
			}
		}()
		return c
	}
	deser := func(req gdbi.ElementLookup, data interface{}) gdbi.ElementLookup {
		x, _ := data.(int)
		if s.Pat == "big" && x == 2 {
			time.Sleep(50 * time.Microsecond)
		}
		return gdbi.ElementLookup{ID: fmt.Sprintf("%s:%d", req.ID, x)}
	}
	out := gdbi.DualProcessor(context.Background(), in, true, loader, deser)
	hang, dump := drive(s, rec,
		func(k int, abort <-chan struct{}) ([]int, bool) {
			var r gdbi.ElementLookup
			var owes []int
			if isSignalReq(s, k) {
				r = gdbi.ElementLookup{Ref: &gdbi.BaseTraveler{Signal: &gdbi.Signal{ID: k, Dest: "m"}}}
				owes = []int{k * 100}
			} else {
				r = gdbi.ElementLookup{ID: strconv.Itoa(k)}
				owes = []int{}
				for x := 1; x <= nres(s, k); x++ {
					owes = append(owes, k*100+x)
				}
			}
			select {
			case in <- r:
				return owes, true
			case <-abort:
				return nil, false
			}
		},
		func() { close(in) },
		func(abort <-chan struct{}) ([]int, bool, bool) {
			select {
			case e, ok := <-out:
				if !ok {
					return nil, false, true
				}
				if e.Ref != nil && e.Ref.IsSignal() {
					return []int{e.Ref.GetSignal().ID * 100}, true, true
				}
				var k, x int
				if n, _ := fmt.Sscanf(e.ID, "%d:%d", &k, &x); n != 2 {
					return []int{-1}, true, true
				}
				return []int{k*100 + x}, true, true
			case <-abort:
				return nil, false, false
			}
		})
	// requests waiting (CapIn) and in hand (1) owe up to MaxRes items each; data 100 + 1 in hand; out 100
	return run{rec: rec, cap: (s.CapIn+1)*max(s.MaxRes, 1) + 100 + 1 + 100, maxchunk: 1, hang: hang, dump: dump}
}

func max(a, b int) int {
	if a > b {
		return a
	}
	return b
}

// --------------------------------------------------------------------- queue

func runQueue(s scen) run {
	rec := &recorder{}
	q := queue.New()
	in, out := q.GetInput(), q.GetOutput()
	hang, dump := drive(s, rec,
		func(k int, abort <-chan struct{}) ([]int, bool) {
			var t gdbi.Traveler = traveler(s, k)
			if k%13 == 6 {
				// the jump queue also carries signals
				t = &gdbi.BaseTraveler{Signal: &gdbi.Signal{ID: k, Dest: "m"}, Current: &gdbi.Vertex{ID: strconv.Itoa(k)}}
			}
			select {
			case in <- t:
				return []int{k}, true
			case <-abort:
				return nil, false
			}
		},
		func() { close(in) },
		func(abort <-chan struct{}) ([]int, bool, bool) {
			select {
			case t, ok := <-out:
				if !ok {
					return nil, false, true
				}
				return []int{travelerID(t)}, true, true
			case <-abort:
				return nil, false, false
			}
		})
	return run{rec: rec, cap: -1, maxchunk: 1, hang: hang, dump: dump} // the slice is unbounded
}
