// Package kvidx replays histories printed by spec/kvindex/KVIndex.tla on the real
// kvindex.KVIndex over a real Badger store (C09).
//
// One request = one behaviour: a sequence of AddField / RemoveField / AddDoc /
// RemoveDoc steps, with a flag per step saying whether the index is observed after
// it.  An observation calls EVERY public query method of KVIndex for every field,
// term and range of the universe given in the setup line.
//
// A request with "via":"batch" writes documents with AddDocTx on a write-only batch
// (kvi.BulkWrite), which is how kvgraph feeds the index; the default is KVIndex.AddDoc.
//
// Isolation.  Opening a Badger store costs about a second of CPU and deleted keys
// stay in Badger as versions that later scans step over, so a store per behaviour or
// emptying the store between behaviours is not affordable for 10^5 behaviours.
// Every behaviour therefore gets a new KVIndex object and its own namespace in a
// shared store: field path p becomes "n<i>.p" (the documents are nested one level
// deeper accordingly) and document id d becomes "d~n<i>"; the names are mapped
// back in the answers.  Behaviours whose request carries "fresh":true are run on a
// newly created, empty store: the check driver re-runs every divergent behaviour
// that way and only reports what reproduces there.
//
// The harness contains no expected values: it only executes and reports.  Because
// hundreds of thousands of observations repeat a few hundred distinct answers, an
// observation is reported as the hash of its canonical JSON body and every body is
// sent once per worker ("defs").
package kvidx

import (
	"context"
	"crypto/sha1"
	"encoding/hex"
	"encoding/json"
	"fmt"
	"math"
	"os"
	"runtime"
	"runtime/pprof"
	"sort"
	"strconv"
	"strings"
	"time"

	"verifharness/sup"

	"github.com/bmeg/grip/kvi"
	_ "github.com/bmeg/grip/kvi/badgerdb"
	"github.com/bmeg/grip/kvindex"
	"github.com/bmeg/grip/log"
)

func init() {
	log.ConfigureLogger(log.Logger{Level: "error", Formatter: "text"})
}

type handler struct {
	dir      string
	kv       kvi.KVInterface
	fields   []string        // universe of field paths
	terms    [][]interface{} // universe of probe terms, tagged ["s",txt] / ["n",k]
	ranges   [][2]int        // range queries lo, hi (spec integers)
	emb      string          // number embedding: "halves" or "extreme"
	qtimeout time.Duration
	seen     map[string]bool
	poisoned bool
	prof     bool
	gen      int
	used     int
	perStore int
	ns       string // namespace of the behaviour being replayed
	shape    int    // rotates the concrete shape of "no value under this path"
}

func (h *handler) path(f string) string  { return h.ns + "." + f }
func (h *handler) docID(d string) string { return d + "~" + h.ns }
func (h *handler) unDocID(d string) string {
	if strings.HasSuffix(d, "~"+h.ns) {
		return strings.TrimSuffix(d, "~"+h.ns)
	}
	return "foreign:" + d
}

// New returns the request handler of the kvidx harness.
func New() sup.Handler {
	n := 20000
	if v, err := strconv.Atoi(os.Getenv("KVIDX_PER_STORE")); err == nil && v > 0 {
		n = v
	}
	return &handler{seen: map[string]bool{}, qtimeout: 10 * time.Second, perStore: n}
}

func (h *handler) Setup(req map[string]interface{}) error {
	if p := os.Getenv("KVIDX_CPUPROFILE"); p != "" {
		if f, err := os.Create(p); err == nil {
			pprof.StartCPUProfile(f)
			h.prof = true
		}
	}
	for _, f := range asList(req["fields"]) {
		h.fields = append(h.fields, f.(string))
	}
	sort.Strings(h.fields)
	for _, t := range asList(req["terms"]) {
		h.terms = append(h.terms, asList(t))
	}
	for _, r := range asList(req["ranges"]) {
		p := asList(r)
		h.ranges = append(h.ranges, [2]int{int(p[0].(float64)), int(p[1].(float64))})
	}
	sort.Slice(h.ranges, func(i, j int) bool {
		return h.ranges[i][0] < h.ranges[j][0] || (h.ranges[i][0] == h.ranges[j][0] && h.ranges[i][1] < h.ranges[j][1])
	})
	h.emb, _ = req["emb"].(string)
	if h.emb == "" {
		h.emb = "halves"
	}
	if s, ok := req["qtimeout_s"].(float64); ok && s > 0 {
		h.qtimeout = time.Duration(s * float64(time.Second))
	}
	// Badger syncs every commit; a memory-backed directory keeps the replay fast.  The check driver
	// passes VERIF_SHM (a directory it removes afterwards); otherwise the scratch TMPDIR is used.
	dir, err := os.MkdirTemp(os.Getenv("VERIF_SHM"), "vkvidx_")
	if err != nil {
		return err
	}
	h.dir = dir
	return h.newStore()
}

// newStore opens a new, empty Badger store (and drops the previous one).  Deleted keys stay in
// Badger as versions that every later scan has to step over, so a store is only reused for a
// bounded number of behaviours.
func (h *handler) newStore() error {
	if h.kv != nil {
		h.kv.Close()
		h.kv = nil
		os.RemoveAll(fmt.Sprintf("%s/db%d", h.dir, h.gen))
	}
	h.gen++
	h.used = 0
	kv, err := kvi.NewKVInterface("badger", fmt.Sprintf("%s/db%d", h.dir, h.gen), nil)
	if err != nil {
		return err
	}
	h.kv = kv
	return nil
}

func (h *handler) Close() {
	if h.prof {
		pprof.StopCPUProfile()
	}
	if h.kv != nil {
		func() {
			defer func() { recover() }()
			h.kv.Close()
		}()
	}
	if h.dir != "" {
		os.RemoveAll(h.dir)
	}
}

func asList(x interface{}) []interface{} {
	l, _ := x.([]interface{})
	return l
}

// ---------------------------------------------------------------- numbers

// The spec keeps numbers as integers k; every query depends on them only through
// equality and order, so any strictly increasing map into float64 is a valid
// binding.  "halves" is k/2 (fractions, negatives, zero); "extreme" puts the same
// universe on the sign/magnitude boundaries of float64.
var extreme = map[int]float64{
	-5: -math.MaxFloat64, -4: -math.MaxFloat64 / 2, -3: -1e200, -2: -1e100, -1: -math.SmallestNonzeroFloat64,
	0: 0,
	1: math.SmallestNonzeroFloat64, 2: 1e100, 3: 1e200, 4: math.MaxFloat64 / 2, 5: math.MaxFloat64,
}

func (h *handler) num(k int) (float64, error) {
	if h.emb == "extreme" {
		v, ok := extreme[k]
		if !ok {
			return 0, fmt.Errorf("number %d outside the extreme embedding", k)
		}
		return v, nil
	}
	return float64(k) / 2, nil
}

// unnum maps a float returned by the index back to the spec integer; a float that
// is no image of the embedding is reported verbatim (and will not match anything).
func (h *handler) unnum(v float64) interface{} {
	if h.emb == "extreme" {
		for k, x := range extreme {
			if x == v {
				return k
			}
		}
		return fmt.Sprintf("raw:%v", v)
	}
	k := v * 2
	if k == math.Trunc(k) && math.Abs(k) < 1e9 {
		return int(k)
	}
	return fmt.Sprintf("raw:%v", v)
}

func (h *handler) termValue(t []interface{}) (interface{}, error) {
	if len(t) != 2 {
		return nil, fmt.Errorf("bad term %v", t)
	}
	switch t[0] {
	case "s":
		s, _ := t[1].(string)
		return s, nil
	case "n":
		k, _ := t[1].(float64)
		return h.num(int(k))
	}
	return nil, fmt.Errorf("bad term tag %v", t[0])
}

func (h *handler) tagTerm(x interface{}) interface{} {
	switch v := x.(type) {
	case string:
		return []interface{}{"s", v}
	case float64:
		return []interface{}{"n", h.unnum(v)}
	}
	return []interface{}{"?", fmt.Sprintf("%T:%v", x, x)}
}

func (h *handler) tagCount(c kvindex.KVTermCount) interface{} {
	// KVTermCount does not say which of String/Number is meant; the universe has no
	// empty string term, so an empty String means a number
	if c.String != "" {
		return []interface{}{[]interface{}{"s", c.String}, c.Count}
	}
	return []interface{}{[]interface{}{"n", h.unnum(c.Number)}, c.Count}
}

func canon(x interface{}) string {
	b, _ := json.Marshal(x)
	return string(b)
}

func sortCanon(l []interface{}) []interface{} {
	sort.SliceStable(l, func(i, j int) bool { return canon(l[i]) < canon(l[j]) })
	return l
}

// ---------------------------------------------------------------- documents

// buildDoc turns {path: term} into the nested map the index digs through
// ("g.h" -> {"g": {"h": value}}) and adds a value no registered path reaches.
func (h *handler) buildDoc(v map[string]interface{}) (map[string]interface{}, error) {
	doc := map[string]interface{}{"zz": "noise"}
	for path, t := range v {
		val, err := h.termValue(asList(t))
		if err != nil {
			return nil, err
		}
		parts := strings.Split(h.path(path), ".")
		cur := doc
		for _, p := range parts[:len(parts)-1] {
			nxt, ok := cur[p].(map[string]interface{})
			if !ok {
				nxt = map[string]interface{}{}
				cur[p] = nxt
			}
			cur = nxt
		}
		cur[parts[len(parts)-1]] = val
	}
	h.absentShapes(doc, v)
	return doc, nil
}

// absentShapes concretises "the document carries no value under path p" (KVIndex.tla: p is not in
// the domain of the document). In a real document that has several shapes: the step above the last
// one is missing, holds an empty map, holds a map with other keys, or holds a scalar - a text or a
// number of the term universe, so that an index that takes the scalar for the value of p collides
// with the terms the queries probe. The shape rotates with a counter; steps that a carried path
// occupies are left alone.
func (h *handler) absentShapes(doc map[string]interface{}, v map[string]interface{}) {
	var text, number interface{} = "a", float64(1)
	for _, t := range h.terms {
		if val, err := h.termValue(t); err == nil {
			if t[0] == "s" {
				text = val
			} else {
				number = val
			}
		}
	}
	paths := append([]string{}, h.fields...)
	sort.Strings(paths)
	for _, path := range paths {
		if _, carried := v[path]; carried {
			continue
		}
		parts := strings.Split(h.path(path), ".")
		cur, free := doc, true
		for _, p := range parts[:len(parts)-2] {
			nxt, isMap := cur[p].(map[string]interface{})
			if !isMap {
				if _, exists := cur[p]; exists {
					free = false
					break
				}
				nxt = map[string]interface{}{}
				cur[p] = nxt
			}
			cur = nxt
		}
		step := parts[len(parts)-2]
		if _, exists := cur[step]; exists || !free {
			continue
		}
		h.shape++
		switch h.shape % 5 {
		case 1:
			cur[step] = text
		case 2:
			cur[step] = number
		case 3:
			cur[step] = map[string]interface{}{}
		case 4:
			cur[step] = map[string]interface{}{"other": text}
		}
	}
}

// ---------------------------------------------------------------- queries with deadlines

type hangInfo struct {
	Method string `json:"method"`
	Stack  string `json:"stack"`
}

// within runs f and waits for it at most the query deadline.  A query that does not
// come back is reported with the stacks of the goroutines that sit in kvindex.
func (h *handler) within(method string, f func()) *hangInfo {
	done := make(chan struct{})
	var pan interface{}
	go func() {
		defer close(done)
		defer func() { pan = recover() }()
		f()
	}()
	timer := time.NewTimer(h.qtimeout)
	defer timer.Stop()
	select {
	case <-done:
		if pan != nil {
			panic(pan)
		}
		return nil
	case <-timer.C:
		buf := make([]byte, 1<<20)
		n := runtime.Stack(buf, true)
		keep := []string{}
		for _, g := range strings.Split(string(buf[:n]), "\n\n") {
			if strings.Contains(g, "bmeg/grip/kvindex.") {
				if len(g) > 1500 {
					g = g[:1500]
				}
				keep = append(keep, g)
			}
		}
		h.poisoned = true
		return &hangInfo{Method: method, Stack: strings.Join(keep, "\n\n")}
	}
}

// touch runs the queries that write to the store (the count queries store recomputed counters)
// in the same order as observe does and drops their results.  The driver asks for it where a
// full observation of the same history prefix is already made by another behaviour.
func (h *handler) touch(idx *kvindex.KVIndex, specField string) *hangInfo {
	field := h.path(specField)
	for _, q := range []func(string) chan kvindex.KVTermCount{idx.FieldStringTermCounts, idx.FieldTermCounts, idx.FieldTermCounts} {
		q := q
		if hi := h.within("FieldTermCounts", func() {
			for range q(field) {
			}
		}); hi != nil {
			return hi
		}
	}
	return nil
}

// observe calls every public query method for one field.
func (h *handler) observe(idx *kvindex.KVIndex, specField string) (body map[string]interface{}) {
	field := h.path(specField)
	body = map[string]interface{}{}
	var hang *hangInfo
	run := func(method string, f func()) bool {
		if hang != nil {
			return false
		}
		if hi := h.within(method, f); hi != nil {
			hang = hi
			body["hang"] = hi
			return false
		}
		return true
	}
	match := []interface{}{}
	match1 := []interface{}{}
	for _, t := range h.terms {
		val, err := h.termValue(t)
		if err != nil {
			body["harness_err"] = err.Error()
			return
		}
		full := 0
		for _, max := range []int{0, 1} {
			if max == 1 && full < 2 {
				// maxCount only matters where the full answer has at least two ids
				break
			}
			ids := []string{}
			ok := run("GetTermMatch", func() {
				for d := range idx.GetTermMatch(context.Background(), field, val, max) {
					ids = append(ids, h.unDocID(d))
				}
			})
			if !ok {
				return
			}
			sort.Strings(ids)
			if max == 0 {
				full = len(ids)
				match = append(match, []interface{}{t, ids})
			} else {
				match1 = append(match1, []interface{}{t, ids})
			}
		}
	}
	body["match"] = match
	body["match1"] = match1

	terms := func(key string) bool {
		l := []interface{}{}
		ok := run("FieldTerms", func() {
			for t := range idx.FieldTerms(field) {
				l = append(l, h.tagTerm(t))
			}
		})
		body[key] = sortCanon(l)
		return ok
	}
	if !terms("terms") {
		return
	}
	nums := []interface{}{}
	if !run("FieldNumbers", func() {
		for v := range idx.FieldNumbers(field) {
			nums = append(nums, h.unnum(v))
		}
	}) {
		return
	}
	body["numbers"] = nums
	if !run("FieldTermNumberMin", func() { body["min"] = h.unnum(idx.FieldTermNumberMin(field)) }) {
		return
	}
	if !run("FieldTermNumberMax", func() { body["max"] = h.unnum(idx.FieldTermNumberMax(field)) }) {
		return
	}
	ranges := []interface{}{}
	for _, r := range h.ranges {
		lo, hi := r[0], r[1]
		flo, err1 := h.num(lo)
		fhi, err2 := h.num(hi)
		if err1 != nil || err2 != nil {
			body["harness_err"] = fmt.Sprint(err1, err2)
			return
		}
		got := []interface{}{}
		if !run("FieldTermNumberRange", func() {
			for c := range idx.FieldTermNumberRange(field, flo, fhi) {
				got = append(got, []interface{}{h.unnum(c.Number), c.Count})
			}
		}) {
			return
		}
		ranges = append(ranges, []interface{}{lo, hi, sortCanon(got)})
	}
	body["ranges"] = ranges
	counts := func(key, method string, q func(string) chan kvindex.KVTermCount) bool {
		l := []interface{}{}
		ok := run(method, func() {
			for c := range q(field) {
				l = append(l, h.tagCount(c))
			}
		})
		body[key] = sortCanon(l)
		return ok
	}
	// the count queries write recomputed counters back: ask twice (computed, then cached)
	// and list the terms again afterwards
	if !counts("scounts", "FieldStringTermCounts", idx.FieldStringTermCounts) {
		return
	}
	if !counts("counts", "FieldTermCounts", idx.FieldTermCounts) {
		return
	}
	if !counts("counts2", "FieldTermCounts", idx.FieldTermCounts) {
		return
	}
	terms("terms2")
	return
}

// ---------------------------------------------------------------- behaviours

func catch(f func() error) (err error, pan string) {
	defer func() {
		if r := recover(); r != nil {
			buf := make([]byte, 4096)
			n := runtime.Stack(buf, false)
			pan = fmt.Sprintf("%v\n%s", r, buf[:n])
		}
	}()
	return f(), ""
}

func (h *handler) Handle(req map[string]interface{}) interface{} {
	resp := map[string]interface{}{"i": req["i"]}
	if h.poisoned {
		// a query of an earlier behaviour never came back and still holds a store
		// transaction: leave, the supervisor starts a fresh worker for this request
		os.Exit(7)
	}
	h.used++
	fresh, _ := req["fresh"].(bool)
	if h.used > h.perStore || (fresh && h.used > 1) {
		if err := h.newStore(); err != nil {
			resp["harness_err"] = "new store: " + err.Error()
			return resp
		}
		h.used = 1
	}
	if fi, ok := req["i"].(float64); ok {
		h.ns = fmt.Sprintf("n%07d", int(fi))
	} else {
		h.ns = "nx"
	}
	idx := kvindex.NewIndex(h.kv)
	steps := asList(req["steps"])
	via, _ := req["via"].(string)
	obsFlags := asList(req["obs"])
	registered := map[string]bool{}
	out := make([]interface{}, len(steps))
	errs := []interface{}{}
	defs := map[string]interface{}{}
	for k, s := range steps {
		st, _ := s.(map[string]interface{})
		op, _ := st["op"].(string)
		err, pan := catch(func() error {
			switch op {
			case "AddField":
				f := st["f"].(string)
				registered[f] = true
				return idx.AddField(h.path(f))
			case "RemoveField":
				f := st["f"].(string)
				delete(registered, f)
				return idx.RemoveField(h.path(f))
			case "AddDoc":
				v, _ := st["v"].(map[string]interface{})
				doc, derr := h.buildDoc(v)
				if derr != nil {
					resp["harness_err"] = derr.Error()
					return nil
				}
				if via == "batch" {
					// the way kvgraph writes index documents: AddDocTx on a write-only batch
					return h.kv.BulkWrite(func(tx kvi.KVBulkWrite) error {
						return idx.AddDocTx(tx, h.docID(st["d"].(string)), doc)
					})
				}
				return idx.AddDoc(h.docID(st["d"].(string)), doc)
			case "RemoveDoc":
				return idx.RemoveDoc(h.docID(st["d"].(string)))
			}
			resp["harness_err"] = "unknown op " + op
			return nil
		})
		if pan != "" {
			resp["panic"] = map[string]interface{}{"k": k, "op": op, "panic": pan}
			break
		}
		if err != nil {
			errs = append(errs, map[string]interface{}{"k": k, "op": op, "err": err.Error()})
		}
		mode := 1.0 // 0: no query, 1: every query, 2: only the queries that write (results dropped)
		if k < len(obsFlags) {
			switch v := obsFlags[k].(type) {
			case bool:
				if !v {
					mode = 0
				}
			case float64:
				mode = v
			}
		}
		if mode == 0 {
			continue
		}
		if mode == 2 {
			var hung *hangInfo
			_, tpan := catch(func() error {
				for _, f := range h.fields {
					if registered[f] && hung == nil {
						hung = h.touch(idx, f)
					}
				}
				return nil
			})
			if tpan != "" {
				resp["panic"] = map[string]interface{}{"k": k, "op": "observe", "panic": tpan}
				break
			}
			if hung != nil {
				resp["touch_hang"] = map[string]interface{}{"k": k, "hang": hung}
				break
			}
			continue
		}
		body := map[string]interface{}{}
		var opan string
		for _, f := range h.fields {
			_, opan = catch(func() error {
				b := h.observe(idx, f)
				if registered[f] {
					body[f] = b
				} else if hg, ok := b["hang"]; ok {
					// queries on an unregistered field are only probed for termination
					body[f] = map[string]interface{}{"hang": hg, "unregistered": true}
				}
				return nil
			})
			if opan != "" || h.poisoned {
				break
			}
		}
		if opan != "" {
			resp["panic"] = map[string]interface{}{"k": k, "op": "observe", "panic": opan}
			break
		}
		c := canon(body)
		sum := sha1.Sum([]byte(c))
		id := hex.EncodeToString(sum[:8])
		if !h.seen[id] {
			h.seen[id] = true
			defs[id] = body
		}
		out[k] = id
		if h.poisoned {
			break
		}
	}
	resp["o"] = out
	if len(errs) > 0 {
		resp["errs"] = errs
	}
	if len(defs) > 0 {
		resp["defs"] = defs
	}
	return resp
}
