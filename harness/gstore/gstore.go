// Package gstore opens real embedded stores in scratch directories and loads
// the small graphs printed by the specifications.
package gstore

import (
	"fmt"
	"os"

	"verifharness/val"

	"github.com/bmeg/grip/gdbi"
	"github.com/bmeg/grip/kvgraph"
	"github.com/bmeg/grip/kvi"
	_ "github.com/bmeg/grip/kvi/badgerdb"
	_ "github.com/bmeg/grip/kvi/boltdb"
	_ "github.com/bmeg/grip/kvi/leveldb"
	_ "github.com/bmeg/grip/kvi/pebbledb"
	"github.com/bmeg/grip/log"
)

func init() {
	// keep the drivers quiet
	log.ConfigureLogger(log.Logger{Level: "error", Formatter: "text"})
}

// Store is an open key-value store with a kvgraph on top.
type Store struct {
	Driver string
	Dir    string
	Path   string
	KV     kvi.KVInterface
	DB     gdbi.GraphDB
}

// Open creates a fresh store of the given driver in a new scratch directory.
func Open(driver string) (*Store, error) {
	dir, err := os.MkdirTemp("", "vstore_"+driver+"_")
	if err != nil {
		return nil, err
	}
	s := &Store{Driver: driver, Dir: dir, Path: dir + "/db"}
	if err := s.Reopen(); err != nil {
		os.RemoveAll(dir)
		return nil, err
	}
	return s, nil
}

// Reopen opens the store path (used after Close to model a restart).
func (s *Store) Reopen() error {
	kv, err := kvi.NewKVInterface(s.Driver, s.Path, nil)
	if err != nil {
		return fmt.Errorf("open %s: %v", s.Driver, err)
	}
	s.KV = kv
	s.DB = kvgraph.NewKVGraph(kv)
	return nil
}

// CloseKV closes the underlying store but keeps the directory.
func (s *Store) CloseKV() error { return s.KV.Close() }

// Destroy closes the store and removes its directory.
func (s *Store) Destroy() {
	func() {
		defer func() { recover() }()
		s.KV.Close()
	}()
	os.RemoveAll(s.Dir)
}

// Elem decodes a spec element record into a gdbi element.
func Elem(id string, rec map[string]interface{}) *gdbi.DataElement {
	e := &gdbi.DataElement{ID: id, Loaded: true}
	e.Label, _ = rec["label"].(string)
	e.From, _ = rec["from"].(string)
	e.To, _ = rec["to"].(string)
	e.Data = map[string]interface{}{}
	if d, ok := rec["data"].([]interface{}); ok && len(d) == 2 {
		e.Data = val.DecodeMap(d[1])
	}
	return e
}

// LoadGraph creates graph `name` and adds the elements of the spec graph
// {"V":{id:{label,data}},"E":{id:{label,from,to,data}}} one call per element.
func LoadGraph(db gdbi.GraphDB, name string, g map[string]interface{}) (gdbi.GraphInterface, error) {
	if err := db.AddGraph(name); err != nil {
		return nil, err
	}
	gi, err := db.Graph(name)
	if err != nil {
		return nil, err
	}
	for _, id := range val.Keys(g["V"]) {
		rec := g["V"].(map[string]interface{})[id].(map[string]interface{})
		if err := gi.AddVertex([]*gdbi.Vertex{Elem(id, rec)}); err != nil {
			return nil, fmt.Errorf("AddVertex %s: %v", id, err)
		}
	}
	for _, id := range val.Keys(g["E"]) {
		rec := g["E"].(map[string]interface{})[id].(map[string]interface{})
		if err := gi.AddEdge([]*gdbi.Edge{Elem(id, rec)}); err != nil {
			return nil, fmt.Errorf("AddEdge %s: %v", id, err)
		}
	}
	return gi, nil
}
