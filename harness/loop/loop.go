// Package loop runs real mark/jump traversals shaped like the configurations of
// JumpLoop.tla, records the protocol events through the verif taps of
// engine/logic (per-goroutine order only) and returns the result rows.
//
// Graph for a configuration (N, D, Fan, NF, FT): start vertices s<i> (kind "S"
// for the N travelers entering the mark through its main input, kind "F<k>"
// for the FT travelers of forward jump k), and for every child id = i*10+n
// (n < Fan) a chain v<id>_1 -> ... -> v<id>_D whose vertices carry c (the pass
// counter) and j1 (the first jump of a two-jump loop sends it back).  The
// traveler the model calls <<"t", id, c>> is the one whose current vertex is
// v<id>_c (or s<id> for c = 0).
package loop

import (
	"context"
	"fmt"
	"os"
	"regexp"
	"runtime"
	"strconv"
	"sync"
	"time"

	"verifharness/gstore"
	"verifharness/qry"
	"verifharness/sup"

	"github.com/bmeg/grip/engine/logic"
	"github.com/bmeg/grip/engine/pipeline"
	"github.com/bmeg/grip/gdbi"
	"github.com/bmeg/grip/gripql"
	"google.golang.org/protobuf/encoding/protojson"
)

type handler struct {
	st    *gstore.Store
	work  string
	built map[string]bool
}

func New() sup.Handler { return &handler{built: map[string]bool{}} }

func (h *handler) Setup(req map[string]interface{}) error { return nil }
func (h *handler) Close() {
	if h.st != nil {
		h.st.Destroy()
	}
	if h.work != "" {
		os.RemoveAll(h.work)
	}
}

func num(req map[string]interface{}, k string) int {
	f, _ := req[k].(float64)
	return int(f)
}

func (h *handler) graph(n, d, fan, nf, ft int) (gdbi.GraphInterface, string, error) {
	name := fmt.Sprintf("L%dx%dx%dx%dx%d", n, d, fan, nf, ft)
	if h.st == nil {
		st, err := gstore.Open("badger")
		if err != nil {
			return nil, "", err
		}
		h.st = st
		h.work, _ = os.MkdirTemp("", "vwork_")
	}
	if h.built[name] {
		g, err := h.st.DB.Graph(name)
		return g, name, err
	}
	if err := h.st.DB.AddGraph(name); err != nil {
		return nil, "", err
	}
	g, _ := h.st.DB.Graph(name)
	starts := map[int]string{}
	for i := 1; i <= n; i++ {
		starts[i] = "S"
	}
	for k := 1; k <= nf; k++ {
		for x := 1; x <= ft; x++ {
			starts[100*k+x] = fmt.Sprintf("F%d", k)
		}
	}
	vs := []*gdbi.Vertex{}
	es := []*gdbi.Edge{}
	for i, kind := range starts {
		sid := fmt.Sprintf("s%d", i)
		vs = append(vs, &gdbi.Vertex{ID: sid, Label: "Start", Data: map[string]interface{}{"kind": kind, "c": 0.0}, Loaded: true})
		for x := 0; x < fan; x++ {
			id := i*10 + x
			prev := sid
			for c := 1; c <= d; c++ {
				vid := fmt.Sprintf("v%d_%d", id, c)
				vs = append(vs, &gdbi.Vertex{ID: vid, Label: "Node", Data: map[string]interface{}{
					"kind": "N", "c": float64(c), "j1": (i%2 == 1 && c == 1)}, Loaded: true})
				es = append(es, &gdbi.Edge{ID: "e" + vid, Label: "next", From: prev, To: vid, Data: map[string]interface{}{}, Loaded: true})
				prev = vid
			}
		}
	}
	if err := g.AddVertex(vs); err != nil {
		return nil, "", err
	}
	if err := g.AddEdge(es); err != nil {
		return nil, "", err
	}
	h.built[name] = true
	return g, name, nil
}

func cond(key string, op string, v interface{}) map[string]interface{} {
	return map[string]interface{}{"condition": map[string]interface{}{"key": key, "value": v, "condition": op}}
}

// Program builds the GripQL loop for a configuration.
func Program(graph string, d, nj, nf int) map[string]interface{} {
	q := []interface{}{map[string]interface{}{"v": []interface{}{}}, map[string]interface{}{"hasLabel": []interface{}{"Start"}}}
	for k := 1; k <= nf; k++ {
		q = append(q, map[string]interface{}{"jump": map[string]interface{}{"mark": "m", "emit": true,
			"expression": cond("kind", "EQ", fmt.Sprintf("F%d", k))}})
	}
	if nf > 0 {
		q = append(q, map[string]interface{}{"has": cond("kind", "EQ", "S")})
	}
	q = append(q, map[string]interface{}{"mark": "m"}, map[string]interface{}{"out": []interface{}{}})
	if nj == 2 {
		q = append(q, map[string]interface{}{"jump": map[string]interface{}{"mark": "m", "emit": true, "expression": cond("j1", "EQ", true)}})
	}
	q = append(q, map[string]interface{}{"jump": map[string]interface{}{"mark": "m", "emit": true, "expression": cond("c", "LT", float64(d))}})
	return map[string]interface{}{"graph": graph, "query": q}
}

var gidRe = regexp.MustCompile(`^(?:s(\d+)|v(\d+)_(\d+))$`)

// tc maps a vertex id to the model's (id, c)
func tc(gid string) (int, int, bool) {
	m := gidRe.FindStringSubmatch(gid)
	if m == nil {
		return 0, 0, false
	}
	if m[1] != "" {
		i, _ := strconv.Atoi(m[1])
		return i, 0, true
	}
	i, _ := strconv.Atoi(m[2])
	c, _ := strconv.Atoi(m[3])
	return i, c, true
}

type recorder struct {
	mu     sync.Mutex
	names  map[interface{}]string
	events map[string][]map[string]interface{}
	jitter int
	rnd    uint64
}

func (r *recorder) tap(proc interface{}, ev string, args ...interface{}) {
	r.mu.Lock()
	name := r.names[proc]
	if name == "" {
		name = fmt.Sprintf("unknown_%p", proc)
	}
	e := map[string]interface{}{"ev": ev}
	for n, a := range args {
		switch x := a.(type) {
		case gdbi.Traveler:
			if x.IsSignal() {
				e["sig"] = x.GetSignal().ID
			} else {
				id, c, ok := tc(x.GetCurrentID())
				if !ok {
					e["gid"] = x.GetCurrentID()
				}
				e["id"], e["c"] = id, c
			}
		case int:
			e[fmt.Sprintf("a%d", n)] = x
		case []int:
			e[fmt.Sprintf("a%d", n)] = x
		}
	}
	r.events[name] = append(r.events[name], e)
	j := r.jitter
	r.rnd = r.rnd*6364136223846793005 + 1442695040888963407
	x := r.rnd >> 33
	r.mu.Unlock()
	// schedule jitter: widen the set of interleavings sampled
	if j > 0 {
		switch x % uint64(j+2) {
		case 0:
			runtime.Gosched()
		case 1:
			time.Sleep(time.Duration(x%50) * time.Microsecond)
		}
	}
}

func (h *handler) Handle(req map[string]interface{}) interface{} {
	resp := map[string]interface{}{"i": req["i"]}
	n, d, fan, nj, nf, ft := num(req, "N"), num(req, "D"), num(req, "Fan"), num(req, "NJ"), num(req, "NF"), num(req, "FT")
	g, name, err := h.graph(n, d, fan, nf, ft)
	if err != nil {
		resp["harness_err"] = err.Error()
		return resp
	}
	if p := num(req, "procs"); p > 0 {
		runtime.GOMAXPROCS(p)
	}
	prog := Program(name, d, nj, nf)
	b, _ := jsonMarshal(prog)
	q := &gripql.GraphQuery{}
	if err := protojson.Unmarshal(b, q); err != nil {
		resp["wire_err"] = err.Error()
		return resp
	}
	pipe, err := g.Compiler().Compile(q.Query, nil)
	if err != nil {
		resp["err"] = err.Error()
		return resp
	}
	rec := &recorder{names: map[interface{}]string{}, events: map[string][]map[string]interface{}{}, jitter: num(req, "jitter"), rnd: uint64(num(req, "seed")) + 1}
	nfSeen, njSeen := 0, 0
	markSeen := false
	for _, p := range pipe.Processors() {
		switch x := p.(type) {
		case *logic.JumpMark:
			rec.names[x] = "mark"
			markSeen = true
		case *logic.Jump:
			if !markSeen {
				nfSeen++
				rec.names[x] = fmt.Sprintf("fjump%d", nfSeen)
			} else {
				njSeen++
				rec.names[x] = fmt.Sprintf("jump%d", njSeen)
			}
		}
	}
	if nt, _ := req["notrace"].(bool); !nt {
		logic.VerifTap = rec.tap
		defer func() { logic.VerifTap = nil }()
	}
	ctx, cancel := context.WithCancel(context.Background())
	defer cancel()
	rows := []interface{}{}
	for r := range pipeline.Run(ctx, pipe, h.work) {
		row := qry.Row(r)
		gid, _ := row["gid"].(string)
		id, c, ok := tc(gid)
		if ok {
			rows = append(rows, []int{id, c})
		} else {
			rows = append(rows, row)
		}
	}
	rec.mu.Lock()
	resp["rows"] = rows
	resp["trace"] = rec.events
	rec.mu.Unlock()
	return resp
}
