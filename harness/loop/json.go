package loop

import "encoding/json"

func jsonMarshal(v interface{}) ([]byte, error) { return json.Marshal(v) }
