// Package reopen binds spec/reopen (C04): it replays TLC's behaviours with
// restarts and crash points on a real kvgraph over a real embedded store.
//
//   - FaultKV wraps the real kvi.KVInterface handed to kvgraph.NewKVGraph. While
//     armed it counts the top-level mutating calls (Set, Delete, DeletePrefix,
//     BulkWrite, Update; each is forwarded atomically to the real store) and, at
//     the scheduled index, aborts the request by panicking with a sentinel
//     BEFORE forwarding the write: nothing after the crash point executes.
//   - "reopen after a crash" = a new kvgraph.NewKVGraph over a new FaultKV on
//     the same underlying store: all in-memory state (timestamps, the kvindex
//     Fields registry) is dropped.
//   - a clean restart is the same, and in "full" mode additionally Close()s the
//     real store and re-opens its directory.
//
// Everything is observed through store.Observe (public gdbi API only).
package reopen

import (
	"fmt"
	"strings"

	"verifharness/gstore"
	"verifharness/store"
	"verifharness/sup"

	"github.com/bmeg/grip/gdbi"
	"github.com/bmeg/grip/kvgraph"
	"github.com/bmeg/grip/kvi"
)

// crashPoint is the panic value that models the death of the process.
type crashPoint struct{ k int }

const crashMark = "verif-crash-point"

func (c crashPoint) String() string { return fmt.Sprintf("%s k=%d", crashMark, c.k) }
func (c crashPoint) Error() string  { return c.String() }

// FaultKV counts and interrupts top-level writes.
type FaultKV struct {
	kvi.KVInterface
	armed   bool
	dead    bool
	count   int
	crashAt int
	kinds   []string
}

func NewFaultKV(kv kvi.KVInterface) *FaultKV { return &FaultKV{KVInterface: kv} }

// Arm starts counting; crashAt = 0 counts only.
func (f *FaultKV) Arm(crashAt int) {
	f.armed, f.count, f.crashAt, f.kinds = true, 0, crashAt, nil
}

func (f *FaultKV) Disarm() { f.armed = false }

func (f *FaultKV) hit(kind string) {
	if f.dead {
		// the process is gone: nothing may reach the store any more
		panic(crashPoint{f.count})
	}
	if !f.armed {
		return
	}
	f.count++
	if f.crashAt > 0 && f.count == f.crashAt {
		f.dead = true
		panic(crashPoint{f.count})
	}
	f.kinds = append(f.kinds, kind)
}

func (f *FaultKV) Set(k, v []byte) error {
	f.hit("Set")
	return f.KVInterface.Set(k, v)
}
func (f *FaultKV) Delete(k []byte) error {
	f.hit("Delete")
	return f.KVInterface.Delete(k)
}
func (f *FaultKV) DeletePrefix(p []byte) error {
	f.hit("DeletePrefix")
	return f.KVInterface.DeletePrefix(p)
}
func (f *FaultKV) BulkWrite(u func(bl kvi.KVBulkWrite) error) error {
	f.hit("BulkWrite")
	return f.KVInterface.BulkWrite(u)
}
func (f *FaultKV) Update(u func(tx kvi.KVTransaction) error) error {
	f.hit("Update")
	return f.KVInterface.Update(u)
}

// Close of the wrapper never closes the shared store.
func (f *FaultKV) Close() error { return nil }

type Handler struct {
	Driver string
	St     *gstore.Store
	n      int
	Every  int
}

func New() sup.Handler { return &Handler{Driver: "badger", Every: 150} }

func (h *Handler) Setup(req map[string]interface{}) error {
	if d, ok := req["driver"].(string); ok && d != "" {
		h.Driver = d
	}
	return nil
}

func (h *Handler) Close() {
	if h.St != nil {
		h.St.Destroy()
	}
}

func (h *Handler) fresh() error {
	if h.St != nil && h.n%h.Every != 0 {
		return nil
	}
	if h.St != nil {
		h.St.Destroy()
		h.St = nil
	}
	st, err := gstore.Open(h.Driver)
	if err != nil {
		return err
	}
	h.St = st
	return nil
}

// open builds the graph under test over a new fault wrapper (drops all
// in-memory state of any previous instance).
func (h *Handler) open() (*FaultKV, gdbi.GraphDB) {
	f := NewFaultKV(h.St.KV)
	return f, kvgraph.NewKVGraph(f)
}

// fullReopen closes the real store and opens its directory again.
func (h *Handler) fullReopen() error {
	if err := h.St.CloseKV(); err != nil {
		return fmt.Errorf("close: %v", err)
	}
	return h.St.Reopen()
}

func (h *Handler) cleanup(prefixes []string) {
	_, db := h.open()
	for _, p := range prefixes {
		for _, g := range store.GraphNames {
			func() {
				defer func() { recover() }()
				db.DeleteGraph(store.Name(p, g))
			}()
		}
	}
}

func tsDiff(before, after map[string]interface{}) map[string]interface{} {
	ts := map[string]interface{}{}
	for _, g := range store.GraphNames {
		b, ok1 := before[g].(map[string]interface{})
		a, ok2 := after[g].(map[string]interface{})
		if ok1 && ok2 {
			ts[g] = b["ts"] != a["ts"]
		}
	}
	return ts
}

func callOf(x interface{}) map[string]interface{} {
	m, _ := x.(map[string]interface{})
	c, _ := m["call"].(map[string]interface{})
	return c
}

// restart replays a history that contains Restart pseudo-calls, observing the
// whole store after every step.
func (h *Handler) restart(prefix string, hist []interface{}, full bool) (steps []interface{}, herr string) {
	_, db := h.open()
	before := store.Observe(db, prefix)
	for _, hs := range hist {
		call := callOf(hs)
		var res, msg string
		if op, _ := call["op"].(string); op == "Restart" {
			if full {
				if err := h.fullReopen(); err != nil {
					return steps, "full reopen: " + err.Error()
				}
			}
			_, db = h.open()
			res = "ok"
		} else {
			res, msg = store.Apply(db, prefix, call)
		}
		after := store.Observe(db, prefix)
		steps = append(steps, map[string]interface{}{"res": res, "msg": msg, "obs": after, "tsChanged": tsDiff(before, after)})
		before = after
	}
	return steps, ""
}

// prefixRun replays the calls before the interrupted one (no restarts inside).
func prefixRun(db gdbi.GraphDB, prefix string, hist []interface{}) []string {
	out := []string{}
	for _, hs := range hist {
		res, _ := store.Apply(db, prefix, callOf(hs))
		out = append(out, res)
	}
	return out
}

// crash explores every crash point of `call` after `hist`:
// a dry run counts the top-level writes the call really issues (n); then for
// k = 1..n the history is replayed under a fresh graph-name prefix, the call is
// interrupted before its k-th write, the graph is reopened and observed.
func (h *Handler) crash(base string, hist []interface{}, call map[string]interface{}, cont map[string]interface{}) map[string]interface{} {
	resp := map[string]interface{}{}
	prefixes := []string{base + "k0x"}
	defer func() { h.cleanup(prefixes) }()

	f, db := h.open()
	resp["prefix_res"] = prefixRun(db, prefixes[0], hist)
	resp["before"] = store.Observe(db, prefixes[0])
	f.Arm(0)
	res, msg := store.Apply(db, prefixes[0], call)
	f.Disarm()
	n := f.count
	resp["n"], resp["kinds"], resp["res"], resp["msg"] = n, append([]string{}, f.kinds...), res, msg
	// the completed call followed by a reopen (= crash after the last write)
	_, db2 := h.open()
	resp["done"] = store.Observe(db2, prefixes[0])

	crashes := []interface{}{}
	for k := 1; k <= n; k++ {
		p := fmt.Sprintf("%sk%dx", base, k)
		prefixes = append(prefixes, p)
		fk, dbk := h.open()
		pres := prefixRun(dbk, p, hist)
		fk.Arm(k)
		r, m := store.Apply(dbk, p, call)
		fk.Disarm()
		rec := map[string]interface{}{"k": k, "prefix_res": pres}
		if r == "panic" && strings.Contains(m, crashMark) {
			_, dbr := h.open()
			rec["obs"] = store.Observe(dbr, p)
			if cont != nil {
				cr, cm := store.Apply(dbr, p, cont)
				rec["cont_res"], rec["cont_msg"] = cr, cm
				rec["cont_obs"] = store.Observe(dbr, p)
			}
		} else {
			// the run issued fewer writes than the dry run, or failed otherwise
			rec["no_crash"] = r
			rec["msg"] = m
			rec["count"] = fk.count
		}
		crashes = append(crashes, rec)
	}
	resp["crashes"] = crashes
	return resp
}

func (h *Handler) Handle(req map[string]interface{}) interface{} {
	resp := map[string]interface{}{"i": req["i"]}
	if err := h.fresh(); err != nil {
		resp["harness_err"] = err.Error()
		return resp
	}
	h.n++
	base := fmt.Sprintf("h%v", req["i"])
	hist, _ := req["hist"].([]interface{})
	kind, _ := req["kind"].(string)
	switch kind {
	case "restart":
		full, _ := req["full"].(bool)
		prefix := base + "x"
		steps, herr := h.restart(prefix, hist, full)
		resp["steps"] = steps
		if herr != "" {
			resp["harness_err"] = herr
			// the store may be closed: start over with a new one
			h.n = 0
			return resp
		}
		h.cleanup([]string{prefix})
	case "crash":
		call, _ := req["call"].(map[string]interface{})
		cont, _ := req["cont"].(map[string]interface{})
		for k, v := range h.crash(base, hist, call, cont) {
			resp[k] = v
		}
	default:
		resp["harness_err"] = "unknown kind " + kind
	}
	return resp
}
