package sqlrec

import (
	"context"
	"fmt"
	"io"
	"net/url"
	"time"

	"verifharness/sup"

	esql "github.com/bmeg/grip/existing-sql"
	"github.com/bmeg/grip/gdbi"
	"github.com/bmeg/grip/log"
	"github.com/bmeg/grip/psql"
)

// A site is one call of one driver entry point with the client string in one
// argument position.  Name is "<driver>.<Method>[#variant]", Param names the
// argument the client string went to (a "#..." suffix distinguishes variants of
// one argument position and is not part of the call-site signature).
type site struct {
	Name  string
	Param string
	Call  func(h *handler, s string)
}

type handler struct {
	pdb gdbi.GraphDB
	pg  gdbi.GraphInterface
	edb gdbi.GraphDB
	eg  gdbi.GraphInterface
}

func New() sup.Handler { return &handler{} }

const (
	graphName = "g"
	okID      = "v1"
)

func (h *handler) Setup(req map[string]interface{}) error {
	log.GetLogger().SetOutput(io.Discard)
	var err error
	h.pdb, err = psql.NewGraphDB(psql.Config{Host: "verif", Port: 1, User: "verif"})
	if err != nil {
		return fmt.Errorf("psql.NewGraphDB: %v", err)
	}
	h.pg, err = h.pdb.Graph(graphName)
	if err != nil {
		return fmt.Errorf("psql Graph: %v", err)
	}
	schema := &esql.Schema{
		Graph: graphName,
		Vertices: []*esql.Vertex{
			{Table: "users", GidField: "id", Label: "User"},
			{Table: "posts", GidField: "id", Label: "Post"},
		},
		Edges: []*esql.Edge{
			// generated edge (no table)
			{Table: "", Label: "wrote",
				From: &esql.ForeignKey{DestTable: "users", DestField: "id"},
				To:   &esql.ForeignKey{DestTable: "posts", DestField: "author"}},
			// table-backed edge
			{Table: "likes", GidField: "id", Label: "likes",
				From: &esql.ForeignKey{SourceField: "user_id", DestTable: "users", DestField: "id"},
				To:   &esql.ForeignKey{SourceField: "post_id", DestTable: "posts", DestField: "id"}},
		},
	}
	h.edb, err = esql.NewGraphDB(esql.Config{Driver: DriverName, DataSourceName: "verif", Graphs: []*esql.Schema{schema}})
	if err != nil {
		return fmt.Errorf("esql.NewGraphDB: %v", err)
	}
	h.eg, err = h.edb.Graph(graphName)
	if err != nil {
		return fmt.Errorf("esql Graph: %v", err)
	}
	rec.take()
	return nil
}

func (h *handler) Close() {}

// ---------------------------------------------------------------- call helpers

func lookups(ids ...string) chan gdbi.ElementLookup {
	ch := make(chan gdbi.ElementLookup, len(ids))
	for _, id := range ids {
		ch <- gdbi.ElementLookup{ID: id}
	}
	close(ch)
	return ch
}

func drainLookups(ch chan gdbi.ElementLookup) {
	for range ch {
	}
}

type adjFn func(ctx context.Context, req chan gdbi.ElementLookup, load bool, emitNull bool, labels []string) chan gdbi.ElementLookup

func adj(g gdbi.GraphInterface, which string) adjFn {
	switch which {
	case "GetOutChannel":
		return g.GetOutChannel
	case "GetInChannel":
		return g.GetInChannel
	case "GetOutEdgeChannel":
		return g.GetOutEdgeChannel
	}
	return g.GetInEdgeChannel
}

var adjNames = []string{"GetOutChannel", "GetInChannel", "GetOutEdgeChannel", "GetInEdgeChannel"}

func loadTag(load bool) string {
	if load {
		return "#load"
	}
	return "#noload"
}

// graphSites: the entry points of gdbi.GraphInterface shared by the two drivers.
// mkID builds the vertex/edge id sent to the driver from the client string (the
// existing-sql driver expects "<table>:<key>"); okVertex is a harmless id.
func graphSites(drv string, g func(h *handler) gdbi.GraphInterface, idParams map[string]func(s string) string,
	edgeIDParams map[string]func(s string) string, okVertex string) []site {
	out := []site{}
	bg := context.Background()
	for _, load := range []bool{false, true} {
		load := load
		for p, mk := range idParams {
			mk := mk
			out = append(out,
				site{drv + ".GetVertex" + loadTag(load), p, func(h *handler, s string) { g(h).GetVertex(mk(s), load) }},
				site{drv + ".GetVertexChannel" + loadTag(load), p, func(h *handler, s string) {
					drainLookups(g(h).GetVertexChannel(bg, lookups(mk(s)), load))
				}},
			)
			for _, a := range adjNames {
				a := a
				out = append(out, site{drv + "." + a + loadTag(load), p, func(h *handler, s string) {
					drainLookups(adj(g(h), a)(bg, lookups(mk(s)), load, false, nil))
				}})
			}
		}
		for p, mk := range edgeIDParams {
			mk := mk
			out = append(out, site{drv + ".GetEdge" + loadTag(load), p, func(h *handler, s string) { g(h).GetEdge(mk(s), load) }})
		}
		for _, a := range adjNames {
			a := a
			out = append(out, site{drv + "." + a + loadTag(load), "label", func(h *handler, s string) {
				drainLookups(adj(g(h), a)(bg, lookups(okVertex), load, false, []string{s, s}))
			}})
		}
	}
	for p, mk := range idParams {
		mk := mk
		out = append(out,
			site{drv + ".DelVertex", p, func(h *handler, s string) { g(h).DelVertex(mk(s)) }},
			site{drv + ".AddVertex", p, func(h *handler, s string) {
				g(h).AddVertex([]*gdbi.Vertex{{ID: mk(s), Label: "L", Data: map[string]interface{}{"k": "v"}}})
			}},
			site{drv + ".AddEdge", "from " + p, func(h *handler, s string) {
				g(h).AddEdge([]*gdbi.Edge{{ID: "e1", Label: "L", From: mk(s), To: okVertex, Data: map[string]interface{}{}}})
			}},
			site{drv + ".AddEdge", "to " + p, func(h *handler, s string) {
				g(h).AddEdge([]*gdbi.Edge{{ID: "e1", Label: "L", From: okVertex, To: mk(s), Data: map[string]interface{}{}}})
			}},
			site{drv + ".BulkAdd#vertex", p, func(h *handler, s string) {
				ch := make(chan *gdbi.GraphElement, 1)
				ch <- &gdbi.GraphElement{Graph: graphName, Vertex: &gdbi.Vertex{ID: mk(s), Label: "L", Data: map[string]interface{}{}}}
				close(ch)
				g(h).BulkAdd(ch)
			}},
			// multi-element calls take other code paths than single-element ones (batching, locking, IN lists)
			site{drv + ".AddVertex#batch", p, func(h *handler, s string) {
				g(h).AddVertex([]*gdbi.Vertex{
					{ID: mk(s), Label: "L", Data: map[string]interface{}{"k": "v"}},
					{ID: okVertex, Label: "L", Data: map[string]interface{}{}},
					{ID: mk(s) + "2", Label: "L", Data: map[string]interface{}{"k": s}}})
			}},
			site{drv + ".AddEdge#batch", "endpoints " + p, func(h *handler, s string) {
				g(h).AddEdge([]*gdbi.Edge{
					{ID: "e1", Label: "L", From: mk(s), To: okVertex, Data: map[string]interface{}{}},
					{ID: "e2", Label: "L", From: okVertex, To: mk(s), Data: map[string]interface{}{"k": s}}})
			}},
			site{drv + ".BulkAdd#stream", p, func(h *handler, s string) {
				ch := make(chan *gdbi.GraphElement, 4)
				ch <- &gdbi.GraphElement{Graph: graphName, Vertex: &gdbi.Vertex{ID: mk(s), Label: "L", Data: map[string]interface{}{}}}
				ch <- &gdbi.GraphElement{Graph: graphName, Vertex: &gdbi.Vertex{ID: mk(s) + "2", Label: "L", Data: map[string]interface{}{}}}
				ch <- &gdbi.GraphElement{Graph: graphName, Edge: &gdbi.Edge{ID: "e1", Label: "L", From: mk(s), To: mk(s) + "2", Data: map[string]interface{}{}}}
				ch <- &gdbi.GraphElement{Graph: graphName, Edge: &gdbi.Edge{ID: "e2", Label: "L", From: mk(s) + "2", To: mk(s), Data: map[string]interface{}{}}}
				close(ch)
				g(h).BulkAdd(ch)
			}},
		)
	}
	for p, mk := range edgeIDParams {
		mk := mk
		out = append(out,
			site{drv + ".DelEdge", p, func(h *handler, s string) { g(h).DelEdge(mk(s)) }},
			site{drv + ".AddEdge", p, func(h *handler, s string) {
				g(h).AddEdge([]*gdbi.Edge{{ID: mk(s), Label: "L", From: okVertex, To: okVertex, Data: map[string]interface{}{}}})
			}},
			site{drv + ".AddEdge#batch", p, func(h *handler, s string) {
				g(h).AddEdge([]*gdbi.Edge{
					{ID: mk(s), Label: "L", From: okVertex, To: okVertex, Data: map[string]interface{}{}},
					{ID: mk(s) + "2", Label: "L", From: okVertex, To: okVertex, Data: map[string]interface{}{}}})
			}},
			site{drv + ".BulkAdd#edge", p, func(h *handler, s string) {
				ch := make(chan *gdbi.GraphElement, 1)
				ch <- &gdbi.GraphElement{Graph: graphName, Edge: &gdbi.Edge{ID: mk(s), Label: "L", From: okVertex, To: okVertex, Data: map[string]interface{}{}}}
				close(ch)
				g(h).BulkAdd(ch)
			}},
		)
	}
	out = append(out,
		site{drv + ".VertexLabelScan", "label", func(h *handler, s string) {
			for range g(h).VertexLabelScan(bg, s) {
			}
		}},
		site{drv + ".AddVertex", "label", func(h *handler, s string) {
			g(h).AddVertex([]*gdbi.Vertex{{ID: okVertex, Label: s, Data: map[string]interface{}{}}})
		}},
		site{drv + ".AddVertex#batch", "label", func(h *handler, s string) {
			g(h).AddVertex([]*gdbi.Vertex{{ID: okVertex, Label: s, Data: map[string]interface{}{}}, {ID: okVertex + "2", Label: s + "2", Data: map[string]interface{}{}}})
		}},
		site{drv + ".AddEdge#batch", "label", func(h *handler, s string) {
			g(h).AddEdge([]*gdbi.Edge{{ID: "e1", Label: s, From: okVertex, To: okVertex, Data: map[string]interface{}{}}, {ID: "e2", Label: s + "2", From: okVertex, To: okVertex, Data: map[string]interface{}{}}})
		}},
		site{drv + ".AddEdge", "label", func(h *handler, s string) {
			g(h).AddEdge([]*gdbi.Edge{{ID: "e1", Label: s, From: okVertex, To: okVertex, Data: map[string]interface{}{}}})
		}},
		site{drv + ".BulkAdd#vertex", "label", func(h *handler, s string) {
			ch := make(chan *gdbi.GraphElement, 1)
			ch <- &gdbi.GraphElement{Graph: graphName, Vertex: &gdbi.Vertex{ID: okVertex, Label: s, Data: map[string]interface{}{}}}
			close(ch)
			g(h).BulkAdd(ch)
		}},
		site{drv + ".AddVertexIndex", "label", func(h *handler, s string) { g(h).AddVertexIndex(s, "f") }},
		site{drv + ".DeleteVertexIndex", "label", func(h *handler, s string) { g(h).DeleteVertexIndex(s, "f") }},
	)
	return out
}

func dbSites(drv string, db func(h *handler) gdbi.GraphDB) []site {
	bg := context.Background()
	return []site{
		{drv + ".AddGraph", "name", func(h *handler, s string) { db(h).AddGraph(s) }},
		{drv + ".DeleteGraph", "name", func(h *handler, s string) { db(h).DeleteGraph(s) }},
		{drv + ".Graph", "name", func(h *handler, s string) { db(h).Graph(s) }},
		{drv + ".BuildSchema", "name", func(h *handler, s string) { db(h).BuildSchema(bg, s, 10, false) }},
	}
}

func ident(s string) string { return s }

var sites = func() []site {
	out := []site{}
	// PostgreSQL driver: ids are used as they come
	out = append(out, graphSites("psql", func(h *handler) gdbi.GraphInterface { return h.pg },
		map[string]func(string) string{"id": ident}, map[string]func(string) string{"id": ident}, okID)...)
	out = append(out, dbSites("psql", func(h *handler) gdbi.GraphDB { return h.pdb })...)
	// schema sampling interpolates the labels the database returns, i.e. labels clients stored
	// earlier with AddVertex / AddEdge: the pretended database returns the client string.
	bg := context.Background()
	out = append(out,
		site{"psql.BuildSchema#vertexlabel", "stored-label", func(h *handler, s string) {
			rec.setLabels(VertexTable, []string{s})
			defer rec.setLabels(VertexTable, nil)
			h.pdb.BuildSchema(bg, graphName, 10, false)
		}},
		site{"psql.BuildSchema#edgelabel", "stored-label", func(h *handler, s string) {
			rec.setLabels(EdgeTable, []string{s})
			defer rec.setLabels(EdgeTable, nil)
			h.pdb.BuildSchema(bg, graphName, 10, false)
		}},
	)
	// existing-SQL driver: ids have the form <table>:<key>; the client controls both parts
	out = append(out, graphSites("esql", func(h *handler) gdbi.GraphInterface { return h.eg },
		map[string]func(string) string{
			"id-key": func(s string) string { return "users:" + s },
			// a second vertex table, so that the incoming-edge statements are reached too
			"id-key#posts": func(s string) string { return "posts:" + s },
			"id-table":     func(s string) string { return s + ":1" },
		},
		map[string]func(string) string{
			"id-key":   func(s string) string { return "likes:" + s },
			"id-table": func(s string) string { return s + ":1" },
			// ids of generated edges, generated:<table>:<key>:<table>:<key>; the driver percent-decodes the parts
			"generated from-key":     func(s string) string { return "generated:users:" + s + ":posts:2" },
			"generated to-key":       func(s string) string { return "generated:users:1:posts:" + s },
			"generated from-key#enc": func(s string) string { return "generated:users:" + url.QueryEscape(s) + ":posts:2" },
			"generated to-key#enc":   func(s string) string { return "generated:users:1:posts:" + url.QueryEscape(s) },
			"generated from-table":   func(s string) string { return "generated:" + url.QueryEscape(s) + ":1:posts:2" },
		}, "users:1")...)
	out = append(out, dbSites("esql", func(h *handler) gdbi.GraphDB { return h.edb })...)
	return out
}()

func (h *handler) callSite(st site, s string) (evs []Event, pan string) {
	rec.take()
	done := make(chan struct{})
	go func() {
		defer close(done)
		defer func() {
			if r := recover(); r != nil {
				pan = fmt.Sprint(r)
			}
		}()
		st.Call(h, s)
	}()
	select {
	case <-done:
	case <-time.After(20 * time.Second):
		pan = "timeout"
	}
	return rec.take(), pan
}

type siteOut struct {
	Site  string  `json:"site"`
	Param string  `json:"param"`
	Ev    []Event `json:"ev"`
	Panic string  `json:"panic,omitempty"`
}

// Handle: {"i":n,"s":"<client string>"} -> every site called with s; sites that sent no
// statement are left out of the answer ("nsites" says how many were called).
func (h *handler) Handle(req map[string]interface{}) interface{} {
	s, _ := req["s"].(string)
	outs := make([]siteOut, 0, len(sites))
	for _, st := range sites {
		evs, pan := h.callSite(st, s)
		if len(evs) == 0 && pan == "" {
			continue // nothing was sent to the database
		}
		outs = append(outs, siteOut{Site: st.Name, Param: st.Param, Ev: evs, Panic: pan})
	}
	return map[string]interface{}{"i": req["i"], "sites": outs, "nsites": len(sites)}
}
