// Package sqlrec binds SqlLex.tla (C20) to the SQL drivers: a recording
// database/sql driver captures the text and the bound arguments of every
// statement psql and existing-sql send, while every entry point that takes an
// id, a label or a graph name is called with the strings TLC enumerated.
package sqlrec

import (
	"context"
	"database/sql"
	"database/sql/driver"
	"fmt"
	"io"
	"strings"
	"sync"
)

// Event is one thing the database would have received.
type Event struct {
	Kind string   `json:"k"` // exec | query | prepare | stmt-exec | stmt-query
	Text string   `json:"q"`
	Args []string `json:"a,omitempty"`
}

// recorder is process-wide: a worker process handles one request at a time and
// waits for all goroutines of a call before it looks at the events.
type recorder struct {
	mu     sync.Mutex
	events []Event
	// canned answers of the pretended database
	labels map[string][]string // table -> rows of "SELECT DISTINCT label FROM <table>"
}

var rec = &recorder{labels: map[string][]string{}}

func (r *recorder) add(e Event) {
	r.mu.Lock()
	r.events = append(r.events, e)
	r.mu.Unlock()
}

func (r *recorder) take() []Event {
	r.mu.Lock()
	defer r.mu.Unlock()
	out := r.events
	r.events = nil
	return out
}

func (r *recorder) setLabels(table string, labels []string) {
	r.mu.Lock()
	defer r.mu.Unlock()
	if labels == nil {
		delete(r.labels, table)
	} else {
		r.labels[table] = labels
	}
}

// The tables the pretended "graphs" catalogue row names for every graph.
const (
	VertexTable = "g_vertices"
	EdgeTable   = "g_edges"
)

// answer decides what the pretended database returns: nothing, except for the
// two catalogue queries whose answer the drivers need to get any further.
func (r *recorder) answer(q string) *rows {
	switch {
	case strings.HasPrefix(q, "SELECT * FROM graphs where graph_name="):
		// the row AddGraph would have stored (table names come from validated graph names)
		return &rows{cols: []string{"graph_name", "sanitized_graph_name", "vertex_table", "edge_table"},
			data: [][]driver.Value{{"g", "g", VertexTable, EdgeTable}}}
	case strings.HasPrefix(q, "SELECT DISTINCT label FROM "):
		table := strings.TrimPrefix(q, "SELECT DISTINCT label FROM ")
		r.mu.Lock()
		ls := r.labels[table]
		r.mu.Unlock()
		out := &rows{cols: []string{"label"}}
		for _, l := range ls {
			out.data = append(out.data, []driver.Value{l})
		}
		return out
	}
	return &rows{}
}

func argStrings(named []driver.NamedValue) []string {
	out := make([]string, len(named))
	for i, a := range named {
		switch v := a.Value.(type) {
		case []byte:
			out[i] = string(v)
		default:
			out[i] = fmt.Sprint(v)
		}
	}
	return out
}

func plain(args []driver.Value) []driver.NamedValue {
	out := make([]driver.NamedValue, len(args))
	for i, a := range args {
		out[i] = driver.NamedValue{Ordinal: i + 1, Value: a}
	}
	return out
}

type drv struct{}

func (drv) Open(name string) (driver.Conn, error) { return &conn{}, nil }

type conn struct{}

func (c *conn) Prepare(q string) (driver.Stmt, error) {
	rec.add(Event{Kind: "prepare", Text: q})
	return &stmt{q: q}, nil
}
func (c *conn) Close() error              { return nil }
func (c *conn) Begin() (driver.Tx, error) { return tx{}, nil }
func (c *conn) Ping(ctx context.Context) error {
	return nil
}
func (c *conn) ExecContext(ctx context.Context, q string, args []driver.NamedValue) (driver.Result, error) {
	rec.add(Event{Kind: "exec", Text: q, Args: argStrings(args)})
	return driver.RowsAffected(0), nil
}
func (c *conn) QueryContext(ctx context.Context, q string, args []driver.NamedValue) (driver.Rows, error) {
	rec.add(Event{Kind: "query", Text: q, Args: argStrings(args)})
	return rec.answer(q), nil
}

type tx struct{}

func (tx) Commit() error   { return nil }
func (tx) Rollback() error { return nil }

type stmt struct{ q string }

func (s *stmt) Close() error  { return nil }
func (s *stmt) NumInput() int { return -1 }
func (s *stmt) Exec(args []driver.Value) (driver.Result, error) {
	rec.add(Event{Kind: "stmt-exec", Text: s.q, Args: argStrings(plain(args))})
	return driver.RowsAffected(0), nil
}
func (s *stmt) Query(args []driver.Value) (driver.Rows, error) {
	rec.add(Event{Kind: "stmt-query", Text: s.q, Args: argStrings(plain(args))})
	return rec.answer(s.q), nil
}

type rows struct {
	cols []string
	data [][]driver.Value
	pos  int
}

func (r *rows) Columns() []string { return r.cols }
func (r *rows) Close() error      { return nil }
func (r *rows) Next(dest []driver.Value) error {
	if r.pos >= len(r.data) {
		return io.EOF
	}
	copy(dest, r.data[r.pos])
	r.pos++
	return nil
}

// DriverName is the database/sql name existing-sql is configured with.  The
// same recorder is registered as "postgres", the name psql.NewGraphDB hardcodes;
// the harness binary does not link lib/pq (only cmd/server imports it), so the
// name is free and the public constructor can be used without a hook.
const DriverName = "verifrec"

func init() {
	sql.Register(DriverName, drv{})
	sql.Register("postgres", drv{})
}
