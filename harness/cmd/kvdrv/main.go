// kvdrv: replay of KV.tla histories on the embedded key-value drivers (see harness/kvdrv).
package main

import (
	"os"

	"verifharness/kvdrv"
	"verifharness/sup"
)

func main() { sup.Main("kvdrv", os.Args[1:], kvdrv.New) }
