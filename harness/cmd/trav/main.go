// trav: replay of Traversal.tla states (see harness/trav).
package main

import (
	"os"

	"verifharness/sup"
	"verifharness/trav"
)

func main() { sup.Main("trav", os.Args[1:], trav.New) }
