// bulk: replay of BulkLoad.tla streams and EditRequests.tla requests (see harness/bulk).
package main

import (
	"os"

	"verifharness/bulk"
	"verifharness/sup"
)

func main() { sup.Main("bulk", os.Args[1:], bulk.New) }
