// pipeh: scaled replay of the Pipeline.tla behaviour classes on the real engine (see harness/pipeh).
package main

import (
	"os"

	"verifharness/pipeh"
	"verifharness/sup"
)

func main() { sup.Main("pipeh", os.Args[1:], pipeh.New) }
