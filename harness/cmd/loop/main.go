// loop: real mark/jump traversals with protocol event recording (see harness/loop).
package main

import (
	"os"

	"verifharness/loop"
	"verifharness/sup"
)

func main() { sup.Main("loop", os.Args[1:], loop.New) }
