// srvroute: replay of ServerRouting.tla histories on an in-process GripServer with two drivers (see harness/srvroute).
package main

import (
	"os"

	"verifharness/srvroute"
	"verifharness/sup"
)

func main() { sup.Main("srvroute", os.Args[1:], srvroute.New) }
