package main

import (
	"verifharness/has"
	"verifharness/sup"
)

func init() {
	registry["has"] = func(name string, args []string) { sup.Main(name, args, has.New) }
}
