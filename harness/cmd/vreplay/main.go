// vreplay: conformance harness binding the TLA+ specifications in /verif/spec
// to the real bmeg/grip code.  Usage: vreplay <family> [flags] < in.ndjson > out.ndjson
// Families register themselves in reg_*.go files.
package main

import (
	"fmt"
	"os"
	"sort"
)

var registry = map[string]func(name string, args []string){}

func main() {
	if len(os.Args) < 2 {
		names := []string{}
		for k := range registry {
			names = append(names, k)
		}
		sort.Strings(names)
		fmt.Fprintln(os.Stderr, "usage: vreplay <family> [flags]; families:", names)
		os.Exit(2)
	}
	name, args := os.Args[1], os.Args[2:]
	if f, ok := registry[name]; ok {
		f(name, args)
		return
	}
	fmt.Fprintf(os.Stderr, "unknown family %q\n", name)
	os.Exit(2)
}
