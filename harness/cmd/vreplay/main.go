// vreplay: conformance harness binding the TLA+ specifications in /verif/spec
// to the real bmeg/grip code.  Usage: vreplay <family> [flags] < in.ndjson > out.ndjson
package main

import (
	"fmt"
	"os"

	"verifharness/has"
	"verifharness/sup"
)

func main() {
	if len(os.Args) < 2 {
		fmt.Fprintln(os.Stderr, "usage: vreplay <family> [flags]")
		os.Exit(2)
	}
	name, args := os.Args[1], os.Args[2:]
	switch name {
	case "has":
		sup.Main(name, args, has.New)
	default:
		fmt.Fprintf(os.Stderr, "unknown family %q\n", name)
		os.Exit(2)
	}
}
