package main

import (
	"verifharness/sup"
	"verifharness/trav"
)

func init() {
	registry["trav"] = func(name string, args []string) { sup.Main(name, args, trav.New) }
}
