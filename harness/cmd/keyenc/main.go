// keyenc: replay of KeyEnc.tla witnesses and the accepted-identifier grid (see harness/keyenc).
package main

import (
	"os"

	"verifharness/keyenc"
	"verifharness/sup"
)

func main() { sup.Main("keyenc", os.Args[1:], keyenc.New) }
