// authz: C05 recorder of the accounts interceptor chain (see harness/authz).
package main

import (
	"os"

	"verifharness/authz"
	"verifharness/sup"
)

func main() { sup.Main("authz", os.Args[1:], authz.New) }
