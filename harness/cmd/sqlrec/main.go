// sqlrec: C20 recording harness (see harness/sqlrec).
package main

import (
	"os"

	"verifharness/sqlrec"
	"verifharness/sup"
)

func main() { sup.Main("sqlrec", os.Args[1:], sqlrec.New) }
