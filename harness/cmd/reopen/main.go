// reopen: replay of spec/reopen behaviours (restarts, crash points) on kvgraph (see harness/reopen).
package main

import (
	"os"

	"verifharness/reopen"
	"verifharness/sup"
)

func main() { sup.Main("reopen", os.Args[1:], reopen.New) }
