// kvidx: replay of KVIndex.tla histories on kvindex.KVIndex over Badger (see harness/kvidx).
package main

import (
	"os"

	"verifharness/kvidx"
	"verifharness/sup"
)

func main() { sup.Main("kvidx", os.Args[1:], kvidx.New) }
