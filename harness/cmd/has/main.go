// has: replay of the C08 grid (see harness/has).
package main

import (
	"os"

	"verifharness/has"
	"verifharness/sup"
)

func main() { sup.Main("has", os.Args[1:], has.New) }
