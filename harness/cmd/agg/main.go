// agg: replay of Agg.tla cases (see harness/agg).
package main

import (
	"os"

	"verifharness/agg"
	"verifharness/sup"
)

func main() { sup.Main("agg", os.Args[1:], agg.New) }
