// gripperh: replay of GripperTraversal.tla / GripperWrites.tla states on gripper.TabularGraph (see harness/gripperh).
package main

import (
	"os"

	"verifharness/gripperh"
	"verifharness/sup"
)

func main() { sup.Main("gripperh", os.Args[1:], gripperh.New) }
