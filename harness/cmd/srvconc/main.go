// srvconc: C17 recorder of concurrent client sessions against an in-process GripServer (see harness/srvconc).
package main

import (
	"os"

	"verifharness/srvconc"
	"verifharness/sup"
)

func main() { sup.Main("srvconc", os.Args[1:], srvconc.New) }
