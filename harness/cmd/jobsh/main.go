// jobsh: replay of Jobs.tla behaviours on the job storage and the job handlers (see harness/jobsh).
package main

import (
	"os"

	"verifharness/jobsh"
	"verifharness/sup"
)

func main() { sup.Main("jobsh", os.Args[1:], jobsh.New) }
