// mongoc: C14 - runs the Mongo compiler (through the verif hook, no database) and
// the core compiler on programs / has-expressions printed by the specifications
// (see harness/mongoc).
package main

import (
	"os"

	"verifharness/mongoc"
	"verifharness/sup"
)

func main() { sup.Main("mongoc", os.Args[1:], mongoc.New) }
