// streams: histories of grip's internal stream combinators (C13, see harness/streams).
package main

import (
	"os"

	"verifharness/streams"
	"verifharness/sup"
)

func main() { sup.Main("streams", os.Args[1:], streams.New) }
