// store: replay of GraphStore.tla behaviours on kvgraph (see harness/store).
package main

import (
	"os"

	"verifharness/store"
	"verifharness/sup"
)

func main() { sup.Main("store", os.Args[1:], store.New) }
