// Package srvconc produces histories of concurrent client sessions against a
// real in-process GripServer (server.NewGripServer over kvgraph over a real
// Badger store, reached through a real grpc.Server on an in-memory listener,
// interceptors chained as server.Serve does).  The sessions come from
// ServerConc.tla; every call is recorded as Invoke / Return with stamps drawn
// from one atomic counter inside the harness (a Return stamped before another
// call's Invoke really happened before it; nothing else is claimed about
// cross-client order).  After the last return the whole store is read back
// through harness/store.Observe.  ServerConcTrace.tla then searches for a
// linearisation of the acknowledged edits that explains the final state.
//
// When the binary is built with -race the reports the race detector wrote
// while a history ran are attached to its record (GORACE=log_path=...).
package srvconc

import (
	"context"
	"fmt"
	"io"
	"math/rand"
	"net"
	"os"
	"path/filepath"
	"reflect"
	"runtime"
	"sort"
	"strings"
	"sync"
	"sync/atomic"
	"time"
	"unsafe"

	"verifharness/store"
	"verifharness/sup"

	"github.com/bmeg/grip/config"
	"github.com/bmeg/grip/gdbi"
	"github.com/bmeg/grip/gripql"
	"github.com/bmeg/grip/jobstorage"
	"github.com/bmeg/grip/kvgraph"
	"github.com/bmeg/grip/kvi"
	_ "github.com/bmeg/grip/kvi/badgerdb"
	"github.com/bmeg/grip/log"
	"github.com/bmeg/grip/server"
	"github.com/bmeg/grip/util"
	grpc_middleware "github.com/grpc-ecosystem/go-grpc-middleware"
	"google.golang.org/grpc"
	"google.golang.org/grpc/credentials/insecure"
	"google.golang.org/grpc/test/bufconn"
	"google.golang.org/protobuf/encoding/protojson"
	"google.golang.org/protobuf/types/known/structpb"
)

const schemaSuffix = "__schema__"

func init() {
	log.ConfigureLogger(log.Logger{Level: "error", Formatter: "text"})
}

// ---------------------------------------------------------------- server

type node struct {
	dir   string
	kv    kvi.KVInterface
	db    gdbi.GraphDB
	srv   *server.GripServer
	gs    *grpc.Server
	lis   *bufconn.Listener
	jobs  bool
	conns []*grpc.ClientConn
}

func passUnary(ctx context.Context, req interface{}, info *grpc.UnaryServerInfo, handler grpc.UnaryHandler) (interface{}, error) {
	return handler(ctx, req)
}

func passStream(srv interface{}, ss grpc.ServerStream, info *grpc.StreamServerInfo, handler grpc.StreamHandler) error {
	return handler(srv, ss)
}

// initJobStorage gives the server the job storage that Serve would create
// (<workdir>/jobs); the field is otherwise only assigned inside Serve.
func initJobStorage(srv *server.GripServer, dir string) bool {
	f := reflect.ValueOf(srv).Elem().FieldByName("jStorage")
	if !f.IsValid() {
		return false
	}
	js := jobstorage.NewFSJobStorage(dir)
	v := reflect.ValueOf(js)
	if !v.Type().AssignableTo(f.Type()) {
		return false
	}
	reflect.NewAt(f.Type(), unsafe.Pointer(f.UnsafeAddr())).Elem().Set(v)
	return true
}

func newNode() (*node, error) {
	dir, err := os.MkdirTemp("", "srvconc_")
	if err != nil {
		return nil, err
	}
	n := &node{dir: dir}
	kv, err := kvi.NewKVInterface("badger", filepath.Join(dir, "db"), nil)
	if err != nil {
		os.RemoveAll(dir)
		return nil, err
	}
	n.kv = kv
	n.db = kvgraph.NewKVGraph(kv)
	conf := config.DefaultConfig()
	conf.Server.WorkDir = filepath.Join(dir, "work")
	conf.Default = "kv"
	srv, err := server.NewGripServer(conf, dir, map[string]gdbi.GraphDB{"kv": n.db})
	if err != nil {
		kv.Close()
		os.RemoveAll(dir)
		return nil, err
	}
	n.srv = srv
	n.jobs = initJobStorage(srv, filepath.Join(conf.Server.WorkDir, "jobs"))
	n.lis = bufconn.Listen(1 << 20)
	n.gs = grpc.NewServer(
		grpc.UnaryInterceptor(grpc_middleware.ChainUnaryServer(conf.Server.Accounts.UnaryInterceptor(), passUnary)),
		grpc.StreamInterceptor(grpc_middleware.ChainStreamServer(conf.Server.Accounts.StreamInterceptor(), passStream)),
		grpc.MaxSendMsgSize(1024*1024*16),
		grpc.MaxRecvMsgSize(1024*1024*16),
	)
	gripql.RegisterQueryServer(n.gs, srv)
	gripql.RegisterEditServer(n.gs, srv)
	if n.jobs {
		gripql.RegisterJobServer(n.gs, srv)
	}
	go n.gs.Serve(n.lis)
	return n, nil
}

func (n *node) dial() (*grpc.ClientConn, error) {
	c, err := grpc.DialContext(context.Background(), "bufnet",
		grpc.WithContextDialer(func(ctx context.Context, s string) (net.Conn, error) { return n.lis.DialContext(ctx) }),
		grpc.WithTransportCredentials(insecure.NewCredentials()))
	if err == nil {
		n.conns = append(n.conns, c)
	}
	return c, err
}

func (n *node) close() {
	for _, c := range n.conns {
		c.Close()
	}
	n.gs.Stop()
	func() {
		defer func() { recover() }()
		n.kv.Close()
	}()
	os.RemoveAll(n.dir)
}

// ---------------------------------------------------------------- elements

func dataOf(d int) map[string]interface{} {
	if d == 0 {
		return map[string]interface{}{}
	}
	return map[string]interface{}{"x": float64(d)}
}

// dOf is the inverse of dataOf; -1 for data no session ever writes.
func dOf(m map[string]interface{}) int {
	if len(m) == 0 {
		return 0
	}
	if len(m) == 1 {
		if x, ok := m["x"].(float64); ok && x == float64(int(x)) && x > 0 {
			return int(x)
		}
	}
	return -1
}

func str(m map[string]interface{}, k string) string { s, _ := m[k].(string); return s }
func num(m map[string]interface{}, k string) int    { f, _ := m[k].(float64); return int(f) }

func vertexOf(e map[string]interface{}) *gripql.Vertex {
	d, _ := structpb.NewStruct(dataOf(num(e, "d")))
	return &gripql.Vertex{Gid: str(e, "id"), Label: str(e, "label"), Data: d}
}

func edgeOf(e map[string]interface{}) *gripql.Edge {
	d, _ := structpb.NewStruct(dataOf(num(e, "d")))
	return &gripql.Edge{Gid: str(e, "id"), Label: str(e, "label"), From: str(e, "from"), To: str(e, "to"), Data: d}
}

func vrow(v *gripql.Vertex) map[string]interface{} {
	return map[string]interface{}{"k": "v", "id": v.Gid, "label": v.Label, "d": dOf(v.Data.AsMap())}
}

func erow(e *gripql.Edge) map[string]interface{} {
	return map[string]interface{}{"k": "e", "id": e.Gid, "label": e.Label, "from": e.From, "to": e.To, "d": dOf(e.Data.AsMap())}
}

func graphRows(g *gripql.Graph) []interface{} {
	out := []interface{}{}
	for _, v := range g.Vertices {
		out = append(out, vrow(v))
	}
	for _, e := range g.Edges {
		out = append(out, erow(e))
	}
	return out
}

// ---------------------------------------------------------------- client

type client struct {
	q      gripql.QueryClient
	e      gripql.EditClient
	j      gripql.JobClient
	prefix string
	jobIDs []string // ids of this client's successful Submits, by submit number
	nsub   int
}

func (cl *client) name(g string) string { return store.Name(cl.prefix, g) }

var queries = map[string]string{
	"V":    `{"query":[{"v":[]}]}`,
	"E":    `{"query":[{"e":[]}]}`,
	"out":  `{"query":[{"v":["%s"]},{"out":[]}]}`,
	"in":   `{"query":[{"v":["%s"]},{"in":[]}]}`,
	"outE": `{"query":[{"v":["%s"]},{"outE":[]}]}`,
	"inE":  `{"query":[{"v":["%s"]},{"inE":[]}]}`,
	// a loop construct whose condition never holds: mark, one hop, jump back if the label is one nobody writes
	"jump": `{"query":[{"v":["%s"]},{"mark":"m"},{"out":[]},{"jump":{"mark":"m","expression":{"condition":{"key":"_label","value":"NOSUCH","condition":"EQ"}},"emit":true}}]}`,
}

func queryOf(graph, q, id string) (*gripql.GraphQuery, error) {
	tpl, ok := queries[q]
	if !ok {
		return nil, fmt.Errorf("unknown query shape %q", q)
	}
	if strings.Contains(tpl, "%s") {
		tpl = fmt.Sprintf(tpl, id)
	}
	gq := &gripql.GraphQuery{}
	if err := protojson.Unmarshal([]byte(tpl), gq); err != nil {
		return nil, err
	}
	gq.Graph = graph
	return gq, nil
}

func failed(res map[string]interface{}, err error) map[string]interface{} {
	res["res"] = "error"
	res["msg"] = err.Error()
	return res
}

// listed reads the server's graph listing right after this client's own AddGraph/DeleteGraph was acknowledged:
// only this client creates or deletes the graph, so the listing has to agree with the acknowledged call
// ("yes"/"no"; "?" when the listing itself failed).
func (cl *client) listed(ctx context.Context, g string) string {
	l, err := cl.q.ListGraphs(ctx, &gripql.Empty{})
	if err != nil {
		return "?"
	}
	for _, n := range l.Graphs {
		if n == g {
			return "yes"
		}
	}
	return "no"
}

// do executes one call of a session through the gRPC clients.
func (cl *client) do(ctx context.Context, call map[string]interface{}) (res map[string]interface{}) {
	res = map[string]interface{}{"res": "ok"}
	op := str(call, "op")
	g := cl.name(str(call, "g"))
	elems, _ := call["elems"].([]interface{})
	switch op {
	case "AddGraph":
		if _, err := cl.e.AddGraph(ctx, &gripql.GraphID{Graph: g}); err != nil {
			return failed(res, err)
		}
		res["listed_after"] = cl.listed(ctx, g)
	case "DeleteGraph":
		if _, err := cl.e.DeleteGraph(ctx, &gripql.GraphID{Graph: g}); err != nil {
			return failed(res, err)
		}
		res["listed_after"] = cl.listed(ctx, g)
	case "AddVertex":
		for _, e := range elems {
			if _, err := cl.e.AddVertex(ctx, &gripql.GraphElement{Graph: g, Vertex: vertexOf(e.(map[string]interface{}))}); err != nil {
				return failed(res, err)
			}
		}
	case "AddEdge":
		for _, e := range elems {
			if _, err := cl.e.AddEdge(ctx, &gripql.GraphElement{Graph: g, Edge: edgeOf(e.(map[string]interface{}))}); err != nil {
				return failed(res, err)
			}
		}
	case "BulkAdd":
		st, err := cl.e.BulkAdd(ctx)
		if err != nil {
			return failed(res, err)
		}
		for _, e := range elems {
			em := e.(map[string]interface{})
			ge := &gripql.GraphElement{Graph: g}
			if str(em, "k") == "v" {
				ge.Vertex = vertexOf(em)
			} else {
				ge.Edge = edgeOf(em)
			}
			if err := st.Send(ge); err != nil {
				return failed(res, err)
			}
		}
		r, err := st.CloseAndRecv()
		if err != nil {
			return failed(res, err)
		}
		res["inserted"], res["errors"] = r.InsertCount, r.ErrorCount
		if r.ErrorCount != 0 || int(r.InsertCount) != len(elems) {
			res["res"] = "error"
		}
	case "DelVertex":
		if _, err := cl.e.DeleteVertex(ctx, &gripql.ElementID{Graph: g, Id: str(call, "id")}); err != nil {
			return failed(res, err)
		}
	case "DelEdge":
		if _, err := cl.e.DeleteEdge(ctx, &gripql.ElementID{Graph: g, Id: str(call, "id")}); err != nil {
			return failed(res, err)
		}
	case "GetVertex":
		v, err := cl.q.GetVertex(ctx, &gripql.ElementID{Graph: g, Id: str(call, "id")})
		if err != nil {
			return failed(res, err)
		}
		res["elems"] = []interface{}{vrow(v)}
	case "GetEdge":
		e, err := cl.q.GetEdge(ctx, &gripql.ElementID{Graph: g, Id: str(call, "id")})
		if err != nil {
			return failed(res, err)
		}
		res["elems"] = []interface{}{erow(e)}
	case "Traversal":
		gq, err := queryOf(g, str(call, "q"), str(call, "id"))
		if err != nil {
			res["res"] = "harness"
			res["msg"] = err.Error()
			return res
		}
		st, err := cl.q.Traversal(ctx, gq)
		if err != nil {
			return failed(res, err)
		}
		rows := []interface{}{}
		for {
			r, err := st.Recv()
			if err == io.EOF {
				break
			}
			if err != nil {
				return failed(res, err)
			}
			if v := r.GetVertex(); v != nil {
				rows = append(rows, vrow(v))
			} else if e := r.GetEdge(); e != nil {
				rows = append(rows, erow(e))
			} else {
				rows = append(rows, map[string]interface{}{"k": "other", "row": r.String()})
			}
		}
		res["elems"] = rows
	case "AddSchema":
		sg := &gripql.Graph{Graph: g}
		for _, e := range elems {
			em := e.(map[string]interface{})
			if str(em, "k") == "v" {
				sg.Vertices = append(sg.Vertices, vertexOf(em))
			} else {
				sg.Edges = append(sg.Edges, edgeOf(em))
			}
		}
		if _, err := cl.e.AddSchema(ctx, sg); err != nil {
			return failed(res, err)
		}
	case "GetSchema":
		s, err := cl.q.GetSchema(ctx, &gripql.GraphID{Graph: g})
		if err != nil {
			return failed(res, err)
		}
		res["elems"] = graphRows(s)
		res["graph"] = strings.TrimPrefix(s.Graph, cl.prefix)
	case "Submit":
		cl.nsub++
		cl.jobIDs = append(cl.jobIDs, "")
		if cl.j == nil {
			res["res"] = "nojobs"
			return res
		}
		gq, err := queryOf(g, str(call, "q"), str(call, "id"))
		if err != nil {
			res["res"] = "harness"
			res["msg"] = err.Error()
			return res
		}
		j, err := cl.j.Submit(ctx, gq)
		if err != nil {
			return failed(res, err)
		}
		cl.jobIDs[cl.nsub-1] = j.Id
		res["graph"] = strings.TrimPrefix(j.Graph, cl.prefix)
	case "GetJob":
		if cl.j == nil {
			res["res"] = "nojobs"
			return res
		}
		k := num(call, "ref")
		id := "no-such-job"
		if k >= 1 && k <= len(cl.jobIDs) && cl.jobIDs[k-1] != "" {
			id = cl.jobIDs[k-1]
		}
		s, err := cl.j.GetJob(ctx, &gripql.QueryJob{Graph: g, Id: id})
		if err != nil {
			return failed(res, err)
		}
		res["state"] = s.State.String()
		res["count"] = s.Count
		res["sameid"] = s.Id == id
		res["graph"] = strings.TrimPrefix(s.Graph, cl.prefix)
	default:
		res["res"] = "harness"
		res["msg"] = "unknown op " + op
	}
	return res
}

// ---------------------------------------------------------------- histories

type Handler struct {
	n       *node
	served  int
	raceOff int64
}

func New() sup.Handler { return &Handler{} }

func (h *Handler) Setup(req map[string]interface{}) error { return nil }

func (h *Handler) Close() {
	if h.n != nil {
		h.n.close()
	}
}

func (h *Handler) fresh(every int) error {
	if h.n != nil && h.served%every != 0 {
		return nil
	}
	if h.n != nil {
		h.n.close()
		h.n = nil
	}
	n, err := newNode()
	if err != nil {
		return err
	}
	h.n = n
	return nil
}

// raceLog returns what the race detector appended to its log since the last call.
func (h *Handler) raceLog() string {
	path := ""
	for _, kv := range strings.Fields(os.Getenv("GORACE")) {
		if strings.HasPrefix(kv, "log_path=") {
			path = strings.TrimPrefix(kv, "log_path=")
		}
	}
	if path == "" {
		return ""
	}
	f, err := os.Open(fmt.Sprintf("%s.%d", path, os.Getpid()))
	if err != nil {
		return ""
	}
	defer f.Close()
	f.Seek(h.raceOff, 0)
	b, _ := io.ReadAll(f)
	h.raceOff += int64(len(b))
	return string(b)
}

func jitter(r *rand.Rand, level int) {
	if level == 0 {
		return
	}
	switch r.Intn(4) {
	case 0:
	case 1:
		for k := r.Intn(4); k >= 0; k-- {
			runtime.Gosched()
		}
	case 2:
		time.Sleep(time.Duration(r.Intn(50*level)) * time.Microsecond)
	case 3:
		// spin a little without yielding
		t := time.Now()
		for time.Since(t) < time.Duration(r.Intn(20*level))*time.Microsecond {
		}
	}
}

func listing(o map[string]interface{}) map[string]interface{} {
	// the V/E tables of store.ObserveGraph as sorted rows
	rows := func(kind string, tbl interface{}) []interface{} {
		m, _ := tbl.(map[string]interface{})
		ids := make([]string, 0, len(m))
		for id := range m {
			ids = append(ids, id)
		}
		sort.Strings(ids)
		out := []interface{}{}
		for _, id := range ids {
			r, _ := m[id].(map[string]interface{})
			row := map[string]interface{}{"k": kind, "id": id, "label": r["label"]}
			if kind == "e" {
				row["from"], row["to"] = r["from"], r["to"]
			}
			row["d"] = -1
			if d, ok := r["data"].([]interface{}); ok && len(d) == 2 {
				plain := map[string]interface{}{}
				if dm, ok := d[1].(map[string]interface{}); ok {
					for k, x := range dm {
						if t, ok := x.([]interface{}); ok && len(t) == 2 {
							plain[k] = t[1]
						} else {
							plain[k] = x
						}
					}
				}
				row["d"] = dOf(plain)
			}
			out = append(out, row)
		}
		return out
	}
	return map[string]interface{}{"V": rows("v", o["V"]), "E": rows("e", o["E"])}
}

func (h *Handler) Handle(req map[string]interface{}) interface{} {
	resp := map[string]interface{}{"i": req["i"]}
	if str(req, "probe") == "streambatch" {
		resp["probe"] = streamBatchProbe(req)
		resp["races"] = h.raceLog()
		return resp
	}
	every := num(req, "fresh")
	if every <= 0 {
		every = 50
	}
	if err := h.fresh(every); err != nil {
		resp["harness_err"] = err.Error()
		return resp
	}
	h.served++
	n := h.n
	prefix := fmt.Sprintf("t%vx", req["i"])
	sessions, _ := req["sessions"].([]interface{})
	procs := num(req, "procs")
	if procs <= 0 {
		procs = runtime.NumCPU()
	}
	prev := runtime.GOMAXPROCS(procs)
	defer runtime.GOMAXPROCS(prev)
	level := num(req, "jitter")
	seed := int64(num(req, "seed"))
	limit := num(req, "deadline_s")
	if limit <= 0 {
		limit = 45
	}
	ctx, cancel := context.WithTimeout(context.Background(), time.Duration(limit)*time.Second)
	defer cancel()

	// clients
	cls := make([]*client, len(sessions))
	for c := range sessions {
		conn, err := n.dial()
		if err != nil {
			resp["harness_err"] = err.Error()
			return resp
		}
		cls[c] = &client{q: gripql.NewQueryClient(conn), e: gripql.NewEditClient(conn), prefix: prefix}
		if n.jobs {
			cls[c].j = gripql.NewJobClient(conn)
		}
	}
	// prologue (sequential): the graphs that exist in the initial state of the spec
	for _, g := range strs(req["init"]) {
		if _, err := cls[0].e.AddGraph(ctx, &gripql.GraphID{Graph: store.Name(prefix, g)}); err != nil {
			resp["harness_err"] = "prologue AddGraph: " + err.Error()
			return resp
		}
	}

	var clock int64
	type rec struct {
		ti, tr int64
		res    map[string]interface{}
	}
	recs := make([][]rec, len(sessions))
	var wg sync.WaitGroup
	start := make(chan struct{})
	for c := range sessions {
		calls, _ := sessions[c].([]interface{})
		recs[c] = make([]rec, len(calls))
		wg.Add(1)
		go func(c int, calls []interface{}) {
			defer wg.Done()
			r := rand.New(rand.NewSource(seed*1000 + int64(c)))
			<-start
			for k, raw := range calls {
				call := raw.(map[string]interface{})
				jitter(r, level)
				ti := atomic.AddInt64(&clock, 1)
				res := cls[c].do(ctx, call)
				tr := atomic.AddInt64(&clock, 1)
				recs[c][k] = rec{ti, tr, res}
			}
		}(c, calls)
	}
	// environment (not part of the history): other clients that create and delete graphs of their own, whose names no
	// call of the sessions uses, while the sessions run.  By the isolation of graphs (GraphStore.tla!Isolation) this
	// changes nothing the sessions can observe - it only makes the server's graph bookkeeping run concurrently.
	stopChurn := make(chan struct{})
	var churnWG sync.WaitGroup
	churned := int64(0)
	if on, _ := req["churn"].(bool); on {
		for w := 0; w < 2; w++ {
			conn, err := n.dial()
			if err != nil {
				resp["harness_err"] = err.Error()
				return resp
			}
			ec := gripql.NewEditClient(conn)
			churnWG.Add(1)
			go func(w int) {
				defer churnWG.Done()
				<-start
				last := ""
				for k := 0; ; k++ {
					select {
					case <-stopChurn:
						if last != "" {
							ec.DeleteGraph(context.Background(), &gripql.GraphID{Graph: last})
						}
						return
					default:
					}
					// in bursts: a stale view of the graphs is repaired by the next creation or deletion,
					// so the environment has to leave the sessions time to look
					if k%2 == 1 {
						time.Sleep(time.Duration(1+k%5) * time.Millisecond)
					}
					name := fmt.Sprintf("%szq%dn%d", prefix, w, k)
					if _, err := ec.AddGraph(ctx, &gripql.GraphID{Graph: name}); err == nil {
						atomic.AddInt64(&churned, 1)
						if last != "" {
							ec.DeleteGraph(ctx, &gripql.GraphID{Graph: last})
						}
						last = name
					}
				}
			}(w)
		}
	}
	close(start)
	wg.Wait()
	close(stopChurn)
	churnWG.Wait()
	resp["churned"] = atomic.LoadInt64(&churned)

	out := make([]interface{}, len(sessions))
	for c := range recs {
		rs := make([]interface{}, len(recs[c]))
		for k, r := range recs[c] {
			rs[k] = map[string]interface{}{"ti": r.ti, "tr": r.tr, "res": r.res}
		}
		out[c] = rs
	}
	resp["recs"] = out
	if ctx.Err() != nil {
		// calls did not return within the deadline: report what the handlers are blocked in and
		// give up this server (its goroutines may be stuck for good)
		resp["deadline"] = true
		buf := make([]byte, 4<<20)
		resp["stacks"] = string(buf[:runtime.Stack(buf, true)])
		go h.n.close()
		h.n = nil
		resp["races"] = h.raceLog()
		return resp
	}

	// ---- after the last return: the final observable state (with a deadline of its own)
	cancel()
	ctx, cancel = context.WithTimeout(context.Background(), 60*time.Second)
	defer cancel()
	fin := map[string]interface{}{}
	// wait for this history's jobs to finish (their goroutines read the store)
	jobs := map[string]interface{}{}
	for c, cl := range cls {
		for k, id := range cl.jobIDs {
			if id == "" {
				continue
			}
			name := fmt.Sprintf("%d.%d", c+1, k+1)
			state := "?"
			g := ""
			for t := 0; t < 400; t++ {
				s, err := cl.j.GetJob(ctx, &gripql.QueryJob{Graph: store.Name(prefix, str(jobGraph(sessions, c, k), "g")), Id: id})
				if err != nil {
					state = "error: " + err.Error()
					break
				}
				state, g = s.State.String(), strings.TrimPrefix(s.Graph, prefix)
				if state == "COMPLETE" || state == "ERROR" {
					break
				}
				time.Sleep(5 * time.Millisecond)
			}
			jobs[name] = map[string]interface{}{"state": state, "graph": g}
		}
	}
	fin["jobs"] = jobs
	_, err := cls[0].q.ListGraphs(ctx, &gripql.Empty{})
	fin["up"] = err == nil
	if err != nil {
		fin["up_err"] = err.Error()
	}
	obs := store.Observe(n.db, prefix)
	fin["obs"] = obs
	st := map[string]interface{}{}
	for g, o := range obs {
		if om, ok := o.(map[string]interface{}); ok {
			if _, bad := om["listed_but_unopenable"]; !bad {
				st[g] = listing(om)
			}
		}
	}
	fin["store"] = st
	// schemas: what the server answers, and the stored schema graph
	sch := map[string]interface{}{}
	for _, g := range store.GraphNames {
		e := map[string]interface{}{}
		if s, err := cls[0].q.GetSchema(ctx, &gripql.GraphID{Graph: store.Name(prefix, g)}); err == nil {
			e["served"] = graphRows(s)
		} else {
			e["served_err"] = err.Error()
		}
		if gi, err := n.db.Graph(store.Name(prefix, g) + schemaSuffix); err == nil {
			l := listing(store.ObserveGraph(gi))
			e["stored"] = append(l["V"].([]interface{}), l["E"].([]interface{})...)
		}
		sch[g] = e
	}
	fin["schemas"] = sch
	resp["final"] = fin
	if ctx.Err() != nil {
		// the observation itself ran out of time (machine load): not an observation about the server
		resp["final_deadline"] = true
	}

	// leave the store small for the next history
	for _, g := range store.GraphNames {
		cls[0].e.DeleteGraph(ctx, &gripql.GraphID{Graph: store.Name(prefix, g)})
		cls[0].e.DeleteGraph(ctx, &gripql.GraphID{Graph: store.Name(prefix, g) + schemaSuffix})
	}
	for _, c := range n.conns {
		c.Close()
	}
	n.conns = nil
	resp["races"] = h.raceLog()
	return resp
}

func jobGraph(sessions []interface{}, c, k int) map[string]interface{} {
	calls, _ := sessions[c].([]interface{})
	seen := 0
	for _, raw := range calls {
		call := raw.(map[string]interface{})
		if str(call, "op") == "Submit" {
			if seen == k {
				return call
			}
			seen++
		}
	}
	return map[string]interface{}{}
}

func strs(raw interface{}) []string {
	out := []string{}
	if a, ok := raw.([]interface{}); ok {
		for _, x := range a {
			if s, ok := x.(string); ok {
				out = append(out, s)
			}
		}
	}
	return out
}

// ---------------------------------------------------------------- StreamBatch

// streamBatchProbe drives util.StreamBatch (the bulk-load path of the mongo, psql and
// elastic drivers) the way those drivers do, over a kvgraph whose batch writers refuse
// the ids the request names (a backend that fails some batches).  The abstract meaning
// is BulkAdd's: an error is reported iff something was refused.
func streamBatchProbe(req map[string]interface{}) map[string]interface{} {
	out := map[string]interface{}{}
	dir, err := os.MkdirTemp("", "srvconc_sb_")
	if err != nil {
		out["harness_err"] = err.Error()
		return out
	}
	defer os.RemoveAll(dir)
	kv, err := kvi.NewKVInterface("badger", filepath.Join(dir, "db"), nil)
	if err != nil {
		out["harness_err"] = err.Error()
		return out
	}
	defer kv.Close()
	db := kvgraph.NewKVGraph(kv)
	db.AddGraph("g1")
	gi, _ := db.Graph("g1")
	refuse := map[string]bool{}
	for _, id := range strs(req["refuse"]) {
		refuse[id] = true
	}
	addV := func(vs []*gdbi.Vertex) error {
		for _, v := range vs {
			if refuse[v.ID] {
				return fmt.Errorf("backend refused vertex batch (%s)", v.ID)
			}
		}
		return gi.AddVertex(vs)
	}
	addE := func(es []*gdbi.Edge) error {
		for _, e := range es {
			if refuse[e.ID] {
				return fmt.Errorf("backend refused edge batch (%s)", e.ID)
			}
		}
		return gi.AddEdge(es)
	}
	elems, _ := req["elems"].([]interface{})
	ch := make(chan *gdbi.GraphElement, len(elems)+1)
	for _, e := range elems {
		em := e.(map[string]interface{})
		if str(em, "k") == "v" {
			ch <- &gdbi.GraphElement{Graph: "g1", Vertex: gdbi.NewElementFromVertex(vertexOf(em))}
		} else {
			ch <- &gdbi.GraphElement{Graph: "g1", Edge: gdbi.NewElementFromEdge(edgeOf(em))}
		}
	}
	close(ch)
	err = util.StreamBatch(ch, num(req, "batch"), "g1", addV, addE)
	out["res"] = "ok"
	if err != nil {
		out["res"] = "error"
		out["msg"] = err.Error()
	}
	out["store"] = listing(store.ObserveGraph(gi))
	return out
}
