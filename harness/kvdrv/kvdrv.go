// Package kvdrv replays call histories printed by KV.tla (C10) on a real
// embedded key-value driver through kvi.KVInterface.
//
// The replayer is deliberately ignorant of the expected answers: it executes
// the calls of a history one by one on a fresh store of the requested driver
// and reports what every call returned, in the vocabulary of the
// specification (found/absent, true/false, ok/err, at(k,v)/inv).  The check
// driver (lib/checks/c10.py) compares them with the answers TLC printed.
//
// Request : {"i":n, "drv":"bolt", "h":[{"op":"Set","k":[1,2],"v":"x","c":true}, ...]}
// Response: {"i":n, "drv":"bolt", "res":[{...per call...}], "final":[[k,v]...]}
//
// Keys are sequences over 0,1,2 = bytes 0x00,'a','b' (or 0x00,'a',0xff for behaviours flagged "hi").  A call flagged "c" is
// followed by a full forward scan (View: Seek(""), then Valid/Key/Value/Next
// until invalid) whose rows are reported as "scan".
//
// Protocol rules that keep the replay inside what the interface documents:
//   - Key()/Value() are only called after Valid() returned true, Next() only
//     when the preceding positioning call left the driver's iterator valid
//     (otherwise the history is stopped with t="desync": the driver already
//     disagreed with the specification at the positioning call);
//   - a panic on the calling goroutine is recovered, reported as t="panic"
//     for the call in flight and ends the history (a panic elsewhere kills
//     the worker process and is reported by the supervisor);
//   - a session still open at the end of the history is closed by returning
//     nil from the callback.
package kvdrv

import (
	"errors"
	"fmt"
	"os"
	"regexp"
	"runtime/debug"
	"strings"
	"sync"
	"sync/atomic"
	"time"

	"verifharness/sup"

	"github.com/bmeg/grip/kvi"
	_ "github.com/bmeg/grip/kvi/badgerdb"
	_ "github.com/bmeg/grip/kvi/boltdb"
	_ "github.com/bmeg/grip/kvi/leveldb"
	_ "github.com/bmeg/grip/kvi/pebbledb"
	"github.com/bmeg/grip/log"
)

func init() {
	log.ConfigureLogger(log.Logger{Level: "error", Formatter: "text"})
}

// Drivers lists the registered embedded drivers (the names of kvi.NewKVInterface).
var Drivers = []string{"badger", "bolt", "level", "pebble"}

var byteOf = []byte{0x00, 'a', 'b'}

// Key converts a specification key to bytes.
func Key(k []interface{}) []byte {
	out := make([]byte, 0, len(k))
	for _, x := range k {
		f, _ := x.(float64)
		i := int(f)
		if i >= 0 && i < len(byteOf) {
			out = append(out, byteOf[i])
		} else {
			out = append(out, byte(i))
		}
	}
	return out
}

// Unkey converts bytes returned by a driver to a specification key; bytes
// outside the alphabet are reported as 1000+b.
func Unkey(b []byte) []int {
	out := make([]int, 0, len(b))
	for _, c := range b {
		switch c {
		case 0x00:
			out = append(out, 0)
		case 'a':
			out = append(out, 1)
		case byteOf[2]:
			out = append(out, 2)
		default:
			out = append(out, 1000+int(c))
		}
	}
	return out
}

// Store is a fresh store of one driver in its own scratch directory.
type Store struct {
	Driver string
	Dir    string
	KV     kvi.KVInterface
}

// Root returns the directory under which scratch stores are created:
// $VERIF_KV_TMP, else /dev/shm (durability is not part of C10 and a RAM disk
// keeps the per-commit fsync of the drivers cheap), else the temp dir.
func Root() string {
	if d := os.Getenv("VERIF_KV_TMP"); d != "" {
		return d
	}
	if st, err := os.Stat("/dev/shm"); err == nil && st.IsDir() {
		if f, err := os.CreateTemp("/dev/shm", "vkv_probe_"); err == nil {
			f.Close()
			os.Remove(f.Name())
			return "/dev/shm"
		}
	}
	return os.TempDir()
}

// Open creates a fresh store of the named driver.
func Open(driver string) (*Store, error) {
	dir, err := os.MkdirTemp(Root(), "vkv_"+driver+"_")
	if err != nil {
		return nil, err
	}
	kv, err := kvi.NewKVInterface(driver, dir+"/db", nil)
	if err != nil {
		os.RemoveAll(dir)
		return nil, fmt.Errorf("open %s: %v", driver, err)
	}
	return &Store{Driver: driver, Dir: dir, KV: kv}, nil
}

// Destroy closes the store (bounded wait: after a recovered panic the driver
// may hold a lock for ever) and removes its directory.
func (s *Store) Destroy() {
	done := make(chan struct{})
	go func() {
		defer func() { recover(); close(done) }()
		s.KV.Close()
	}()
	select {
	case <-done:
	case <-time.After(3 * time.Second):
	}
	os.RemoveAll(s.Dir)
}

type handler struct{}

// New returns the worker-side handler.
func New() sup.Handler { return &handler{} }

func (h *handler) Setup(req map[string]interface{}) error { return nil }
func (h *handler) Close()                                 {}

type rec = map[string]interface{}

type runner struct {
	kv    kvi.KVInterface
	steps []map[string]interface{}
	pc    int
	res   []rec
	stop  bool
	ticks int64 // completed top-level calls (watchdog progress)
	apc   int64 // copy of pc readable by the watchdog
	kept  []held // Key()/Value() answers of the running View session
}

var errAbort = errors.New("verif: callback aborts")

const scanLimit = 64

func errText(err error) string {
	if err == nil {
		return ""
	}
	return err.Error()
}

func (r *runner) cur() map[string]interface{} { return r.steps[r.pc] }
func (r *runner) op() string                  { s, _ := r.cur()["op"].(string); return s }
func (r *runner) key() []byte {
	k, _ := r.cur()["k"].([]interface{})
	return Key(k)
}
func (r *runner) val() []byte {
	v, _ := r.cur()["v"].(string)
	return append([]byte{}, v...)
}
func (r *runner) checked() bool { c, _ := r.cur()["c"].(bool); return c }
func (r *runner) more() bool    { return !r.stop && r.pc < len(r.steps) }
func (r *runner) put(x rec) {
	r.res[r.pc] = x
	atomic.StoreInt64(&r.apc, int64(r.pc+1)) // the call in flight is the one after the last completed
	atomic.AddInt64(&r.ticks, 1)
}

func getRec(v []byte, err error) rec {
	if err != nil {
		return rec{"t": "absent", "err": err.Error()}
	}
	x := rec{"t": "found", "v": string(v)}
	if v == nil {
		x["nil"] = true
	}
	return x
}

func boolRec(b bool) rec {
	if b {
		return rec{"t": "true"}
	}
	return rec{"t": "false"}
}

func okRec(err error) rec {
	if err != nil {
		return rec{"t": "err", "err": err.Error()}
	}
	return rec{"t": "ok"}
}

// held is an answer of Key()/Value() that the caller keeps: the slice as it
// was returned and a private copy of what it held at that moment. An ordered
// map answers with values; an answer that changes when the iterator moves on
// is not the answer the model gave (kvgraph DelVertex collects the keys it
// iterates over and deletes them afterwards).
type held struct {
	got  []byte
	copy string
}

func hold(hs []held, b []byte) []held {
	if len(b) == 0 {
		return hs
	}
	return append(hs, held{got: b, copy: string(b)})
}

// overwritten reports the first kept answer whose bytes changed afterwards.
func overwritten(hs []held) string {
	for _, h := range hs {
		if string(h.got) != h.copy {
			return fmt.Sprintf("returned-buffer-overwritten: a Key()/Value() answer %q reads %q after later iterator moves", h.copy, string(h.got))
		}
	}
	return ""
}

// Scan reads the whole store with a forward iterator.
func Scan(kv kvi.KVInterface) (rows [][]interface{}, note string) {
	rows = [][]interface{}{}
	var kept []held
	defer func() {
		if note == "" {
			note = overwritten(kept)
		}
	}()
	err := kv.View(func(it kvi.KVIterator) error {
		it.Seek([]byte{})
		for it.Valid() {
			if len(rows) >= scanLimit {
				note = "scan does not end"
				return nil
			}
			k := it.Key()
			v, verr := it.Value()
			if verr != nil {
				note = "Value: " + verr.Error()
			}
			rows = append(rows, []interface{}{Unkey(k), string(v)})
			kept = hold(hold(kept, k), v)
			it.Next()
		}
		return nil
	})
	if err != nil {
		note = "View: " + err.Error()
	}
	return rows, note
}

func (r *runner) withScan(x rec) rec {
	rows, note := Scan(r.kv)
	x["scan"] = rows
	if note != "" {
		x["scan_note"] = note
	}
	return x
}

// position reports where the iterator stands after a positioning call.
func position(it kvi.KVIterator, err error) (rec, bool) {
	x := rec{}
	if err != nil {
		x["err"] = err.Error()
	}
	if !it.Valid() {
		x["t"] = "inv"
		return x, false
	}
	x["t"] = "at"
	k := it.Key()
	x["k"] = Unkey(k)
	if k == nil {
		x["nilkey"] = true
	}
	v, verr := it.Value()
	x["v"] = string(v)
	if verr != nil {
		x["verr"] = verr.Error()
	}
	return x, true
}

// keep remembers the answers of the position the iterator stands at.
func (r *runner) keep(it kvi.KVIterator, valid bool) {
	if !valid {
		return
	}
	r.kept = hold(r.kept, it.Key())
	if v, verr := it.Value(); verr == nil {
		r.kept = hold(r.kept, v)
	}
}

// view runs the calls of a View session; it returns when the session ends.
func (r *runner) view(it kvi.KVIterator) error {
	valid := false
	positioned := false
	for r.more() {
		switch r.op() {
		case "Seek":
			var x rec
			x, valid = position(it, it.Seek(r.key()))
			positioned = true
			r.put(x)
			r.keep(it, valid)
		case "SeekReverse":
			var x rec
			x, valid = position(it, it.SeekReverse(r.key()))
			positioned = true
			r.put(x)
			r.keep(it, valid)
		case "Next":
			if !positioned || !valid {
				r.put(rec{"t": "desync", "why": "Next wanted but the driver's iterator is not valid"})
				r.stop = true
				return nil
			}
			var x rec
			x, valid = position(it, it.Next())
			r.put(x)
			r.keep(it, valid)
		case "ItGet":
			r.put(getRec(it.Get(r.key())))
		case "ViewEnd":
			return nil // the answer is recorded by the caller when View has returned
		default:
			r.put(rec{"t": "bad-step", "why": "not a View call: " + r.op()})
			r.stop = true
			return nil
		}
		r.pc++
	}
	return nil
}

// after records the outcome of a session call once View/Update/BulkWrite has
// returned; end names the closing step the callback stopped at.
func (r *runner) after(end string, err error) {
	if r.stop || r.pc >= len(r.steps) {
		return // history ended inside the session (closed with nil) or stopped
	}
	switch r.op() {
	case "ViewEnd":
		x := okRec(err)
		if m := overwritten(r.kept); m != "" && err == nil {
			x = rec{"t": "err", "err": m}
		}
		r.kept = nil
		r.put(x)
	case "Commit", "BulkEnd":
		x := okRec(err)
		if r.checked() {
			x = r.withScan(x)
		}
		r.put(x)
	case "Abort", "BulkAbort":
		// nothing is specified here; what the driver did is recorded for the evidence file
		x := rec{"t": "open", "ret": errText(err), "ret_is_callback_error": errors.Is(err, errAbort)}
		r.put(r.withScan(x))
		r.stop = true
		return
	}
	r.pc++
}

func (r *runner) update(tx kvi.KVTransaction) error {
	for r.more() {
		switch r.op() {
		case "TxGet":
			r.put(getRec(tx.Get(r.key())))
		case "TxHasKey":
			r.put(boolRec(tx.HasKey(r.key())))
		case "TxSet":
			r.put(okRec(tx.Set(r.key(), r.val())))
		case "TxDelete":
			r.put(okRec(tx.Delete(r.key())))
		case "TxView":
			r.put(rec{"t": "ok"})
			r.pc++
			err := tx.View(r.view)
			if r.stop || r.pc >= len(r.steps) {
				return nil
			}
			r.put(okRec(err)) // ViewEnd
		case "Commit":
			return nil
		case "Abort":
			return errAbort
		default:
			r.put(rec{"t": "bad-step", "why": "not an Update call: " + r.op()})
			r.stop = true
			return nil
		}
		r.pc++
	}
	return nil
}

func (r *runner) bulk(bl kvi.KVBulkWrite) error {
	for r.more() {
		switch r.op() {
		case "BulkSet":
			r.put(okRec(bl.Set(r.key(), r.val())))
		case "BulkEnd":
			return nil
		case "BulkAbort":
			return errAbort
		default:
			r.put(rec{"t": "bad-step", "why": "not a BulkWrite call: " + r.op()})
			r.stop = true
			return nil
		}
		r.pc++
	}
	return nil
}

var frameRe = regexp.MustCompile(`(?m)^(github\.com/bmeg/grip/\S+)\([^()]*\)$`)

func site(msg, stack string) string {
	m := frameRe.FindStringSubmatch(stack)
	fr := ""
	if m != nil {
		fr = m[1]
	}
	msg = regexp.MustCompile(`0x[0-9a-f]+`).ReplaceAllString(msg, "0x?")
	if len(msg) > 100 {
		msg = msg[:100]
	}
	return strings.TrimSpace(msg + " @ " + fr)
}

// one executes one top-level call (a session is one top-level call).
func (r *runner) one() {
	defer func() {
		if p := recover(); p != nil {
			st := string(debug.Stack())
			if r.pc < len(r.steps) {
				r.res[r.pc] = rec{"t": "panic", "panic": site(fmt.Sprint(p), st), "stack": st}
			}
			r.stop = true
		}
	}()
	switch r.op() {
	case "Get":
		r.put(getRec(r.kv.Get(r.key())))
	case "HasKey":
		r.put(boolRec(r.kv.HasKey(r.key())))
	case "Set":
		x := okRec(r.kv.Set(r.key(), r.val()))
		if r.checked() {
			x = r.withScan(x)
		}
		r.put(x)
	case "Delete":
		x := okRec(r.kv.Delete(r.key()))
		if r.checked() {
			x = r.withScan(x)
		}
		r.put(x)
	case "DeletePrefix":
		x := okRec(r.kv.DeletePrefix(r.key()))
		if r.checked() {
			x = r.withScan(x)
		}
		r.put(x)
	case "View":
		r.put(rec{"t": "ok"})
		r.pc++
		err := r.kv.View(r.view)
		r.after("ViewEnd", err)
		return
	case "Update":
		r.put(rec{"t": "ok"})
		r.pc++
		err := r.kv.Update(r.update)
		r.after("Commit", err)
		return
	case "Bulk":
		r.put(rec{"t": "ok"})
		r.pc++
		err := r.kv.BulkWrite(r.bulk)
		r.after("BulkEnd", err)
		return
	default:
		r.put(rec{"t": "bad-step", "why": "not a top-level call: " + r.op()})
		r.stop = true
		return
	}
	r.pc++
}

// CallDeadline bounds one top-level call (a whole session counts call by call:
// the clock restarts whenever a call of the history completes).
func CallDeadline() time.Duration {
	if s := os.Getenv("VERIF_KV_CALL_TIMEOUT"); s != "" {
		if d, err := time.ParseDuration(s); err == nil {
			return d
		}
	}
	return 3 * time.Second
}

// Run replays one history on an open store and returns the per-call records
// (nil for calls that were not reached) and the final contents.  The history
// runs on its own goroutine under a watchdog: when no call completes within
// CallDeadline the call in flight is reported as t="hang" and hung=true tells
// the caller that the goroutine (and the store) had to be abandoned.
func Run(kv kvi.KVInterface, steps []map[string]interface{}) (res []rec, final [][]interface{}, finalNote string, hung bool) {
	r := &runner{kv: kv, steps: steps, res: make([]rec, len(steps))}
	var mu sync.Mutex
	done := make(chan struct{})
	var fin [][]interface{}
	var finNote string
	go func() {
		defer close(done)
		for {
			mu.Lock()
			m := r.more()
			mu.Unlock()
			if !m {
				break
			}
			r.one()
			atomic.AddInt64(&r.ticks, 1)
		}
		for _, x := range r.res {
			if x != nil && x["t"] == "panic" {
				return
			}
		}
		defer func() {
			if p := recover(); p != nil {
				finNote = "panic in final scan: " + site(fmt.Sprint(p), string(debug.Stack()))
			}
		}()
		fin, finNote = Scan(kv)
	}()
	dl := CallDeadline()
	last := atomic.LoadInt64(&r.ticks)
	lastT := time.Now()
	tick := time.NewTicker(50 * time.Millisecond)
	defer tick.Stop()
	for {
		select {
		case <-done:
			return r.res, fin, finNote, false
		case <-tick.C:
			if now := atomic.LoadInt64(&r.ticks); now != last {
				last, lastT = now, time.Now()
			} else if time.Since(lastT) > dl {
				// abandon the goroutine: copy what is there
				out := make([]rec, len(r.res))
				copy(out, r.res)
				pc := int(atomic.LoadInt64(&r.apc))
				if pc < len(out) {
					out[pc] = rec{"t": "hang", "after": dl.String()}
				} else {
					return out, nil, "hang in final scan", true
				}
				return out, nil, "", true
			}
		}
	}
}

func stepsOf(raw interface{}) []map[string]interface{} {
	l, _ := raw.([]interface{})
	steps := make([]map[string]interface{}, 0, len(l))
	for _, s := range l {
		m, _ := s.(map[string]interface{})
		steps = append(steps, m)
	}
	return steps
}

// written lists the distinct keys a history writes (from the request, not from the driver).
func written(steps []map[string]interface{}) [][]byte {
	var out [][]byte
	seen := map[string]bool{}
	for _, s := range steps {
		switch s["op"] {
		case "Set", "TxSet", "BulkSet":
			k, _ := s["k"].([]interface{})
			b := Key(k)
			if !seen[string(b)] {
				seen[string(b)] = true
				out = append(out, b)
			}
		}
	}
	return out
}

// Reset brings an open store that was empty before the history back to the
// empty map using the interface itself: Delete of every key the history wrote,
// then a full scan that must be empty.  The concatenation history-1, reset,
// history-2 is itself a history of the interface whose specified state after
// the reset is the empty map.
func Reset(kv kvi.KVInterface, keys [][]byte) (ok bool, note string) {
	defer func() {
		if p := recover(); p != nil {
			ok, note = false, "panic in reset: "+site(fmt.Sprint(p), string(debug.Stack()))
		}
	}()
	for _, k := range keys {
		if err := kv.Delete(k); err != nil {
			return false, fmt.Sprintf("Delete(%v): %v", Unkey(k), err)
		}
	}
	rows, n := Scan(kv)
	if n != "" || len(rows) != 0 {
		return false, fmt.Sprintf("after Delete of every key written the scan returns %v %s", rows, n)
	}
	return true, ""
}

func broken(res []rec, note string) bool {
	if strings.HasPrefix(note, "panic") {
		return true
	}
	for _, x := range res {
		if x != nil && x["t"] == "panic" {
			return true
		}
	}
	return false
}

// Handle replays {"h":[...]} on a fresh store, or {"chain":[[...],[...]]} on one
// store that is reset (see Reset) between the histories; a store on which a
// call panicked or a reset failed is replaced by a fresh one.
func (h *handler) Handle(req map[string]interface{}) interface{} {
	resp := rec{"i": req["i"]}
	// the largest symbol of the alphabet is 'b' or, for behaviours flagged "hi", the largest byte
	if hi, _ := req["hi"].(bool); hi {
		byteOf[2] = 0xff
	} else {
		byteOf[2] = 'b'
	}
	drv, _ := req["drv"].(string)
	resp["drv"] = drv
	var hists [][]map[string]interface{}
	chain, isChain := req["chain"].([]interface{})
	if isChain {
		for _, c := range chain {
			hists = append(hists, stepsOf(c))
		}
	} else {
		hists = append(hists, stepsOf(req["h"]))
	}
	var st *Store
	defer func() {
		if st != nil {
			st.Destroy()
		}
	}()
	outs := make([]rec, 0, len(hists))
	opens := 0
	for _, steps := range hists {
		o := rec{}
		if st == nil {
			var err error
			st, err = Open(drv)
			if err != nil {
				resp["open_err"] = err.Error()
				return resp
			}
			opens++
			o["fresh"] = true
		}
		res, final, note, hung := Run(st.KV, steps)
		o["res"] = res
		o["final"] = final
		if note != "" {
			o["final_note"] = note
		}
		outs = append(outs, o)
		if hung {
			// a goroutine is stuck inside the driver (possibly allocating): answer what
			// is known, then let this worker process die; the supervisor restarts it
			o["hung"] = true
			st = nil
			resp["poisoned"] = true
			go func() {
				time.Sleep(200 * time.Millisecond)
				os.Exit(0)
			}()
			break
		}
		if broken(res, note) {
			st.Destroy()
			st = nil
			continue
		}
		if isChain {
			if ok, rnote := Reset(st.KV, written(steps)); !ok {
				o["reset_failed"] = rnote
				st.Destroy()
				st = nil
			}
		}
	}
	resp["opens"] = opens
	if isChain {
		resp["outs"] = outs
	} else {
		for k, v := range outs[0] {
			resp[k] = v
		}
	}
	return resp
}
