// Package store replays GraphStore.tla behaviours (sequences of mutating calls)
// on a real kvgraph over a real embedded key-value store and reads back, after
// every call, everything the property calls observable - through the public
// gdbi.GraphDB / gdbi.GraphInterface API only.
package store

import (
	"context"
	"fmt"
	"sort"
	"strings"

	"verifharness/gstore"
	"verifharness/sup"
	"verifharness/val"

	"github.com/bmeg/grip/gdbi"
)

var VIDs = []string{"a", "b"}
var ProbeV = []string{"a", "b", "z"}
var ProbeE = []string{"e1", "e2", "e9"}
var LabelOpts = [][]string{{}, {"K1"}, {"K1", "K2"}, {"X"}}
var VLabels = []string{"L1", "L2", "L3", "X"}
var GraphNames = []string{"g1", "g2", "g3"}

type Handler struct {
	Driver string
	St     *gstore.Store
	n      int
	// Wrap lets other families (fault injection) interpose on the store
	Reopen func(h *Handler) error
}

func New() sup.Handler { return &Handler{Driver: "badger"} }

func (h *Handler) Setup(req map[string]interface{}) error {
	if d, ok := req["driver"].(string); ok && d != "" {
		h.Driver = d
	}
	return nil
}

func (h *Handler) Close() {
	if h.St != nil {
		h.St.Destroy()
	}
}

func (h *Handler) fresh() error {
	if h.St != nil && h.n%200 != 0 {
		return nil
	}
	if h.St != nil {
		h.St.Destroy()
	}
	st, err := gstore.Open(h.Driver)
	if err != nil {
		return err
	}
	h.St = st
	return nil
}

// Name maps a spec graph name to the per-behaviour real name.
func Name(prefix, g string) string {
	if strings.ContainsAny(g, " ") || g == "" {
		return g
	}
	// the real names are prefixes of one another (g3 < g1 < g2), so that a key scan or an index
	// clean-up that forgets a terminator shows up as one graph affecting another
	switch g {
	case "g1":
		return prefix + "g1"
	case "g2":
		return prefix + "g1x"
	case "g3":
		return prefix + "g"
	}
	return prefix + g
}

func elemOf(e map[string]interface{}) (kind string, el *gdbi.DataElement) {
	kind, _ = e["k"].(string)
	r, _ := e["r"].(map[string]interface{})
	id, _ := r["id"].(string)
	return kind, gstore.Elem(id, r)
}

// Apply executes one call of the abstract API on db and classifies the result.
func Apply(db gdbi.GraphDB, prefix string, call map[string]interface{}) (res string, msg string) {
	defer func() {
		if r := recover(); r != nil {
			res, msg = "panic", fmt.Sprintf("%v", r)
		}
	}()
	op, _ := call["op"].(string)
	g, _ := call["g"].(string)
	name := Name(prefix, g)
	fail := func(err error) (string, string) {
		if err != nil {
			return "error", err.Error()
		}
		return "ok", ""
	}
	switch op {
	case "AddGraph":
		return fail(db.AddGraph(name))
	case "DeleteGraph":
		return fail(db.DeleteGraph(name))
	}
	gi, err := db.Graph(name)
	if err != nil {
		return "error", err.Error()
	}
	elems, _ := call["elems"].([]interface{})
	switch op {
	case "AddVertex":
		vs := []*gdbi.Vertex{}
		for _, e := range elems {
			_, el := elemOf(e.(map[string]interface{}))
			vs = append(vs, el)
		}
		return fail(gi.AddVertex(vs))
	case "AddEdge":
		es := []*gdbi.Edge{}
		for _, e := range elems {
			_, el := elemOf(e.(map[string]interface{}))
			es = append(es, el)
		}
		return fail(gi.AddEdge(es))
	case "BulkAdd":
		ch := make(chan *gdbi.GraphElement, len(elems)+1)
		for _, e := range elems {
			k, el := elemOf(e.(map[string]interface{}))
			if k == "v" {
				ch <- &gdbi.GraphElement{Graph: name, Vertex: el}
			} else {
				ch <- &gdbi.GraphElement{Graph: name, Edge: el}
			}
		}
		close(ch)
		return fail(gi.BulkAdd(ch))
	case "DelVertex":
		id, _ := call["id"].(string)
		return fail(gi.DelVertex(id))
	case "DelEdge":
		id, _ := call["id"].(string)
		return fail(gi.DelEdge(id))
	case "AddIndex":
		l, _ := call["label"].(string)
		f, _ := call["field"].(string)
		return fail(gi.AddVertexIndex(l, f))
	case "DeleteIndex":
		l, _ := call["label"].(string)
		f, _ := call["field"].(string)
		return fail(gi.DeleteVertexIndex(l, f))
	}
	return "harness", "unknown op " + op
}

func vrec(v *gdbi.Vertex) map[string]interface{} {
	if v == nil {
		return nil
	}
	d := v.Data
	if d == nil {
		d = map[string]interface{}{}
	}
	return map[string]interface{}{"label": v.Label, "data": val.Encode(d)}
}

func erec(e *gdbi.Edge) map[string]interface{} {
	if e == nil {
		return nil
	}
	d := e.Data
	if d == nil {
		d = map[string]interface{}{}
	}
	return map[string]interface{}{"label": e.Label, "from": e.From, "to": e.To, "data": val.Encode(d)}
}

type adjFn func(ctx context.Context, req chan gdbi.ElementLookup, load bool, emitNull bool, labels []string) chan gdbi.ElementLookup

func adjacency(fn adjFn, labels []string, edge bool) map[string][]string {
	out := map[string][]string{}
	req := make(chan gdbi.ElementLookup, len(VIDs))
	for _, v := range VIDs {
		out[v] = []string{}
		t := &gdbi.BaseTraveler{}
		req <- gdbi.ElementLookup{ID: v, Ref: t.AddCurrent(&gdbi.DataElement{ID: v})}
	}
	close(req)
	for r := range fn(context.Background(), req, true, false, labels) {
		src := r.Ref.GetCurrentID()
		if edge {
			if r.Edge == nil {
				out[src] = append(out[src], "<nil>")
			} else {
				out[src] = append(out[src], r.Edge.ID+"|"+r.Edge.Label+"|"+r.Edge.From+"|"+r.Edge.To)
			}
		} else {
			if r.Vertex == nil {
				out[src] = append(out[src], "<nil>")
			} else {
				out[src] = append(out[src], r.Vertex.ID+"|"+r.Vertex.Label)
			}
		}
	}
	for k := range out {
		sort.Strings(out[k])
	}
	return out
}

// ObserveGraph reads everything observable about one graph.
func ObserveGraph(gi gdbi.GraphInterface) (obs map[string]interface{}) {
	obs = map[string]interface{}{}
	defer func() {
		if r := recover(); r != nil {
			obs["panic"] = fmt.Sprintf("%v", r)
		}
	}()
	ctx := context.Background()
	V := map[string]interface{}{}
	dupV := []string{}
	for v := range gi.GetVertexList(ctx, true) {
		if _, ok := V[v.ID]; ok {
			dupV = append(dupV, v.ID)
		}
		V[v.ID] = vrec(v)
	}
	E := map[string]interface{}{}
	dupE := []string{}
	for e := range gi.GetEdgeList(ctx, true) {
		if _, ok := E[e.ID]; ok {
			dupE = append(dupE, e.ID)
		}
		E[e.ID] = erec(e)
	}
	obs["V"], obs["E"], obs["dupV"], obs["dupE"] = V, E, dupV, dupE
	getV := map[string]interface{}{}
	for _, id := range ProbeV {
		getV[id] = vrec(gi.GetVertex(id, true))
	}
	getE := map[string]interface{}{}
	for _, id := range ProbeE {
		getE[id] = erec(gi.GetEdge(id, true))
	}
	obs["getV"], obs["getE"] = getV, getE
	vl, err := gi.ListVertexLabels()
	if err != nil {
		obs["vlabels_err"] = err.Error()
	}
	sort.Strings(vl)
	el, err := gi.ListEdgeLabels()
	if err != nil {
		obs["elabels_err"] = err.Error()
	}
	sort.Strings(el)
	obs["vlabels"], obs["elabels"] = vl, el
	ixl := []string{}
	for i := range gi.GetVertexIndexList() {
		ixl = append(ixl, i.Graph+"|"+i.Label+"|"+i.Field)
	}
	sort.Strings(ixl)
	obs["indices"] = ixl
	by := map[string][]string{}
	for _, l := range VLabels {
		ids := []string{}
		for id := range gi.VertexLabelScan(ctx, l) {
			ids = append(ids, id)
		}
		sort.Strings(ids)
		by[l] = ids
	}
	obs["byLabel"] = by
	adj := []interface{}{}
	for _, ls := range LabelOpts {
		adj = append(adj, map[string]interface{}{
			"outE": adjacency(gi.GetOutEdgeChannel, ls, true),
			"inE":  adjacency(gi.GetInEdgeChannel, ls, true),
			"out":  adjacency(gi.GetOutChannel, ls, false),
			"in":   adjacency(gi.GetInChannel, ls, false),
		})
	}
	obs["adj"] = adj
	return obs
}

// Observe reads the whole store: which graphs exist and everything about each.
func Observe(db gdbi.GraphDB, prefix string) map[string]interface{} {
	out := map[string]interface{}{}
	listed := map[string]bool{}
	for _, g := range db.ListGraphs() {
		listed[g] = true
	}
	for _, g := range GraphNames {
		name := Name(prefix, g)
		gi, err := db.Graph(name)
		if err != nil {
			if listed[name] {
				out[g] = map[string]interface{}{"listed_but_unopenable": err.Error()}
			}
			continue
		}
		o := ObserveGraph(gi)
		o["ts"] = gi.GetTimestamp()
		// index registrations: every listed entry must name the graph it was listed for
		if ixl, ok := o["indices"].([]string); ok {
			short, named := []string{}, true
			for _, e := range ixl {
				t := strings.SplitN(e, "|", 2)
				if t[0] != name {
					named = false
				}
				short = append(short, t[len(t)-1])
			}
			o["indices"], o["indices_named"] = short, named
		}
		o["listed"] = listed[name]
		out[g] = o
	}
	return out
}

// RunHistory replays one behaviour and returns per-step results.
func RunHistory(db gdbi.GraphDB, prefix string, hist []interface{}) []interface{} {
	steps := []interface{}{}
	before := Observe(db, prefix)
	for _, hs := range hist {
		call, _ := hs.(map[string]interface{})["call"].(map[string]interface{})
		res, msg := Apply(db, prefix, call)
		after := Observe(db, prefix)
		ts := map[string]interface{}{}
		for _, g := range GraphNames {
			b, ok1 := before[g].(map[string]interface{})
			a, ok2 := after[g].(map[string]interface{})
			if ok1 && ok2 {
				ts[g] = b["ts"] != a["ts"]
			}
		}
		steps = append(steps, map[string]interface{}{"res": res, "msg": msg, "obs": after, "tsChanged": ts})
		before = after
	}
	return steps
}

func (h *Handler) Handle(req map[string]interface{}) interface{} {
	resp := map[string]interface{}{"i": req["i"]}
	if err := h.fresh(); err != nil {
		resp["harness_err"] = err.Error()
		return resp
	}
	h.n++
	prefix := fmt.Sprintf("h%vx", req["i"])
	hist, _ := req["hist"].([]interface{})
	resp["steps"] = RunHistory(h.St.DB, prefix, hist)
	// leave the store small for the next behaviour
	for _, g := range GraphNames {
		func() {
			defer func() { recover() }()
			h.St.DB.DeleteGraph(Name(prefix, g))
		}()
	}
	return resp
}
