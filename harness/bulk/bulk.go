// Package bulk replays the element streams printed by spec/bulk/BulkLoad.tla on
// the real bulk-load paths of grip (C18) and sends the edit requests printed by
// spec/bulk/EditRequests.tla to the in-process server handlers (C06 clause g).
//
// Targets of a stream request:
//
//	server        GripServer.BulkAdd, entered through the generated stream handler
//	              of gripql.Edit_ServiceDesc with an in-process grpc.ServerStream
//	server+filter the same behind accounts.Config.StreamInterceptor() (BasicAuth +
//	              casbin policy, i.e. behind accounts.BulkWriteFilter)
//	kvgraph       kvgraph's BulkAdd(chan) per addressed existing graph
//	streambatch   util.StreamBatch with kvgraph AddVertex/AddEdge as sinks
//	sequential    the elements one at a time through GripServer.AddVertex/AddEdge
//
// Every target works on its own freshly created graphs (created through the
// server's AddGraph, initial content from the specification) and is followed by
// harness/store.Observe of all graphs. A panic on the request goroutine is
// recovered and reported as a crash with its site (the gRPC server has no
// recovery handler: in production it terminates the process); a panic on any
// other goroutine kills the worker and is reported by the supervisor.
package bulk

import (
	"context"
	"encoding/base64"
	"fmt"
	"io"
	"os"
	"path/filepath"
	"runtime"
	"runtime/debug"
	"strings"
	"sync"
	"time"

	"verifharness/gstore"
	"verifharness/store"
	"verifharness/sup"
	"verifharness/val"

	"github.com/bmeg/grip/accounts"
	"github.com/bmeg/grip/config"
	"github.com/bmeg/grip/gdbi"
	"github.com/bmeg/grip/gripql"
	"github.com/bmeg/grip/log"
	"github.com/bmeg/grip/server"
	"github.com/bmeg/grip/util"
	"google.golang.org/grpc"
	"google.golang.org/grpc/metadata"
	"google.golang.org/protobuf/proto"
	"google.golang.org/protobuf/types/known/structpb"
)

const casbinModel = `[request_definition]
r = sub, obj, act

[policy_definition]
p = sub, obj, act

[policy_effect]
e = some(where (p.eft == allow))

[matchers]
m = r.sub == p.sub && (r.obj == p.obj || p.obj ==  "*") && (r.act == p.act || p.act == "*") || r.sub == "root"
`

// ---------------------------------------------------------------- gate
// gateDB lets a request impose the order in which the consumer goroutines of one
// BulkAdd call run graph.BulkAdd: the k-th graph handle the server obtains during
// the call belongs to consumer k; its BulkAdd waits until the consumers that the
// schedule puts before it have finished (or a grace period has passed - so that a
// server that serialises its consumers is merely slowed down, never blocked).
type gateDB struct {
	gdbi.GraphDB
	mu    sync.Mutex
	armed bool
	next  int
	order []int // consumer numbers (1-based) in the order in which they shall commit
	done  map[int]chan struct{}
	grace time.Duration
}

type gateGraph struct {
	gdbi.GraphInterface
	db *gateDB
	k  int
}

func (g *gateDB) arm(order []int) {
	g.mu.Lock()
	g.armed, g.next, g.order = true, 0, order
	g.done = map[int]chan struct{}{}
	for _, k := range order {
		g.done[k] = make(chan struct{})
	}
	g.mu.Unlock()
}

func (g *gateDB) disarm() {
	g.mu.Lock()
	g.armed = false
	g.mu.Unlock()
}

func (g *gateDB) Graph(name string) (gdbi.GraphInterface, error) {
	gi, err := g.GraphDB.Graph(name)
	if err != nil {
		return gi, err
	}
	g.mu.Lock()
	defer g.mu.Unlock()
	if !g.armed {
		return gi, nil
	}
	g.next++
	return &gateGraph{GraphInterface: gi, db: g, k: g.next}, nil
}

func (gg *gateGraph) BulkAdd(stream <-chan *gdbi.GraphElement) error {
	g := gg.db
	g.mu.Lock()
	var before []chan struct{}
	mine := g.done[gg.k]
	for _, k := range g.order {
		if k == gg.k {
			break
		}
		before = append(before, g.done[k])
	}
	grace := g.grace
	g.mu.Unlock()
	deadline := make(chan struct{})
	timer := time.AfterFunc(grace, func() { close(deadline) })
	defer timer.Stop()
	for _, c := range before {
		select {
		case <-c:
		case <-deadline:
		}
	}
	err := gg.GraphInterface.BulkAdd(stream)
	if mine != nil {
		close(mine)
	}
	return err
}

// ---------------------------------------------------------------- late start
// lateStart delays every consumer goroutine of server.BulkAdd at its first
// statement (the Info line "BulkAdd: streaming elements to graph"), i.e. before
// it calls graph.BulkAdd: the schedule in which the goroutines the loop spawns
// get to run only after the loop has moved on. It is a logrus hook on grip's
// logger (output discarded); it does nothing unless a request arms it.
var lateStart struct {
	mu    sync.Mutex
	delay time.Duration
}

type logHook[L any] struct{ levels []L }

func (h logHook[L]) Levels() []L { return h.levels }
func (h logHook[L]) Fire(e *log.Entry) error {
	if e.Message == "BulkAdd: streaming elements to graph" {
		lateStart.mu.Lock()
		d := lateStart.delay
		lateStart.mu.Unlock()
		if d > 0 {
			time.Sleep(d)
		}
	}
	return nil
}

func mkHook[L any](l L) logHook[L] { return logHook[L]{levels: []L{l}} }

func installLateStartHook() {
	l := log.GetLogger()
	l.SetOutput(io.Discard)
	l.SetLevel(log.InfoLevel)
	l.AddHook(mkHook(log.InfoLevel))
}

// ---------------------------------------------------------------- in-process streams
type fakeBulkStream struct {
	ctx    context.Context
	elems  []*gripql.GraphElement
	pos    int
	result *gripql.BulkEditResult
}

func (f *fakeBulkStream) SetHeader(metadata.MD) error  { return nil }
func (f *fakeBulkStream) SendHeader(metadata.MD) error { return nil }
func (f *fakeBulkStream) SetTrailer(metadata.MD)       {}
func (f *fakeBulkStream) Context() context.Context     { return f.ctx }
func (f *fakeBulkStream) SendMsg(m interface{}) error {
	if r, ok := m.(*gripql.BulkEditResult); ok {
		f.result = r
	}
	return nil
}
func (f *fakeBulkStream) RecvMsg(m interface{}) error {
	if f.pos >= len(f.elems) {
		return io.EOF
	}
	dst := m.(proto.Message)
	proto.Reset(dst)
	proto.Merge(dst, f.elems[f.pos])
	f.pos++
	return nil
}

type fakeTraversalStream struct {
	ctx context.Context
	n   int
}

func (f *fakeTraversalStream) SetHeader(metadata.MD) error    { return nil }
func (f *fakeTraversalStream) SendHeader(metadata.MD) error   { return nil }
func (f *fakeTraversalStream) SetTrailer(metadata.MD)         {}
func (f *fakeTraversalStream) Context() context.Context       { return f.ctx }
func (f *fakeTraversalStream) SendMsg(m interface{}) error    { return nil }
func (f *fakeTraversalStream) RecvMsg(m interface{}) error    { return io.EOF }
func (f *fakeTraversalStream) Send(*gripql.QueryResult) error { f.n++; return nil }

func bulkAddHandler() grpc.StreamHandler {
	for _, sd := range gripql.Edit_ServiceDesc.Streams {
		if sd.StreamName == "BulkAdd" {
			return sd.Handler
		}
	}
	panic("gripql.Edit_ServiceDesc has no BulkAdd stream")
}

// ---------------------------------------------------------------- handler
type Handler struct {
	st    *gstore.Store
	gate  *gateDB
	srv   *server.GripServer
	dir   string
	init  map[string]interface{} // spec InitStore: graph -> {V, E}
	n     int
	dirty int
}

var hookOnce sync.Once

func New() sup.Handler {
	hookOnce.Do(installLateStartHook)
	return &Handler{}
}

func (h *Handler) Setup(req map[string]interface{}) error {
	if m, ok := req["init"].(map[string]interface{}); ok {
		h.init = m
	}
	return nil
}

func (h *Handler) Close() {
	if h.st != nil {
		h.st.Destroy()
	}
	if h.dir != "" {
		os.RemoveAll(h.dir)
	}
}

func (h *Handler) fresh() error {
	if h.st != nil && h.n%150 != 0 && h.dirty < 20 {
		return nil
	}
	if h.st != nil && h.dirty > 0 {
		// goroutines of calls that panicked or blocked may still hold the store: closing it under them
		// would make THEM panic during a later request. Leave instead (no Go panic): the supervisor
		// retries the request in flight on a fresh worker.
		os.Exit(3)
	}
	if h.st != nil {
		h.st.Destroy()
		os.RemoveAll(h.dir)
	}
	h.dirty = 0
	st, err := gstore.Open("badger")
	if err != nil {
		return err
	}
	dir, err := os.MkdirTemp("", "vbulk_")
	if err != nil {
		return err
	}
	h.st, h.dir = st, dir
	h.gate = &gateDB{GraphDB: st.DB, grace: 400 * time.Millisecond}
	conf := config.DefaultConfig()
	conf.Server.WorkDir = filepath.Join(dir, "work")
	conf.Default = "kv"
	srv, err := server.NewGripServer(conf, dir, map[string]gdbi.GraphDB{"kv": h.gate})
	if err != nil {
		return err
	}
	h.srv = srv
	return nil
}

func structOf(rec map[string]interface{}) *structpb.Struct {
	d, ok := rec["data"].([]interface{})
	if !ok || len(d) != 2 {
		return nil
	}
	s, err := structpb.NewStruct(val.DecodeMap(d[1]))
	if err != nil {
		panic(err)
	}
	return s
}

func str(m map[string]interface{}, k string) string { s, _ := m[k].(string); return s }

// wireElem converts a spec element [g, k, r] to the wire message.
func wireElem(prefix string, e map[string]interface{}) *gripql.GraphElement {
	g := store.Name(prefix, str(e, "g"))
	r, _ := e["r"].(map[string]interface{})
	ge := &gripql.GraphElement{Graph: g}
	switch str(e, "k") {
	case "v":
		ge.Vertex = &gripql.Vertex{Gid: str(r, "id"), Label: str(r, "label"), Data: structOf(r)}
	case "e":
		ge.Edge = &gripql.Edge{Gid: str(r, "id"), Label: str(r, "label"), From: str(r, "from"), To: str(r, "to"), Data: structOf(r)}
	}
	return ge
}

// unstorable gives an element that fails validation for a blank id, label or endpoint the other concrete shape of
// "invalid": everything filled in, but data that the store cannot encode. An element that is invalid for another
// reason, or valid, is left as it is.
func unstorable(ge *gdbi.GraphElement) {
	bad := map[string]interface{}{"tags": []string{"x", "y"}}
	if v := ge.Vertex; v != nil && (v.ID == "" || v.Label == "") {
		v.ID, v.Label, v.Data = "uu", "UU", bad
	}
	if e := ge.Edge; e != nil && (e.ID == "" || e.Label == "" || e.From == "" || e.To == "") {
		e.ID, e.Label, e.From, e.To, e.Data = "ue", "UK", "a", "b", bad
	}
}

// setupGraphs creates the initial store of the specification under `prefix`, through the server.
func (h *Handler) setupGraphs(prefix string) error {
	ctx := context.Background()
	for _, g := range val.Keys(h.init) {
		name := store.Name(prefix, g)
		if _, err := h.srv.AddGraph(ctx, &gripql.GraphID{Graph: name}); err != nil {
			return fmt.Errorf("AddGraph %s: %v", name, err)
		}
		G, _ := h.init[g].(map[string]interface{})
		if V, ok := G["V"].(map[string]interface{}); ok {
			for _, id := range val.Keys(V) {
				rec := V[id].(map[string]interface{})
				v := &gripql.Vertex{Gid: id, Label: str(rec, "label"), Data: structOf(rec)}
				if _, err := h.srv.AddVertex(ctx, &gripql.GraphElement{Graph: name, Vertex: v}); err != nil {
					return fmt.Errorf("AddVertex %s: %v", id, err)
				}
			}
		}
		if E, ok := G["E"].(map[string]interface{}); ok {
			for _, id := range val.Keys(E) {
				rec := E[id].(map[string]interface{})
				e := &gripql.Edge{Gid: id, Label: str(rec, "label"), From: str(rec, "from"), To: str(rec, "to"), Data: structOf(rec)}
				if _, err := h.srv.AddEdge(ctx, &gripql.GraphElement{Graph: name, Edge: e}); err != nil {
					return fmt.Errorf("AddEdge %s: %v", id, err)
				}
			}
		}
	}
	return nil
}

// site extracts "panic message @ first grip frame" from a recovered panic.
func site(r interface{}, stack string) string {
	if i := strings.Index(stack, "\npanic("); i >= 0 {
		stack = stack[i:]
	}
	return sup.Site(fmt.Sprintf("panic: %v\n%s", r, stack))
}

// guarded runs f on its own goroutine (the request goroutine); a panic is recovered and
// reported, a call that does not return within the deadline is reported as blocked.
func guarded(deadline time.Duration, f func()) (crash string, trace string, hang string) {
	type res struct{ crash, trace string }
	ch := make(chan res, 1)
	go func() {
		defer func() {
			if r := recover(); r != nil {
				st := string(debug.Stack())
				ch <- res{site(r, st), fmt.Sprintf("panic: %v\n%s", r, st)}
				return
			}
			ch <- res{}
		}()
		f()
	}()
	select {
	case r := <-ch:
		return r.crash, r.trace, ""
	case <-time.After(deadline):
		buf := make([]byte, 1<<20)
		buf = buf[:runtime.Stack(buf, true)]
		return "", string(buf), blockedSite(string(buf))
	}
}

// blockedSite names the state and the first grip frame of the goroutine that is stuck inside the server.
func blockedSite(dump string) string {
	for _, g := range strings.Split(dump, "\n\n") {
		if !strings.Contains(g, "github.com/bmeg/grip/server.") {
			continue
		}
		head := strings.SplitN(g, "\n", 2)[0]
		state := ""
		if a, b := strings.Index(head, "["), strings.Index(head, "]"); a >= 0 && b > a {
			state = strings.Split(head[a+1:b], ",")[0]
		}
		for _, l := range strings.Split(g, "\n") {
			if strings.HasPrefix(l, "github.com/bmeg/grip/") {
				if p := strings.LastIndex(l, "("); p > 0 {
					l = l[:p]
				}
				return state + " @ " + l
			}
		}
	}
	return "blocked"
}

func (h *Handler) interceptor(prefix string, writable []interface{}, idx interface{}) (grpc.StreamServerInterceptor, context.Context, error) {
	mp := filepath.Join(h.dir, fmt.Sprintf("model_%v.conf", idx))
	pp := filepath.Join(h.dir, fmt.Sprintf("policy_%v.csv", idx))
	var sb strings.Builder
	for _, w := range writable {
		g, _ := w.(string)
		if g == "*" {
			sb.WriteString("p, loader, *, write\n")
		} else if g != "" {
			fmt.Fprintf(&sb, "p, loader, %s, write\n", store.Name(prefix, g))
		}
	}
	if err := os.WriteFile(mp, []byte(casbinModel), 0600); err != nil {
		return nil, nil, err
	}
	if err := os.WriteFile(pp, []byte(sb.String()), 0600); err != nil {
		return nil, nil, err
	}
	ba := accounts.BasicAuth{accounts.BasicCredential{User: "loader", Password: "pw"}}
	cfg := accounts.Config{Auth: &accounts.AuthConfig{Basic: &ba},
		Access: &accounts.AccessConfig{Casbin: &accounts.CasbinAccess{Model: mp, Policy: pp}}}
	md := metadata.MD{"authorization": []string{"Basic " + base64.StdEncoding.EncodeToString([]byte("loader:pw"))}}
	return cfg.StreamInterceptor(), metadata.NewIncomingContext(context.Background(), md), nil
}

func intsOf(v interface{}) []int {
	out := []int{}
	l, _ := v.([]interface{})
	for _, x := range l {
		if f, ok := x.(float64); ok {
			out = append(out, int(f))
		}
	}
	return out
}

func errCount(err error) int {
	if err == nil {
		return 0
	}
	if me, ok := err.(interface{ WrappedErrors() []error }); ok {
		return len(me.WrappedErrors())
	}
	return 1
}

// runStream executes one stream on one target; resp receives counts / errors.
func (h *Handler) runStream(req map[string]interface{}, prefix string, resp map[string]interface{}) {
	target := str(req, "target")
	elems, _ := req["stream"].([]interface{})
	ctx := context.Background()
	switch target {
	case "server", "server+filter":
		wire := []*gripql.GraphElement{}
		for _, e := range elems {
			wire = append(wire, wireElem(prefix, e.(map[string]interface{})))
		}
		ss := &fakeBulkStream{ctx: ctx, elems: wire}
		handler := bulkAddHandler()
		call := func() error { return handler(h.srv, ss) }
		if target == "server+filter" {
			writable, _ := req["writable"].([]interface{})
			inter, ictx, err := h.interceptor(prefix, writable, req["i"])
			if err != nil {
				resp["harness_err"] = err.Error()
				return
			}
			ss.ctx = ictx
			info := &grpc.StreamServerInfo{FullMethod: "/gripql.Edit/BulkAdd", IsClientStream: true}
			call = func() error { return inter(h.srv, ss, info, handler) }
		}
		if order := intsOf(req["order"]); len(order) > 0 {
			h.gate.arm(order)
			defer h.gate.disarm()
		}
		if late, _ := req["late"].(bool); late {
			lateStart.mu.Lock()
			lateStart.delay = 60 * time.Millisecond
			lateStart.mu.Unlock()
			defer func() {
				lateStart.mu.Lock()
				lateStart.delay = 0
				lateStart.mu.Unlock()
			}()
		}
		var err error
		crash, trace, hang := guarded(8*time.Second, func() { err = call() })
		if crash != "" {
			resp["crash"], resp["trace"] = crash, trace
			h.dirty++
			return
		}
		if hang != "" {
			resp["hang"], resp["trace"] = hang, trace
			h.dirty += 20
			return
		}
		if err != nil {
			resp["err"] = err.Error()
		}
		if ss.result != nil {
			resp["ins"], resp["errs"] = ss.result.InsertCount, ss.result.ErrorCount
		} else {
			resp["noresult"] = true
		}
	case "kvgraph":
		errs := map[string]interface{}{}
		for _, g := range val.Keys(h.init) {
			name := store.Name(prefix, g)
			gi, err := h.st.DB.Graph(name)
			if err != nil {
				resp["harness_err"] = err.Error()
				return
			}
			ch := make(chan *gdbi.GraphElement, len(elems)+1)
			for _, e := range elems {
				em := e.(map[string]interface{})
				if str(em, "g") == g {
					ge := gdbi.NewGraphElement(wireElem(prefix, em))
					if u, _ := req["unstorable"].(bool); u {
						unstorable(ge)
					}
					ch <- ge
				}
			}
			close(ch)
			var berr error
			crash, trace, hang := guarded(20*time.Second, func() { berr = gi.BulkAdd(ch) })
			if crash != "" || hang != "" {
				resp["crash"], resp["hang"], resp["trace"] = crash, hang, trace
				h.dirty += 20
				return
			}
			errs[g] = errCount(berr)
		}
		resp["graph_errs"] = errs
	case "streambatch":
		g, _ := req["graph"].(string)
		bs := 50
		if f, ok := req["batch"].(float64); ok {
			bs = int(f)
		}
		name := store.Name(prefix, g)
		gi, err := h.st.DB.Graph(name)
		if err != nil {
			resp["harness_err"] = err.Error()
			return
		}
		ch := make(chan *gdbi.GraphElement, len(elems)+1)
		for _, e := range elems {
			ch <- gdbi.NewGraphElement(wireElem(prefix, e.(map[string]interface{})))
		}
		close(ch)
		var berr error
		crash, trace, hang := guarded(20*time.Second, func() { berr = util.StreamBatch(ch, bs, name, gi.AddVertex, gi.AddEdge) })
		if crash != "" || hang != "" {
			resp["crash"], resp["hang"], resp["trace"] = crash, hang, trace
			h.dirty += 20
			return
		}
		resp["nerr"] = errCount(berr)
		if berr != nil {
			resp["err"] = berr.Error()
		}
	case "sequential":
		results := []interface{}{}
		for _, e := range elems {
			em := e.(map[string]interface{})
			ge := wireElem(prefix, em)
			var err error
			var crash, trace, hang string
			switch str(em, "k") {
			case "v":
				crash, trace, hang = guarded(20*time.Second, func() { _, err = h.srv.AddVertex(ctx, ge) })
			case "e":
				crash, trace, hang = guarded(20*time.Second, func() { _, err = h.srv.AddEdge(ctx, ge) })
			default:
				results = append(results, "skip")
				continue
			}
			if crash != "" || hang != "" {
				resp["crash"], resp["hang"], resp["trace"] = crash, hang, trace
				h.dirty += 20
				return
			}
			if err != nil {
				results = append(results, "error")
			} else {
				results = append(results, "ok")
			}
		}
		resp["results"] = results
	default:
		resp["harness_err"] = "unknown target " + target
	}
}

func (h *Handler) Handle(req map[string]interface{}) interface{} {
	resp := map[string]interface{}{"i": req["i"]}
	if err := h.fresh(); err != nil {
		resp["harness_err"] = err.Error()
		return resp
	}
	h.n++
	switch str(req, "kind") {
	case "stream":
		attempts := 1
		for {
			prefix := fmt.Sprintf("h%vx%dx", req["i"], attempts)
			t0 := time.Now()
			if err := h.setupGraphs(prefix); err != nil {
				resp["harness_err"] = "setup: " + err.Error()
				return resp
			}
			t1 := time.Now()
			delete(resp, "hang")
			h.runStream(req, prefix, resp)
			t2 := time.Now()
			if os.Getenv("VERIF_BULK_TIMING") != "" {
				defer func() {
					fmt.Fprintf(os.Stderr, "timing setup=%v run=%v rest=%v\n", t1.Sub(t0), t2.Sub(t1), time.Since(t2))
				}()
			}
			if _, hung := resp["hang"]; hung && attempts < 2 && resp["hang"] != "" {
				// a missed deadline is reported only if it reproduces
				attempts++
				continue
			}
			if resp["hang"] == "" {
				delete(resp, "hang")
			}
			if resp["crash"] == "" {
				delete(resp, "crash")
			}
			resp["obs"] = store.Observe(h.st.DB, prefix)
			return resp // the graphs stay: the store is replaced every 150 requests
		}
	case "edit":
		prefix := fmt.Sprintf("h%vx", req["i"])
		if err := h.setupGraphs(prefix); err != nil {
			resp["harness_err"] = "setup: " + err.Error()
			return resp
		}
		r, _ := req["req"].(map[string]interface{})
		h.runEdit(r, prefix, resp)
		return resp
	}
	resp["harness_err"] = "unknown kind"
	return resp
}
