package bulk

import (
	"context"
	"time"

	"verifharness/store"

	"github.com/bmeg/grip/gripql"
	"google.golang.org/protobuf/types/known/structpb"
)

// shapeElem builds a GraphElement of one of the payload shapes of EditRequests.tla.
func shapeElem(graph, shape string) *gripql.GraphElement {
	data, _ := structpb.NewStruct(map[string]interface{}{"x": 1.0})
	ge := &gripql.GraphElement{Graph: graph}
	v := &gripql.Vertex{Gid: "q", Label: "L1", Data: data}
	e := &gripql.Edge{Gid: "qe", Label: "K1", From: "b", To: "q", Data: data}
	switch shape {
	case "vertex":
		ge.Vertex = v
	case "edge":
		ge.Edge = e
	case "both":
		ge.Vertex, ge.Edge = v, e
	case "vertex-nodata":
		v.Data = nil
		ge.Vertex = v
	case "edge-nodata":
		e.Data = nil
		ge.Edge = e
	case "vertex-blank":
		ge.Vertex = &gripql.Vertex{}
	case "edge-blank":
		ge.Edge = &gripql.Edge{}
	case "neither":
	}
	return ge
}

// runEdit sends one request of EditRequests.tla to the server handler it names.
func (h *Handler) runEdit(r map[string]interface{}, prefix string, resp map[string]interface{}) {
	ctx := context.Background()
	op := str(r, "op")
	name := store.Name(prefix, str(r, "g"))
	var err error
	var call func()
	switch op {
	case "AddVertex":
		call = func() { _, err = h.srv.AddVertex(ctx, shapeElem(name, str(r, "shape"))) }
	case "AddEdge":
		call = func() { _, err = h.srv.AddEdge(ctx, shapeElem(name, str(r, "shape"))) }
	case "BulkAdd":
		wire := []*gripql.GraphElement{}
		l, _ := r["elems"].([]interface{})
		for _, x := range l {
			m := x.(map[string]interface{})
			wire = append(wire, shapeElem(store.Name(prefix, str(m, "g")), str(m, "shape")))
		}
		ss := &fakeBulkStream{ctx: ctx, elems: wire}
		handler := bulkAddHandler()
		call = func() { err = handler(h.srv, ss) }
	case "DeleteVertex":
		call = func() { _, err = h.srv.DeleteVertex(ctx, &gripql.ElementID{Graph: name, Id: str(r, "id")}) }
	case "DeleteEdge":
		call = func() { _, err = h.srv.DeleteEdge(ctx, &gripql.ElementID{Graph: name, Id: str(r, "id")}) }
	case "GetVertex":
		call = func() { _, err = h.srv.GetVertex(ctx, &gripql.ElementID{Graph: name, Id: str(r, "id")}) }
	case "GetEdge":
		call = func() { _, err = h.srv.GetEdge(ctx, &gripql.ElementID{Graph: name, Id: str(r, "id")}) }
	case "AddIndex":
		call = func() {
			_, err = h.srv.AddIndex(ctx, &gripql.IndexID{Graph: name, Label: str(r, "label"), Field: str(r, "field")})
		}
	case "DeleteIndex":
		call = func() {
			_, err = h.srv.DeleteIndex(ctx, &gripql.IndexID{Graph: name, Label: str(r, "label"), Field: str(r, "field")})
		}
	case "Traversal":
		q := &gripql.GraphQuery{Graph: name, Query: gripql.NewQuery().V().Count().Statements}
		call = func() { err = h.srv.Traversal(q, &fakeTraversalStream{ctx: ctx}) }
	case "TraversalEmpty":
		q := &gripql.GraphQuery{Graph: name}
		call = func() { err = h.srv.Traversal(q, &fakeTraversalStream{ctx: ctx}) }
	case "ListIndices":
		call = func() { _, err = h.srv.ListIndices(ctx, &gripql.GraphID{Graph: name}) }
	case "ListLabels":
		call = func() { _, err = h.srv.ListLabels(ctx, &gripql.GraphID{Graph: name}) }
	case "GetTimestamp":
		call = func() { _, err = h.srv.GetTimestamp(ctx, &gripql.GraphID{Graph: name}) }
	default:
		resp["harness_err"] = "unknown op " + op
		return
	}
	crash, trace, hang := guarded(10*time.Second, call)
	switch {
	case crash != "":
		resp["crash"], resp["trace"] = crash, trace
		h.dirty++
	case hang != "":
		resp["hang"], resp["trace"] = hang, trace
		h.dirty += 20
	case err != nil:
		resp["outcome"], resp["msg"] = "error", err.Error()
	default:
		resp["outcome"] = "ok"
	}
	// the server keeps serving: a lookup on the existing graph still answers
	var perr error
	c2, _, h2 := guarded(10*time.Second, func() { _, perr = h.srv.GetVertex(ctx, &gripql.ElementID{Graph: store.Name(prefix, "g1"), Id: "b"}) })
	resp["probe_ok"] = c2 == "" && h2 == "" && perr == nil
}
