package authz

import (
	"context"
	"io"

	"github.com/bmeg/grip/gripql"
)

// Stub implementations of the four services. Their only effect is to emit
// HandlerRan (and ElemForwarded for every element BulkAdd receives); every
// handler answers successfully so that a refusal can only come from the
// interceptors in front of it. Server streams send one message, which lets the
// client tell "data returned" from "no data".

type queryStub struct {
	gripql.UnimplementedQueryServer
	r *recorder
}

func (s *queryStub) Traversal(q *gripql.GraphQuery, out gripql.Query_TraversalServer) error {
	s.r.ran()
	return out.Send(&gripql.QueryResult{})
}
func (s *queryStub) GetVertex(context.Context, *gripql.ElementID) (*gripql.Vertex, error) {
	s.r.ran()
	return &gripql.Vertex{}, nil
}
func (s *queryStub) GetEdge(context.Context, *gripql.ElementID) (*gripql.Edge, error) {
	s.r.ran()
	return &gripql.Edge{}, nil
}
func (s *queryStub) GetTimestamp(context.Context, *gripql.GraphID) (*gripql.Timestamp, error) {
	s.r.ran()
	return &gripql.Timestamp{}, nil
}
func (s *queryStub) GetSchema(context.Context, *gripql.GraphID) (*gripql.Graph, error) {
	s.r.ran()
	return &gripql.Graph{}, nil
}
func (s *queryStub) GetMapping(context.Context, *gripql.GraphID) (*gripql.Graph, error) {
	s.r.ran()
	return &gripql.Graph{}, nil
}
func (s *queryStub) ListGraphs(context.Context, *gripql.Empty) (*gripql.ListGraphsResponse, error) {
	s.r.ran()
	return &gripql.ListGraphsResponse{}, nil
}
func (s *queryStub) ListIndices(context.Context, *gripql.GraphID) (*gripql.ListIndicesResponse, error) {
	s.r.ran()
	return &gripql.ListIndicesResponse{}, nil
}
func (s *queryStub) ListLabels(context.Context, *gripql.GraphID) (*gripql.ListLabelsResponse, error) {
	s.r.ran()
	return &gripql.ListLabelsResponse{}, nil
}
func (s *queryStub) ListTables(e *gripql.Empty, out gripql.Query_ListTablesServer) error {
	s.r.ran()
	return out.Send(&gripql.TableInfo{})
}

type jobStub struct {
	gripql.UnimplementedJobServer
	r *recorder
}

func (s *jobStub) Submit(context.Context, *gripql.GraphQuery) (*gripql.QueryJob, error) {
	s.r.ran()
	return &gripql.QueryJob{}, nil
}
func (s *jobStub) ListJobs(g *gripql.GraphID, out gripql.Job_ListJobsServer) error {
	s.r.ran()
	return out.Send(&gripql.QueryJob{})
}
func (s *jobStub) SearchJobs(q *gripql.GraphQuery, out gripql.Job_SearchJobsServer) error {
	s.r.ran()
	return out.Send(&gripql.JobStatus{})
}
func (s *jobStub) DeleteJob(context.Context, *gripql.QueryJob) (*gripql.JobStatus, error) {
	s.r.ran()
	return &gripql.JobStatus{}, nil
}
func (s *jobStub) GetJob(context.Context, *gripql.QueryJob) (*gripql.JobStatus, error) {
	s.r.ran()
	return &gripql.JobStatus{}, nil
}
func (s *jobStub) ViewJob(j *gripql.QueryJob, out gripql.Job_ViewJobServer) error {
	s.r.ran()
	return out.Send(&gripql.QueryResult{})
}
func (s *jobStub) ResumeJob(q *gripql.ExtendQuery, out gripql.Job_ResumeJobServer) error {
	s.r.ran()
	return out.Send(&gripql.QueryResult{})
}

type editStub struct {
	gripql.UnimplementedEditServer
	r *recorder
}

func (s *editStub) ok() (*gripql.EditResult, error) {
	s.r.ran()
	return &gripql.EditResult{}, nil
}
func (s *editStub) AddVertex(context.Context, *gripql.GraphElement) (*gripql.EditResult, error) {
	return s.ok()
}
func (s *editStub) AddEdge(context.Context, *gripql.GraphElement) (*gripql.EditResult, error) {
	return s.ok()
}
func (s *editStub) BulkAdd(in gripql.Edit_BulkAddServer) error {
	s.r.ran()
	n := int32(0)
	for {
		el, err := in.Recv()
		if err == io.EOF {
			break
		}
		if err != nil {
			return err
		}
		n++
		s.r.add(event{E: "ElemForwarded", G: el.Graph})
	}
	s.r.markAnswered()
	return in.SendAndClose(&gripql.BulkEditResult{InsertCount: n})
}
func (s *editStub) AddGraph(context.Context, *gripql.GraphID) (*gripql.EditResult, error) {
	return s.ok()
}
func (s *editStub) DeleteGraph(context.Context, *gripql.GraphID) (*gripql.EditResult, error) {
	return s.ok()
}
func (s *editStub) DeleteVertex(context.Context, *gripql.ElementID) (*gripql.EditResult, error) {
	return s.ok()
}
func (s *editStub) DeleteEdge(context.Context, *gripql.ElementID) (*gripql.EditResult, error) {
	return s.ok()
}
func (s *editStub) AddIndex(context.Context, *gripql.IndexID) (*gripql.EditResult, error) {
	return s.ok()
}
func (s *editStub) DeleteIndex(context.Context, *gripql.IndexID) (*gripql.EditResult, error) {
	return s.ok()
}
func (s *editStub) AddSchema(context.Context, *gripql.Graph) (*gripql.EditResult, error) {
	return s.ok()
}
func (s *editStub) SampleSchema(context.Context, *gripql.GraphID) (*gripql.Graph, error) {
	s.r.ran()
	return &gripql.Graph{}, nil
}
func (s *editStub) AddMapping(context.Context, *gripql.Graph) (*gripql.EditResult, error) {
	return s.ok()
}

type confStub struct {
	gripql.UnimplementedConfigureServer
	r *recorder
}

func (s *confStub) StartPlugin(context.Context, *gripql.PluginConfig) (*gripql.PluginStatus, error) {
	s.r.ran()
	return &gripql.PluginStatus{}, nil
}
func (s *confStub) ListPlugins(context.Context, *gripql.Empty) (*gripql.ListPluginsResponse, error) {
	s.r.ran()
	return &gripql.ListPluginsResponse{}, nil
}
func (s *confStub) ListDrivers(context.Context, *gripql.Empty) (*gripql.ListDriversResponse, error) {
	s.r.ran()
	return &gripql.ListDriversResponse{}, nil
}
