// Package authz records, for C05, what the production interceptor chain of the
// accounts package does for every method of every exposed service.
//
// One request line describes a server configuration (no accounts / basic auth /
// basic auth + casbin policy). The handler builds accounts.Config through its
// exported fields exactly as a deployment does, optionally wraps the selected
// Authenticate/Access implementations with recording spies (hook
// accounts.(*Config).VerifWrap, build tag verif), installs
// Config.UnaryInterceptor()/StreamInterceptor()
//   - on a real grpc.Server reached over an in-memory bufconn listener (chained
//     with go-grpc-middleware as server.Serve does), and
//   - on the four gripql.New*DirectClient shims that server.Serve hands to the
//     HTTP gateway,
//
// and then invokes every method of every *_ServiceDesc through reflection on
// the generated client interfaces for each user x credential state x graph.
// The stub services only emit HandlerRan / ElemForwarded. The recorded events
// (Validate, Enforce, HandlerRan, ElemForwarded, Reply) carry a per-call
// sequence number and are validated against spec/auth/AuthTrace.tla by TLC.
package authz

import (
	"context"
	"encoding/base64"
	"fmt"
	"io"
	"net"
	"os"
	"path/filepath"
	"reflect"
	"strings"
	"sync"
	"time"

	"verifharness/sup"

	"github.com/bmeg/grip/accounts"
	"github.com/bmeg/grip/gripql"
	grpc_middleware "github.com/grpc-ecosystem/go-grpc-middleware"
	"google.golang.org/grpc"
	"google.golang.org/grpc/credentials/insecure"
	"google.golang.org/grpc/metadata"
	"google.golang.org/grpc/status"
	"google.golang.org/grpc/test/bufconn"
	"google.golang.org/protobuf/proto"
	"google.golang.org/protobuf/reflect/protoreflect"
)

type event struct {
	K    int    `json:"k"`
	E    string `json:"e"`
	Ok   bool   `json:"ok"`
	U    string `json:"u"`
	G    string `json:"g"`
	Op   string `json:"op"`
	Code string `json:"code"`
	N    int    `json:"n"`
	Msg  string `json:"msg,omitempty"`
}

// recorder collects the events of the call in flight. Calls are executed one at
// a time; the sequence number is assigned under the mutex.
type recorder struct {
	mu       sync.Mutex
	ev       []event
	answered bool
	intRet   chan struct{}
}

func (r *recorder) begin() {
	r.mu.Lock()
	r.ev = nil
	r.answered = false
	r.intRet = make(chan struct{}, 4)
	r.mu.Unlock()
}

func (r *recorder) add(e event) {
	r.mu.Lock()
	e.K = len(r.ev) + 1
	r.ev = append(r.ev, e)
	r.mu.Unlock()
}

func (r *recorder) ran() { r.add(event{E: "HandlerRan"}) }

func (r *recorder) markAnswered() {
	r.mu.Lock()
	r.answered = true
	r.mu.Unlock()
}

func (r *recorder) wasAnswered() bool {
	r.mu.Lock()
	defer r.mu.Unlock()
	return r.answered
}

func (r *recorder) take() []event {
	r.mu.Lock()
	defer r.mu.Unlock()
	out := r.ev
	r.ev = nil
	return out
}

type spyAuth struct {
	inner accounts.Authenticate
	r     *recorder
}

func (s spyAuth) Validate(md accounts.MetaData) (string, error) {
	u, err := s.inner.Validate(md)
	s.r.add(event{E: "Validate", Ok: err == nil, U: u})
	return u, err
}

type spyAccess struct {
	inner accounts.Access
	r     *recorder
}

func (s spyAccess) Enforce(user string, graph string, op accounts.Operation) error {
	err := s.inner.Enforce(user, graph, op)
	s.r.add(event{E: "Enforce", Ok: err == nil, U: user, G: graph, Op: string(op)})
	return err
}

type cred struct{ User, Password string }

type handler struct {
	users    []cred
	model    string
	graphs   []string
	bulk     [][]string
	credvs   []string
	dir      string
	rec      *recorder
	deadline time.Duration
}

func New() sup.Handler { return &handler{rec: &recorder{}, deadline: 20 * time.Second} }

func strs(v interface{}) []string {
	out := []string{}
	l, _ := v.([]interface{})
	for _, x := range l {
		s, _ := x.(string)
		out = append(out, s)
	}
	return out
}

func (h *handler) Setup(req map[string]interface{}) error {
	us, _ := req["users"].([]interface{})
	for _, u := range us {
		m, _ := u.(map[string]interface{})
		n, _ := m["user"].(string)
		p, _ := m["password"].(string)
		h.users = append(h.users, cred{n, p})
	}
	h.model, _ = req["model"].(string)
	h.graphs = strs(req["graphs"])
	h.credvs = strs(req["creds"])
	bl, _ := req["bulk"].([]interface{})
	for _, b := range bl {
		h.bulk = append(h.bulk, strs(b))
	}
	d, err := os.MkdirTemp("", "authz_")
	if err != nil {
		return err
	}
	h.dir = d
	if len(h.users) == 0 || len(h.graphs) == 0 || len(h.credvs) == 0 || h.model == "" {
		return fmt.Errorf("incomplete setup")
	}
	return nil
}

func (h *handler) Close() {
	if h.dir != "" {
		os.RemoveAll(h.dir)
	}
}

type svc struct {
	name   string
	desc   *grpc.ServiceDesc
	grpcC  func(cc grpc.ClientConnInterface) interface{}
	direct interface{}
}

type methodInfo struct {
	Svc  string `json:"svc"`
	Name string `json:"name"`
	Kind string `json:"kind"`
	Garg bool   `json:"garg"`
}

type callRec struct {
	C     int      `json:"c"`
	T     string   `json:"t"`
	M     string   `json:"m"`
	User  string   `json:"user"`
	Cred  string   `json:"cred"`
	CredV string   `json:"credv"`
	G     string   `json:"g"`
	Elems []string `json:"elems"`
	Ev    []event  `json:"ev"`
	// served binding only: what the client saw ("grpc:NotFound", "http:404") and
	// whether the store differed after the call
	Raw    string `json:"raw,omitempty"`
	Effect bool   `json:"effect,omitempty"`
	Ms     [2]int `json:"ms,omitempty"` // duration of the call and of restoring the baseline after it
}

// setGraph names the graph in the request if the request message has a field
// called "graph"; it reports whether there is such a field.
func setGraph(m proto.Message, g string) bool {
	fd := m.ProtoReflect().Descriptor().Fields().ByName("graph")
	if fd == nil || fd.Kind() != protoreflect.StringKind {
		return false
	}
	m.ProtoReflect().Set(fd, protoreflect.ValueOfString(g))
	return true
}

func passUnary(ctx context.Context, req interface{}, info *grpc.UnaryServerInfo, handler grpc.UnaryHandler) (interface{}, error) {
	return handler(ctx, req)
}

func passStream(srv interface{}, ss grpc.ServerStream, info *grpc.StreamServerInfo, handler grpc.StreamHandler) error {
	return handler(srv, ss)
}

func (h *handler) authHeader(user, credv string) (string, bool) {
	pw := ""
	other := ""
	for _, u := range h.users {
		if u.User == user {
			pw = u.Password
		} else if other == "" {
			other = u.Password
		}
	}
	b64 := func(s string) string { return "Basic " + base64.StdEncoding.EncodeToString([]byte(s)) }
	switch credv {
	case "none":
		return "", false
	case "right":
		return b64(user + ":" + pw), true
	case "wrong": // right user, wrong password
		return b64(user + ":" + pw + "x"), true
	case "otherpw": // right user, another user's password
		return b64(user + ":" + other), true
	case "unknown": // user that is not configured, with a configured password
		return b64("mallory:" + pw), true
	case "empty": // right user, empty password
		return b64(user + ":"), true
	case "garbage":
		return "Basic !!notbase64!!", true
	case "bearer":
		return "Bearer " + base64.StdEncoding.EncodeToString([]byte(user+":"+pw)), true
	}
	return "", false
}

func credClass(credv string) string {
	switch credv {
	case "none", "right":
		return credv
	}
	return "wrong"
}

func codeOf(err error) (string, string) {
	if err == nil || err == io.EOF {
		return "OK", ""
	}
	return status.Code(err).String(), err.Error()
}

func errOf(v reflect.Value) error {
	if v.IsNil() {
		return nil
	}
	return v.Interface().(error)
}

type reply struct {
	code string
	msg  string
	n    int
}

// invoke performs one call through reflection on a generated client interface
// value (grpc client or direct client: both implement gripql.<Svc>Client).
func (h *handler) invoke(client reflect.Value, name, kind string, ctx context.Context, g string, elems []string, direct bool) reply {
	m := client.MethodByName(name)
	if !m.IsValid() {
		return reply{code: "NO_CLIENT_METHOD"}
	}
	switch kind {
	case "unary":
		req := reflect.New(m.Type().In(1).Elem())
		setGraph(req.Interface().(proto.Message), g)
		out := m.Call([]reflect.Value{reflect.ValueOf(ctx), req})
		c, msg := codeOf(errOf(out[1]))
		return reply{code: c, msg: msg}
	case "sstream":
		req := reflect.New(m.Type().In(1).Elem())
		setGraph(req.Interface().(proto.Message), g)
		out := m.Call([]reflect.Value{reflect.ValueOf(ctx), req})
		if err := errOf(out[1]); err != nil {
			c, msg := codeOf(err)
			return reply{code: c, msg: msg}
		}
		recv := out[0].MethodByName("Recv")
		n := 0
		for {
			r := recv.Call(nil)
			if err := errOf(r[1]); err != nil {
				c, msg := codeOf(err)
				return reply{code: c, msg: msg, n: n}
			}
			n++
			if n > 1000 {
				return reply{code: "TOO_MANY", n: n}
			}
		}
	case "cstream":
		out := m.Call([]reflect.Value{reflect.ValueOf(ctx)})
		if err := errOf(out[1]); err != nil {
			c, msg := codeOf(err)
			return reply{code: c, msg: msg}
		}
		st := out[0]
		send := st.MethodByName("Send")
		for idx, eg := range elems {
			el := reflect.New(send.Type().In(0).Elem())
			setGraph(el.Interface().(proto.Message), eg)
			if ge, ok := el.Interface().(*gripql.GraphElement); ok {
				ge.Vertex = &gripql.Vertex{Gid: fmt.Sprintf("v%d", idx), Label: "L"}
			}
			send.Call([]reflect.Value{el}) // an error here (stream already closed by the server) shows up in CloseAndRecv
		}
		resCh := make(chan reply, 1)
		go func() {
			if cs := st.MethodByName("CloseSend"); direct && cs.IsValid() {
				// the generated gateway handler calls CloseSend before CloseAndRecv; the
				// direct shim's CloseAndRecv does not close the element channel itself
				cs.Call(nil)
			}
			r := st.MethodByName("CloseAndRecv").Call(nil)
			c, msg := codeOf(errOf(r[1]))
			resCh <- reply{code: c, msg: msg}
		}()
		tmo := time.After(h.deadline)
		if direct {
			select {
			case r := <-resCh:
				return r
			case <-h.rec.intRet:
				// the interceptor chain has returned. The shim delivers a result only
				// through SendAndClose: if the stub never called it, nobody ever will.
				h.rec.intRet <- struct{}{}
				if !h.rec.wasAnswered() {
					return reply{code: "NO_REPLY"}
				}
				select {
				case r := <-resCh:
					return r
				case <-tmo:
					return reply{code: "TIMEOUT"}
				}
			case <-tmo:
				return reply{code: "TIMEOUT"}
			}
		}
		select {
		case r := <-resCh:
			return r
		case <-tmo:
			return reply{code: "TIMEOUT"}
		}
	}
	return reply{code: "BAD_KIND"}
}

// accountsConfig builds accounts.Config through its exported fields, exactly as
// a deployment's configuration file does: mode "open" leaves it empty, "basic"
// configures the basic-auth users, "casbin" adds a casbin model/policy pair
// written to files. The returned function removes the files.
func (h *handler) accountsConfig(req map[string]interface{}) (accounts.Config, func(), error) {
	mode, _ := req["mode"].(string)
	cfg := accounts.Config{}
	cleanup := func() {}
	if mode != "open" {
		ba := accounts.BasicAuth{}
		for _, u := range h.users {
			ba = append(ba, accounts.BasicCredential{User: u.User, Password: u.Password})
		}
		cfg.Auth = &accounts.AuthConfig{Basic: &ba}
	}
	if mode == "casbin" {
		idx := fmt.Sprintf("%v", req["i"])
		mp := filepath.Join(h.dir, "model_"+idx+".conf")
		pp := filepath.Join(h.dir, "policy_"+idx+".csv")
		var sb strings.Builder
		rules, _ := req["policy"].([]interface{})
		for _, r := range rules {
			t := strs(r)
			if len(t) != 3 {
				return cfg, cleanup, fmt.Errorf("bad policy rule")
			}
			fmt.Fprintf(&sb, "p, %s, %s, %s\n", t[0], t[1], t[2])
		}
		if err := os.WriteFile(mp, []byte(h.model), 0600); err != nil {
			return cfg, cleanup, err
		}
		if err := os.WriteFile(pp, []byte(sb.String()), 0600); err != nil {
			os.Remove(mp)
			return cfg, cleanup, err
		}
		cleanup = func() { os.Remove(mp); os.Remove(pp) }
		cfg.Access = &accounts.AccessConfig{Casbin: &accounts.CasbinAccess{Model: mp, Policy: pp}}
	}
	return cfg, cleanup, nil
}

func (h *handler) Handle(req map[string]interface{}) interface{} {
	if sv, _ := req["served"].(bool); sv {
		return h.handleServed(req) // the live server started by server.Serve (served.go)
	}
	resp := map[string]interface{}{"i": req["i"]}
	spied, _ := req["spied"].(bool)
	transports := strs(req["transports"])
	if len(transports) == 0 {
		transports = []string{"grpc", "gateway"}
	}
	credvs := strs(req["creds"])
	if len(credvs) == 0 {
		credvs = h.credvs
	}
	only := map[string]bool{}
	for _, m := range strs(req["only"]) {
		only[m] = true
	}

	// ---- configuration, through the exported fields as a deployment does
	cfg, cleanup, err := h.accountsConfig(req)
	if err != nil {
		resp["err"] = err.Error()
		return resp
	}
	defer cleanup()
	rec := h.rec
	if spied {
		cfg.VerifWrap(
			func(a accounts.Authenticate) accounts.Authenticate { return spyAuth{a, rec} },
			func(a accounts.Access) accounts.Access { return spyAccess{a, rec} },
		)
	}
	unaryAuthInt := cfg.UnaryInterceptor()
	streamAuthInt := cfg.StreamInterceptor()

	qs, js, es, cs := &queryStub{r: rec}, &jobStub{r: rec}, &editStub{r: rec}, &confStub{r: rec}

	// ---- transport 1: real grpc.Server, interceptors chained as in server.Serve
	lis := bufconn.Listen(1 << 20)
	gs := grpc.NewServer(
		grpc.UnaryInterceptor(grpc_middleware.ChainUnaryServer(unaryAuthInt, passUnary)),
		grpc.StreamInterceptor(grpc_middleware.ChainStreamServer(streamAuthInt, passStream)),
		grpc.MaxSendMsgSize(1024*1024*16),
		grpc.MaxRecvMsgSize(1024*1024*16),
	)
	gripql.RegisterQueryServer(gs, qs)
	gripql.RegisterEditServer(gs, es)
	gripql.RegisterJobServer(gs, js)
	gripql.RegisterConfigureServer(gs, cs)
	go gs.Serve(lis)
	defer gs.Stop()
	conn, err := grpc.DialContext(context.Background(), "bufnet",
		grpc.WithContextDialer(func(ctx context.Context, s string) (net.Conn, error) { return lis.DialContext(ctx) }),
		grpc.WithTransportCredentials(insecure.NewCredentials()))
	if err != nil {
		resp["err"] = "dial: " + err.Error()
		return resp
	}
	defer conn.Close()

	// ---- transport 2: the direct clients the HTTP gateway is registered with.
	// The stream interceptor is composed with a pass-through that signals its
	// return (the BulkAdd shim discards the interceptor's error, so "no reply
	// will ever come" has to be decided from this signal, not from a timer).
	sigStream := func(srv interface{}, ss grpc.ServerStream, info *grpc.StreamServerInfo, handler grpc.StreamHandler) error {
		err := streamAuthInt(srv, ss, info, handler)
		rec.mu.Lock()
		ch := rec.intRet
		rec.mu.Unlock()
		select {
		case ch <- struct{}{}:
		default:
		}
		return err
	}
	dq := gripql.NewQueryDirectClient(qs, gripql.DirectUnaryInterceptor(unaryAuthInt), gripql.DirectStreamInterceptor(sigStream))
	de := gripql.NewEditDirectClient(es, gripql.DirectUnaryInterceptor(unaryAuthInt), gripql.DirectStreamInterceptor(sigStream))
	dj := gripql.NewJobDirectClient(js, gripql.DirectUnaryInterceptor(unaryAuthInt), gripql.DirectStreamInterceptor(sigStream))
	dc := gripql.NewConfigureDirectClient(cs, gripql.DirectUnaryInterceptor(unaryAuthInt), gripql.DirectStreamInterceptor(sigStream))

	svcs := []svc{
		{"Query", &gripql.Query_ServiceDesc, func(cc grpc.ClientConnInterface) interface{} { return gripql.NewQueryClient(cc) }, dq},
		{"Job", &gripql.Job_ServiceDesc, func(cc grpc.ClientConnInterface) interface{} { return gripql.NewJobClient(cc) }, dj},
		{"Edit", &gripql.Edit_ServiceDesc, func(cc grpc.ClientConnInterface) interface{} { return gripql.NewEditClient(cc) }, de},
		{"Configure", &gripql.Configure_ServiceDesc, func(cc grpc.ClientConnInterface) interface{} { return gripql.NewConfigureClient(cc) }, dc},
	}

	// ---- method table from the service descriptors
	methods := []methodInfo{}
	for _, s := range svcs {
		cl := reflect.ValueOf(s.grpcC(conn))
		for _, m := range s.desc.Methods {
			mi := methodInfo{Svc: s.name, Name: m.MethodName, Kind: "unary"}
			if mv := cl.MethodByName(m.MethodName); mv.IsValid() {
				mi.Garg = setGraph(reflect.New(mv.Type().In(1).Elem()).Interface().(proto.Message), "x")
			}
			methods = append(methods, mi)
		}
		for _, m := range s.desc.Streams {
			mi := methodInfo{Svc: s.name, Name: m.StreamName}
			switch {
			case m.ServerStreams && m.ClientStreams:
				mi.Kind = "bidi"
			case m.ServerStreams:
				mi.Kind = "sstream"
				if mv := cl.MethodByName(m.StreamName); mv.IsValid() {
					mi.Garg = setGraph(reflect.New(mv.Type().In(1).Elem()).Interface().(proto.Message), "x")
				}
			default:
				mi.Kind = "cstream"
			}
			methods = append(methods, mi)
		}
	}
	resp["methods"] = methods
	mm := map[string]string{}
	for k, v := range accounts.MethodMap {
		mm[k] = string(v)
	}
	resp["methodmap"] = mm

	// ---- the calls
	calls := []callRec{}
	n := 0
	for _, tr := range transports {
		for _, s := range svcs {
			var cl reflect.Value
			if tr == "grpc" {
				cl = reflect.ValueOf(s.grpcC(conn))
			} else {
				cl = reflect.ValueOf(s.direct)
			}
			for _, mi := range methods {
				if mi.Svc != s.name || mi.Kind == "bidi" {
					continue
				}
				key := mi.Svc + "/" + mi.Name
				if len(only) > 0 && !only[key] {
					continue
				}
				for ui, u := range h.users {
					for _, cv := range credvs {
						if cv == "none" && ui > 0 {
							continue // without credentials there is no claimed user
						}
						nvar := len(h.graphs)
						if mi.Kind == "cstream" {
							nvar = len(h.bulk)
						} else if !mi.Garg {
							nvar = 1
						}
						for gi := 0; gi < nvar; gi++ {
							n++
							cr := callRec{C: n, T: tr, M: key, User: u.User, Cred: credClass(cv), CredV: cv, G: "*", Elems: []string{}}
							if mi.Kind == "cstream" {
								cr.Elems = h.bulk[gi]
							} else if mi.Garg {
								cr.G = h.graphs[gi]
							}
							ctx, cancel := context.WithTimeout(context.Background(), h.deadline)
							if hv, ok := h.authHeader(u.User, cv); ok {
								ctx = metadata.AppendToOutgoingContext(ctx, "authorization", hv)
							}
							rec.begin()
							r := h.invoke(cl, mi.Name, mi.Kind, ctx, cr.G, cr.Elems, tr != "grpc")
							if tr != "grpc" && mi.Kind != "unary" {
								// wait until the interceptor chain has returned so that no event
								// of this call can leak into the next one
								select {
								case <-rec.intRet:
								case <-time.After(h.deadline):
									r.code = "TIMEOUT"
								}
							}
							cancel()
							rec.add(event{E: "Reply", Code: r.code, N: r.n, Msg: r.msg})
							cr.Ev = rec.take()
							calls = append(calls, cr)
						}
					}
				}
			}
		}
	}
	resp["calls"] = calls
	return resp
}
