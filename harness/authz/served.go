package authz

// "Served" binding of C05: the LIVE server.
//
// The other binding of this package (authz.go) takes the interceptors of
// accounts.Config and wires them by hand onto a grpc.Server and onto the four
// direct clients. What server.(*GripServer).Serve does - which interceptors go
// on the real grpc.Server, which Direct*Interceptor options each in-process
// client of the HTTP gateway gets - is not in its path. Here the real server is
// started (config.DefaultConfig + TestifyConfig, loopback ports, a kvgraph on
// badger in a scratch directory, the real service handlers, EnablePlugins so
// that the real Configure service is wired) and every method of the four
// service descriptors is called over
//
//	served-grpc  gRPC over the TCP listener opened by Serve
//	served-http  HTTP/JSON over the gateway mux served by Serve; URL, verb and
//	             body of every method come from the google.api.http option of
//	             the method in the file descriptor of gripql.proto
//
// Validate / Enforce are recorded by spies installed with
// accounts.(*Config).VerifWrap on conf.Server.Accounts BEFORE NewGripServer:
// Serve reads the same Config value through the *config.Config it was given,
// and Config.init keeps an already selected (wrapped) pair.
//
// The real handlers cannot emit HandlerRan. It is INFERRED, and the inference
// is sound for the production interceptors, which either return an
// authentication error (Unauthenticated / PermissionDenied, HTTP 401 / 403)
// WITHOUT calling the handler or return whatever the handler returned:
//
//   - a reply that is not an authentication error (data, OK, NotFound, an
//     application error, HTTP 200/404/500) means the handler ran:
//     HandlerRan, then Reply "OK";
//   - an authentication-error reply means it did not: Reply with that code.
//     No handler of the server package produces these two codes itself
//     (checked by grep; the self-call of GetMapping/updateGraphMap wraps the
//     inner status with fmt.Errorf, which yields Unknown);
//   - the three refusals the interceptors produce themselves for a method
//     they do not know (code Unknown with the messages "Unknown method",
//     "Request error", "Unable to get graph: ...") are recognised by their
//     text and recorded as a refusal with another code, not as a handler run;
//   - independently of the reply, a call after which the store differs from
//     before (graphs, vertices, edges, indices read through the GraphDB object;
//     job directories; plugin work directories) has run its handler:
//     HandlerRan is emitted even when the reply was a refusal ("has no
//     effect" of the property, observed on the store);
//   - BulkAdd: every streamed element is a vertex with an id unique to the
//     call; after the call the elements found in the graph they name are the
//     ones that reached the handler (ElemForwarded, in stream order).
//
// Replies that say nothing about grip (deadline, connection trouble, a
// rejection by the HTTP layer in front of the in-process client: 400, 405,
// 501, the mux's own 404) are tool failures and make the check inconclusive.
//
// The inferred events are appended after the consultations the spies saw;
// the verdict-carrying causes of Auth.tla do not depend on that order.

import (
	"bytes"
	"context"
	"encoding/json"
	"fmt"
	"io"
	"net"
	"net/http"
	"net/url"
	"os"
	"path/filepath"
	"regexp"
	"runtime"
	"sort"
	"strings"
	"time"

	"github.com/bmeg/grip/accounts"
	"github.com/bmeg/grip/config"
	"github.com/bmeg/grip/gdbi"
	"github.com/bmeg/grip/gripql"
	"github.com/bmeg/grip/kvgraph"
	_ "github.com/bmeg/grip/kvi/badgerdb"
	"github.com/bmeg/grip/log"
	"github.com/bmeg/grip/server"
	"google.golang.org/grpc"
	"google.golang.org/grpc/codes"
	"google.golang.org/grpc/credentials/insecure"
	"google.golang.org/grpc/metadata"
	"google.golang.org/grpc/status"
	"google.golang.org/protobuf/encoding/protojson"
	"google.golang.org/protobuf/proto"
	"google.golang.org/protobuf/reflect/protoreflect"
	"google.golang.org/protobuf/reflect/protoregistry"
	"google.golang.org/protobuf/types/descriptorpb"
)

const tagKey = "x-verif-call" // metadata key that ties a consultation to the call in flight

// servedRec collects the consultations of the call in flight. The server also
// calls ITSELF over gRPC (getGraph, used by GetMapping and updateGraphMap,
// dials the RPC port with the credentials of the environment): those
// consultations carry no call tag and are counted as foreign, not recorded.
type servedRec struct {
	*recorder
	active         bool
	tag            string
	foreignPending int // foreign Validate calls that succeeded: the next Enforce is theirs
	foreign        int
	stray          int
}

func (r *servedRec) beginCall(tag string) {
	r.mu.Lock()
	r.ev = nil
	r.active = true
	r.tag = tag
	r.foreignPending = 0
	r.mu.Unlock()
}

func (r *servedRec) endCall() []event {
	r.mu.Lock()
	defer r.mu.Unlock()
	r.active = false
	out := r.ev
	r.ev = nil
	return out
}

type servedSpyAuth struct {
	inner accounts.Authenticate
	r     *servedRec
}

func (s servedSpyAuth) Validate(md accounts.MetaData) (string, error) {
	u, err := s.inner.Validate(md)
	tag := ""
	if v := md[tagKey]; len(v) > 0 {
		tag = v[0]
	}
	r := s.r
	r.mu.Lock()
	switch {
	case r.active && tag == r.tag:
		r.ev = append(r.ev, event{K: len(r.ev) + 1, E: "Validate", Ok: err == nil, U: u})
	case tag == "":
		r.foreign++
		if err == nil {
			r.foreignPending++
		}
	default:
		r.stray++
	}
	r.mu.Unlock()
	return u, err
}

type servedSpyAccess struct {
	inner accounts.Access
	r     *servedRec
}

func (s servedSpyAccess) Enforce(user string, graph string, op accounts.Operation) error {
	err := s.inner.Enforce(user, graph, op)
	r := s.r
	r.mu.Lock()
	switch {
	case r.foreignPending > 0:
		r.foreignPending--
		r.foreign++
	case r.active:
		r.ev = append(r.ev, event{K: len(r.ev) + 1, E: "Enforce", Ok: err == nil, U: user, G: graph, Op: string(op)})
	default:
		r.stray++
	}
	r.mu.Unlock()
	return err
}

// toolErr marks failures of the harness or the machine; they end as
// "tool_err" in the response and make the check inconclusive.
type toolErr struct{ msg string }

func (e toolErr) Error() string { return e.msg }

func toolf(f string, a ...interface{}) error { return toolErr{fmt.Sprintf(f, a...)} }

type servedMethod struct {
	methodInfo
	full   string // /gripql.Svc/Name
	in     protoreflect.MessageDescriptor
	out    protoreflect.MessageDescriptor
	verb   string
	path   string // template with {field} segments
	body   string // "", "*" or a field name
	params []string
}

type fingerprint struct{ store, jobs, plugins string }

type servedEnv struct {
	h        *handler
	mode     string
	conf     *config.Config
	gdb      gdbi.GraphDB
	dir      string
	cancel   context.CancelFunc
	done     chan error
	conn     *grpc.ClientConn
	httpc    *http.Client
	base     string
	rec      *servedRec
	graphs   []string
	allg     []string // graphs of the baseline store: request graphs and graphs bulk elements name
	jobs     map[string]string
	baseline string
	leaked   int // gateway BulkAdd handlers blocked for ever (one per call that is never answered)
	privHdr  string
	plugins  bool
}

var pathVar = regexp.MustCompile(`\{([a-z_]+)\}`)

func servedMethods() ([]servedMethod, error) {
	out := []servedMethod{}
	fd := gripql.File_gripql_proto
	for _, sn := range []string{"Query", "Job", "Edit", "Configure"} {
		sd := fd.Services().ByName(protoreflect.Name(sn))
		if sd == nil {
			return nil, toolf("service %s is not in the file descriptor", sn)
		}
		for i := 0; i < sd.Methods().Len(); i++ {
			md := sd.Methods().Get(i)
			m := servedMethod{in: md.Input(), out: md.Output()}
			m.Svc, m.Name = sn, string(md.Name())
			m.full = "/" + string(sd.FullName()) + "/" + string(md.Name())
			switch {
			case md.IsStreamingClient() && md.IsStreamingServer():
				m.Kind = "bidi"
			case md.IsStreamingServer():
				m.Kind = "sstream"
			case md.IsStreamingClient():
				m.Kind = "cstream"
			default:
				m.Kind = "unary"
			}
			if m.Kind != "cstream" {
				gf := md.Input().Fields().ByName("graph")
				m.Garg = gf != nil && gf.Kind() == protoreflect.StringKind
			}
			// the google.api.http option, read through the registry (the generated
			// gripql package links google/api/annotations.proto in)
			opts, _ := md.Options().(*descriptorpb.MethodOptions)
			xt, xerr := protoregistry.GlobalTypes.FindExtensionByName("google.api.http")
			if xerr != nil {
				return nil, toolf("extension google.api.http: %v", xerr)
			}
			if opts == nil || !proto.HasExtension(opts, xt) {
				return nil, toolf("%s has no google.api.http option", m.full)
			}
			rule, ok := proto.GetExtension(opts, xt).(proto.Message)
			if !ok {
				return nil, toolf("%s: google.api.http option of unexpected type", m.full)
			}
			rr := rule.ProtoReflect()
			for _, verb := range []string{"get", "put", "post", "delete", "patch"} {
				fd := rr.Descriptor().Fields().ByName(protoreflect.Name(verb))
				if fd != nil && rr.Has(fd) {
					m.verb, m.path = strings.ToUpper(verb), rr.Get(fd).String()
				}
			}
			if m.verb == "" {
				return nil, toolf("%s: unsupported http rule %v", m.full, rule)
			}
			if bf := rr.Descriptor().Fields().ByName("body"); bf != nil {
				m.body = rr.Get(bf).String()
			}
			if strings.ContainsAny(m.path, "=*") {
				return nil, toolf("%s: unsupported path template %s", m.full, m.path)
			}
			for _, pv := range pathVar.FindAllStringSubmatch(m.path, -1) {
				m.params = append(m.params, pv[1])
			}
			out = append(out, m)
		}
	}
	return out, nil
}

func freePort() (string, error) {
	l, err := net.Listen("tcp", ":0")
	if err != nil {
		return "", err
	}
	defer l.Close()
	return fmt.Sprintf("%d", l.Addr().(*net.TCPAddr).Port), nil
}

// start brings up the real server; a port that was taken in the meantime or a
// server that does not answer in time is a tool failure, retried on other ports.
func (e *servedEnv) start(acc accounts.Config, spied bool) error {
	var last error
	for attempt := 0; attempt < 5; attempt++ {
		if err := e.startOnce(acc, spied, attempt); err != nil {
			last = err
			e.stop()
			continue
		}
		return nil
	}
	return toolf("server did not come up in 5 attempts: %v", last)
}

func (e *servedEnv) startOnce(acc accounts.Config, spied bool, attempt int) error {
	dir, err := os.MkdirTemp(e.h.dir, fmt.Sprintf("served_%d_", attempt))
	if err != nil {
		return err
	}
	e.dir = dir
	conf := config.DefaultConfig()
	conf.AddBadgerDefault()
	config.TestifyConfig(conf)
	// ports the operating system says are free right now (TestifyConfig draws
	// them blindly); everything on disk under the scratch directory
	if conf.Server.RPCPort, err = freePort(); err != nil {
		return err
	}
	if conf.Server.HTTPPort, err = freePort(); err != nil {
		return err
	}
	conf.Server.WorkDir = filepath.Join(dir, "work")
	conf.Server.PluginDir = filepath.Join(dir, "plugins")
	os.MkdirAll(conf.Server.PluginDir, 0700)
	conf.Server.EnablePlugins = e.plugins // true unless the request says otherwise: the real Configure service behind the interceptors
	conf.Server.RequestLogging.Enable = false
	conf.RPCClient.ServerAddress = conf.Server.RPCAddress()
	conf.Server.Accounts = acc
	e.rec = &servedRec{recorder: &recorder{}}
	if spied {
		rec := e.rec
		conf.Server.Accounts.VerifWrap(
			func(a accounts.Authenticate) accounts.Authenticate { return servedSpyAuth{a, rec} },
			func(a accounts.Access) accounts.Access { return servedSpyAccess{a, rec} },
		)
	}
	gdb, err := kvgraph.NewKVGraphDB("badger", filepath.Join(dir, "db"))
	if err != nil {
		return err
	}
	e.gdb = gdb
	e.conf = conf
	srv, err := server.NewGripServer(conf, dir, map[string]gdbi.GraphDB{"badger": gdb})
	if err != nil {
		return err
	}
	ctx, cancel := context.WithCancel(context.Background())
	e.cancel = cancel
	e.done = make(chan error, 1)
	go func() { e.done <- srv.Serve(ctx) }()

	rpcAddr := "127.0.0.1:" + conf.Server.RPCPort
	e.base = "http://127.0.0.1:" + conf.Server.HTTPPort
	e.httpc = &http.Client{Transport: &http.Transport{MaxIdleConnsPerHost: 4}}
	conn, err := grpc.Dial(rpcAddr, grpc.WithTransportCredentials(insecure.NewCredentials()),
		grpc.WithDefaultCallOptions(grpc.MaxCallRecvMsgSize(1024*1024*16)))
	if err != nil {
		return err
	}
	e.conn = conn

	// readiness: both listeners answer (polled; a privileged ListGraphs over
	// gRPC and over HTTP)
	limit := time.Now().Add(e.h.deadline * 3)
	var lastErr error
	for {
		select {
		case err := <-e.done:
			e.done <- err
			return fmt.Errorf("Serve returned during start-up: %v", err)
		default:
		}
		if time.Now().After(limit) {
			return fmt.Errorf("not ready after %s: %v", e.h.deadline*3, lastErr)
		}
		cctx, ccancel := context.WithTimeout(e.privCtx(context.Background()), 2*time.Second)
		err := e.conn.Invoke(cctx, "/gripql.Query/ListGraphs", &gripql.Empty{}, &gripql.ListGraphsResponse{})
		ccancel()
		if err != nil {
			lastErr = err
			time.Sleep(50 * time.Millisecond)
			continue
		}
		req, _ := http.NewRequest("GET", e.base+"/v1/graph", nil)
		if e.privHdr != "" {
			req.Header.Set("Authorization", e.privHdr)
		}
		hctx, hcancel := context.WithTimeout(context.Background(), 2*time.Second)
		resp, err := e.httpc.Do(req.WithContext(hctx))
		if err == nil {
			io.Copy(io.Discard, resp.Body)
			resp.Body.Close()
			if resp.StatusCode != 200 {
				err = fmt.Errorf("GET /v1/graph: %d", resp.StatusCode)
			}
		}
		hcancel()
		if err != nil {
			lastErr = err
			time.Sleep(50 * time.Millisecond)
			continue
		}
		return nil
	}
}

func (e *servedEnv) privCtx(ctx context.Context) context.Context {
	if e.privHdr != "" {
		return metadata.AppendToOutgoingContext(ctx, "authorization", e.privHdr)
	}
	return ctx
}

// stop shuts the server down and removes its directories. Serve does not
// return while a gateway request is still blocked (http.Server.Shutdown waits
// for it): that is what every BulkAdd call that is never answered leaves
// behind, so a Serve that stays is expected then and the store is closed here.
func (e *servedEnv) stop() (stuck bool) {
	if e.conn != nil {
		e.conn.Close()
		e.conn = nil
	}
	if e.httpc != nil {
		e.httpc.CloseIdleConnections()
	}
	if e.cancel != nil {
		e.cancel()
		wait := 30 * time.Second
		if e.leaked > 0 {
			wait = 2 * time.Second
		}
		select {
		case <-e.done:
		case <-time.After(wait):
			stuck = true
			func() {
				defer func() { recover() }()
				e.gdb.Close()
			}()
		}
		e.cancel = nil
	} else if e.gdb != nil {
		func() {
			defer func() { recover() }()
			e.gdb.Close()
		}()
	}
	e.gdb = nil
	if e.dir != "" {
		os.RemoveAll(e.dir)
		e.dir = ""
	}
	return stuck
}

// ---- the store the calls act on ------------------------------------------

func vtx(id string) *gdbi.Vertex {
	return &gdbi.Vertex{ID: id, Label: "L", Data: map[string]interface{}{"name": id}, Loaded: true}
}

func edg(id string) *gdbi.Edge {
	return &gdbi.Edge{ID: id, Label: "rel", From: "va", To: "vb", Data: map[string]interface{}{}, Loaded: true}
}

// rebuild empties the store and writes the baseline: every graph with three
// vertices, two edges and one index, so that every request has something to
// read, delete or add to. Done directly on the GraphDB object.
func (e *servedEnv) rebuild() error {
	for _, g := range e.gdb.ListGraphs() {
		if err := e.gdb.DeleteGraph(g); err != nil {
			return toolf("baseline: delete %s: %v", g, err)
		}
	}
	for _, g := range e.allg {
		if err := e.gdb.AddGraph(g); err != nil {
			return toolf("baseline: add %s: %v", g, err)
		}
		gr, err := e.gdb.Graph(g)
		if err != nil {
			return toolf("baseline: open %s: %v", g, err)
		}
		if err := gr.AddVertex([]*gdbi.Vertex{vtx("va"), vtx("vb"), vtx("vdel")}); err != nil {
			return toolf("baseline: vertices of %s: %v", g, err)
		}
		if err := gr.AddEdge([]*gdbi.Edge{edg("e1"), edg("edel")}); err != nil {
			return toolf("baseline: edges of %s: %v", g, err)
		}
		if err := gr.AddVertexIndex("L", "name"); err != nil {
			return toolf("baseline: index of %s: %v", g, err)
		}
	}
	return nil
}

func (e *servedEnv) storeFP() string {
	var sb strings.Builder
	gs := e.gdb.ListGraphs()
	sort.Strings(gs)
	for _, g := range gs {
		gr, err := e.gdb.Graph(g)
		if err != nil {
			fmt.Fprintf(&sb, "G %s !%v\n", g, err)
			continue
		}
		lines := []string{}
		for v := range gr.GetVertexList(context.Background(), false) {
			lines = append(lines, "v "+v.ID+" "+v.Label)
		}
		for x := range gr.GetEdgeList(context.Background(), false) {
			lines = append(lines, "e "+x.ID+" "+x.Label+" "+x.From+" "+x.To)
		}
		for ix := range gr.GetVertexIndexList() {
			lines = append(lines, "i "+ix.Label+" "+ix.Field)
		}
		sort.Strings(lines)
		fmt.Fprintf(&sb, "G %s\n%s\n", g, strings.Join(lines, "\n"))
	}
	return sb.String()
}

func (e *servedEnv) jobDirs() []string {
	m, _ := filepath.Glob(filepath.Join(e.conf.Server.WorkDir, "jobs", "*", "job-*"))
	sort.Strings(m)
	return m
}

func (e *servedEnv) fp() fingerprint {
	pl, _ := filepath.Glob(filepath.Join(e.conf.Server.WorkDir, "gripper-*"))
	sort.Strings(pl)
	return fingerprint{store: e.storeFP(), jobs: strings.Join(e.jobDirs(), "\n"), plugins: strings.Join(pl, "\n")}
}

// settleJobs waits until every stored job has written its status record (a
// job runs on after Submit has answered).
func (e *servedEnv) settleJobs() error {
	limit := time.Now().Add(e.h.deadline)
	for {
		pending := ""
		for _, d := range e.jobDirs() {
			if _, err := os.Stat(filepath.Join(d, "status")); err != nil {
				pending = d
			}
		}
		if pending == "" {
			return nil
		}
		if time.Now().After(limit) {
			return toolf("job %s did not finish in %s", pending, e.h.deadline)
		}
		time.Sleep(5 * time.Millisecond)
	}
}

// ensureJobs makes sure every request graph has a stored, finished job for
// the job methods to name; a missing one is submitted by the privileged user
// over gRPC (outside any recorded call).
func (e *servedEnv) ensureJobs() error {
	if err := e.settleJobs(); err != nil {
		return err
	}
	for _, g := range e.graphs {
		if id := e.jobs[g]; id != "" {
			if _, err := os.Stat(filepath.Join(e.conf.Server.WorkDir, "jobs", g, id)); err == nil {
				continue
			}
		}
		ctx, cancel := context.WithTimeout(e.privCtx(context.Background()), e.h.deadline)
		out := &gripql.QueryJob{}
		err := e.conn.Invoke(ctx, "/gripql.Job/Submit", &gripql.GraphQuery{Graph: g, Query: gripql.NewQuery().V().Statements}, out)
		cancel()
		if err != nil {
			return toolf("privileged Submit on %s: %v", g, err)
		}
		e.jobs[g] = out.Id
		if err := e.settleJobs(); err != nil {
			return err
		}
	}
	return nil
}

// repair brings the store back to the baseline with as few writes as possible
// (every write is a synchronous badger commit): graphs, elements and indices
// that do not belong are removed, missing ones are written again.
func (e *servedEnv) repair() error {
	want := map[string]bool{}
	for _, g := range e.allg {
		want[g] = true
	}
	have := map[string]bool{}
	for _, g := range e.gdb.ListGraphs() {
		if !want[g] {
			if err := e.gdb.DeleteGraph(g); err != nil {
				return toolf("repair: delete %s: %v", g, err)
			}
			continue
		}
		have[g] = true
	}
	baseV := map[string]bool{"va": true, "vb": true, "vdel": true}
	baseE := map[string]bool{"e1": true, "edel": true}
	for _, g := range e.allg {
		if !have[g] {
			if err := e.gdb.AddGraph(g); err != nil {
				return toolf("repair: add %s: %v", g, err)
			}
		}
		gr, err := e.gdb.Graph(g)
		if err != nil {
			return toolf("repair: open %s: %v", g, err)
		}
		gotV, gotE, gotI := map[string]bool{}, map[string]bool{}, map[string]bool{}
		var delV, delE []string
		for v := range gr.GetVertexList(context.Background(), false) {
			if baseV[v.ID] {
				gotV[v.ID] = true
			} else {
				delV = append(delV, v.ID)
			}
		}
		for x := range gr.GetEdgeList(context.Background(), false) {
			if baseE[x.ID] {
				gotE[x.ID] = true
			} else {
				delE = append(delE, x.ID)
			}
		}
		for _, id := range delE {
			if err := gr.DelEdge(id); err != nil {
				return toolf("repair: %s edge %s: %v", g, id, err)
			}
		}
		for _, id := range delV {
			if err := gr.DelVertex(id); err != nil {
				return toolf("repair: %s vertex %s: %v", g, id, err)
			}
		}
		var addV []*gdbi.Vertex
		for _, id := range []string{"va", "vb", "vdel"} {
			if !gotV[id] {
				addV = append(addV, vtx(id))
			}
		}
		if len(addV) > 0 {
			if err := gr.AddVertex(addV); err != nil {
				return toolf("repair: vertices of %s: %v", g, err)
			}
		}
		// deleting a vertex takes its edges along: look again
		if len(addV) > 0 {
			gotE = map[string]bool{}
			for x := range gr.GetEdgeList(context.Background(), false) {
				gotE[x.ID] = true
			}
		}
		var addE []*gdbi.Edge
		for _, id := range []string{"e1", "edel"} {
			if !gotE[id] {
				addE = append(addE, edg(id))
			}
		}
		if len(addE) > 0 {
			if err := gr.AddEdge(addE); err != nil {
				return toolf("repair: edges of %s: %v", g, err)
			}
		}
		for ix := range gr.GetVertexIndexList() {
			if ix.Label == "L" && ix.Field == "name" {
				gotI["name"] = true
			} else if err := gr.DeleteVertexIndex(ix.Label, ix.Field); err != nil {
				return toolf("repair: index of %s: %v", g, err)
			}
		}
		if !gotI["name"] {
			if err := gr.AddVertexIndex("L", "name"); err != nil {
				return toolf("repair: index of %s: %v", g, err)
			}
		}
	}
	return nil
}

// restore brings store and jobs back to the baseline after a call that changed
// them and returns the fingerprint the next call starts from.
func (e *servedEnv) restore(after fingerprint) (fingerprint, error) {
	if after.store != e.baseline {
		if err := e.repair(); err != nil {
			return after, err
		}
		if e.storeFP() != e.baseline {
			if err := e.rebuild(); err != nil {
				return after, err
			}
			if e.storeFP() != e.baseline {
				return after, toolf("baseline could not be restored")
			}
		}
	}
	if err := e.ensureJobs(); err != nil {
		return after, err
	}
	return e.fp(), nil
}

// ---- requests --------------------------------------------------------------

func newMsg(d protoreflect.MessageDescriptor) (proto.Message, error) {
	mt, err := protoregistry.GlobalTypes.FindMessageByName(d.FullName())
	if err != nil {
		return nil, toolf("message type %s: %v", d.FullName(), err)
	}
	return mt.New().Interface(), nil
}

// request builds a well-formed request of the method that names graph g.
func (e *servedEnv) request(m servedMethod, g string, n int) (proto.Message, error) {
	key := m.Svc + "/" + m.Name
	msg, err := newMsg(m.in)
	if err != nil {
		return nil, err
	}
	switch r := msg.(type) {
	case *gripql.Empty:
	case *gripql.GraphID:
		r.Graph = g
	case *gripql.GraphQuery:
		r.Graph = g
		r.Query = gripql.NewQuery().V().Statements
	case *gripql.ElementID:
		r.Graph = g
		r.Id = map[string]string{"Query/GetVertex": "va", "Query/GetEdge": "e1", "Edit/DeleteVertex": "vdel", "Edit/DeleteEdge": "edel"}[key]
		if r.Id == "" {
			return nil, toolf("%s: no element id planned", key)
		}
	case *gripql.QueryJob:
		r.Graph = g
		r.Id = e.jobs[g]
	case *gripql.ExtendQuery:
		r.Graph = g
		r.SrcId = e.jobs[g]
		r.Query = gripql.NewQuery().Limit(2).Statements
	case *gripql.GraphElement:
		r.Graph = g
		if key == "Edit/AddEdge" {
			r.Edge = &gripql.Edge{Gid: fmt.Sprintf("ne%d", n), Label: "rel", From: "va", To: "vb"}
		} else {
			r.Vertex = &gripql.Vertex{Gid: fmt.Sprintf("nv%d", n), Label: "L"}
		}
	case *gripql.IndexID:
		r.Graph = g
		r.Label = "L"
		r.Field = "name"
		if key == "Edit/AddIndex" {
			r.Field = "age"
		}
	case *gripql.Graph:
		r.Graph = g
		if key == "Edit/AddSchema" {
			r.Vertices = []*gripql.Vertex{{Gid: "L", Label: "L"}}
		}
	case *gripql.PluginConfig:
		r.Name = fmt.Sprintf("p%d", n)
		r.Driver = "nodriver"
	default:
		return nil, toolf("%s: request type %s is not planned - extend served.go", key, m.in.FullName())
	}
	return msg, nil
}

func bulkElem(g string, n, idx int) *gripql.GraphElement {
	return &gripql.GraphElement{Graph: g, Vertex: &gripql.Vertex{Gid: fmt.Sprintf("b%d_%d", n, idx), Label: "L"}}
}

// outcome of one call as the client saw it
type outcome struct {
	class string // ran | unauthenticated | denied | refused | noreply | tool
	raw   string // "grpc:NotFound", "http:404", ...
	msg   string
	n     int
}

// the refusals accounts/util.go produces itself besides the two authentication codes
func interceptorRefusal(msg string) bool {
	return msg == "Unknown method" || msg == "Request error" || strings.HasPrefix(msg, "Unable to get graph:")
}

func classifyGRPC(err error) outcome {
	if err == nil || err == io.EOF {
		return outcome{class: "ran", raw: "grpc:OK"}
	}
	st, _ := status.FromError(err)
	c := status.Code(err)
	o := outcome{raw: "grpc:" + c.String(), msg: err.Error()}
	switch c {
	case codes.Unauthenticated:
		o.class = "unauthenticated"
	case codes.PermissionDenied:
		o.class = "denied"
	case codes.DeadlineExceeded, codes.Canceled, codes.Unavailable, codes.ResourceExhausted, codes.Unimplemented, codes.Internal:
		o.class = "tool" // the deadline of the harness, the connection, a service that is not registered
	case codes.Unknown:
		if st != nil && interceptorRefusal(st.Message()) {
			o.class = "refused"
		} else {
			o.class = "ran"
		}
	default:
		o.class = "ran"
	}
	return o
}

func (e *servedEnv) callGRPC(ctx context.Context, m servedMethod, req proto.Message, elems []*gripql.GraphElement) outcome {
	out, err := newMsg(m.out)
	if err != nil {
		return outcome{class: "tool", raw: "harness", msg: err.Error()}
	}
	switch m.Kind {
	case "unary":
		return classifyGRPC(e.conn.Invoke(ctx, m.full, req, out))
	case "sstream":
		st, err := e.conn.NewStream(ctx, &grpc.StreamDesc{ServerStreams: true}, m.full)
		if err != nil {
			return classifyGRPC(err)
		}
		if err := st.SendMsg(req); err != nil && err != io.EOF {
			return classifyGRPC(err)
		}
		st.CloseSend()
		n := 0
		for {
			o, _ := newMsg(m.out)
			if err := st.RecvMsg(o); err != nil {
				r := classifyGRPC(err)
				r.n = n
				return r
			}
			n++
		}
	case "cstream":
		st, err := e.conn.NewStream(ctx, &grpc.StreamDesc{ClientStreams: true}, m.full)
		if err != nil {
			return classifyGRPC(err)
		}
		for _, el := range elems {
			if err := st.SendMsg(el); err != nil {
				break // the server has already answered: the status comes with RecvMsg
			}
		}
		st.CloseSend()
		return classifyGRPC(st.RecvMsg(out))
	}
	return outcome{class: "tool", raw: "harness", msg: "kind " + m.Kind}
}

var jsonOut = protojson.MarshalOptions{}

// httpRequest derives URL, verb and body from the http rule of the method.
func (e *servedEnv) httpRequest(m servedMethod, req proto.Message, elems []*gripql.GraphElement) (*http.Request, error) {
	path := m.path
	var body []byte
	if m.Kind == "cstream" {
		// a client stream over the gateway: newline-delimited JSON messages
		var bb bytes.Buffer
		for _, el := range elems {
			b, err := jsonOut.Marshal(el)
			if err != nil {
				return nil, toolf("marshal: %v", err)
			}
			bb.Write(b)
			bb.WriteByte('\n')
		}
		body = bb.Bytes()
	} else {
		rm := req.ProtoReflect()
		inPath := map[string]bool{}
		for _, p := range m.params {
			fd := rm.Descriptor().Fields().ByName(protoreflect.Name(p))
			if fd == nil || fd.Kind() != protoreflect.StringKind {
				return nil, toolf("%s: path variable %s is not a string field of the request", m.full, p)
			}
			v := rm.Get(fd).String()
			if v == "" {
				return nil, toolf("%s: path variable %s is empty", m.full, p)
			}
			path = strings.Replace(path, "{"+p+"}", url.PathEscape(v), 1)
			inPath[p] = true
		}
		switch m.body {
		case "*":
			b, err := jsonOut.Marshal(req)
			if err != nil {
				return nil, toolf("marshal: %v", err)
			}
			body = b
		case "":
			// everything the request carries has to be in the path
			var extra []string
			rm.Range(func(fd protoreflect.FieldDescriptor, _ protoreflect.Value) bool {
				if !inPath[string(fd.Name())] {
					extra = append(extra, string(fd.Name()))
				}
				return true
			})
			if len(extra) > 0 {
				return nil, toolf("%s: fields %v have no place in %s %s", m.full, extra, m.verb, m.path)
			}
		default:
			fd := rm.Descriptor().Fields().ByName(protoreflect.Name(m.body))
			if fd == nil || fd.Kind() != protoreflect.MessageKind {
				return nil, toolf("%s: body field %s", m.full, m.body)
			}
			b, err := jsonOut.Marshal(rm.Get(fd).Message().Interface())
			if err != nil {
				return nil, toolf("marshal: %v", err)
			}
			body = b
		}
	}
	var rd io.Reader
	if body != nil {
		rd = bytes.NewReader(body)
	}
	hr, err := http.NewRequest(m.verb, e.base+path, rd)
	if err != nil {
		return nil, toolf("request: %v", err)
	}
	if body != nil {
		hr.Header.Set("Content-Type", "application/json")
	}
	return hr, nil
}

type httpErrBody struct {
	Code    int    `json:"code"`
	Message string `json:"message"`
	Error   *struct {
		Code    int    `json:"code"`
		Message string `json:"message"`
	} `json:"error"`
}

func classifyHTTP(code int, body []byte) outcome {
	o := outcome{raw: fmt.Sprintf("http:%d", code)}
	msg := ""
	lines := bytes.Split(bytes.TrimSpace(body), []byte("\n"))
	var eb httpErrBody
	if len(lines) > 0 && json.Unmarshal(lines[len(lines)-1], &eb) == nil {
		msg = eb.Message
		if eb.Error != nil {
			msg = eb.Error.Message
		}
	}
	o.msg = msg
	if code == 200 {
		for _, l := range lines {
			if len(bytes.TrimSpace(l)) > 0 {
				o.n++
			}
		}
	}
	switch {
	case code == 401:
		o.class = "unauthenticated"
	case code == 403:
		o.class = "denied"
	case code == 400 || code == 405 || code == 501 || code == 415 || (code == 404 && msg == "Not Found"):
		// answered by the HTTP layer in front of the in-process client (malformed
		// request, no route): says nothing about mediation
		o.class = "tool"
		o.msg = "rejected by the HTTP layer: " + string(bytes.TrimSpace(body))
	case code == 502 || code == 503 || code == 504 || code == 429 || code == 499:
		o.class = "tool"
	case code == 500 && interceptorRefusal(msg):
		o.class = "refused"
	default:
		o.class = "ran"
	}
	return o
}

// bulkBlocked looks at the goroutines of this process (the server runs in it):
// how many gateway handlers wait in directEditBulkAdd.CloseAndRecv, and whether
// any goroutine started by EditDirectClient.BulkAdd (the interceptor chain and
// the service handler behind it - the only senders of the result) is alive.
func bulkBlocked() (waiting, producers int) {
	buf := make([]byte, 1<<20)
	for {
		n := runtime.Stack(buf, true)
		if n < len(buf) {
			buf = buf[:n]
			break
		}
		buf = make([]byte, 2*len(buf))
	}
	for _, g := range strings.Split(string(buf), "\n\n") {
		// "goroutine 12 [chan receive]:" - blocked, i.e. nothing is buffered in the
		// channel either (a goroutine that has been handed a value is runnable)
		head := g
		if nl := strings.IndexByte(g, '\n'); nl >= 0 {
			head = g[:nl]
		}
		if strings.Contains(g, "directEditBulkAdd).CloseAndRecv") && strings.Contains(head, "[chan receive") {
			waiting++
		}
		if strings.Contains(g, "created by github.com/bmeg/grip/gripql.(*EditDirectClient).BulkAdd") {
			producers++
		}
	}
	return
}

func (e *servedEnv) callHTTP(ctx context.Context, m servedMethod, req proto.Message, elems []*gripql.GraphElement, hdr, tag string) outcome {
	hr, err := e.httpRequest(m, req, elems)
	if err != nil {
		return outcome{class: "tool", raw: "harness", msg: err.Error()}
	}
	if hdr != "" {
		hr.Header.Set("Authorization", hdr)
	}
	hr.Header.Set("Grpc-Metadata-"+tagKey, tag) // the gateway hands Grpc-Metadata-* headers on as metadata
	cctx, cancel := context.WithCancel(ctx)
	defer cancel()
	hr = hr.WithContext(cctx)
	resCh := make(chan outcome, 1)
	go func() {
		resp, err := e.httpc.Do(hr)
		if err != nil {
			resCh <- outcome{class: "tool", raw: "http:error", msg: err.Error()}
			return
		}
		defer resp.Body.Close()
		b, err := io.ReadAll(io.LimitReader(resp.Body, 64<<20))
		if err != nil {
			resCh <- outcome{class: "tool", raw: "http:error", msg: err.Error()}
			return
		}
		resCh <- classifyHTTP(resp.StatusCode, b)
	}()
	if m.Kind != "cstream" {
		return <-resCh // bounded by the deadline of ctx
	}
	// A client stream through the gateway: the generated in-process client
	// delivers a result only when the service handler calls SendAndClose. "No
	// answer will ever come" is decided from the goroutines, not from a timer:
	// the gateway handler waits in CloseAndRecv while no goroutine that could
	// send to it exists any more (seen twice in a row).
	seen := 0
	tick := time.NewTicker(50 * time.Millisecond)
	defer tick.Stop()
	for {
		select {
		case r := <-resCh:
			return r
		case <-tick.C:
			w, p := bulkBlocked()
			if w > e.leaked && p == 0 {
				seen++
			} else {
				seen = 0
			}
			if seen >= 2 {
				select {
				case r := <-resCh:
					return r
				default:
				}
				e.leaked = w
				return outcome{class: "noreply", raw: "http:none", msg: "gateway handler blocked in CloseAndRecv, no sender left"}
			}
		}
	}
}

// ---- one configuration -----------------------------------------------------

func (h *handler) handleServed(req map[string]interface{}) interface{} {
	resp := map[string]interface{}{"i": req["i"]}
	tool := func(err error) interface{} {
		if _, ok := err.(toolErr); ok {
			resp["tool_err"] = err.Error()
		} else {
			resp["tool_err"] = "served: " + err.Error()
		}
		return resp
	}
	os.Unsetenv("GRIP_USER") // the server's calls to itself take their credentials from here
	os.Unsetenv("GRIP_PASSWORD")
	log.ConfigureLogger(log.Logger{Level: "error", Formatter: "text"})

	mode, _ := req["mode"].(string)
	spied, _ := req["spied"].(bool)
	credvs := strs(req["creds"])
	if len(credvs) == 0 {
		credvs = h.credvs
	}
	graphs := strs(req["graphs"])
	if len(graphs) == 0 {
		graphs = h.graphs
	}
	users := h.users
	if sel := strs(req["users"]); len(sel) > 0 {
		users = nil
		for _, u := range h.users {
			for _, s := range sel {
				if s == u.User {
					users = append(users, u)
				}
			}
		}
	}
	bulk := h.bulk
	if bl, ok := req["bulk"].([]interface{}); ok && len(bl) > 0 {
		bulk = nil
		for _, b := range bl {
			bulk = append(bulk, strs(b))
		}
	}
	only := map[string]bool{}
	for _, m := range strs(req["only"]) {
		only[m] = true
	}

	methods, err := servedMethods()
	if err != nil {
		return tool(err)
	}
	acc, cleanup, err := h.accountsConfig(req)
	if err != nil {
		return tool(err)
	}
	defer cleanup()

	e := &servedEnv{h: h, mode: mode, graphs: graphs, jobs: map[string]string{}, plugins: true}
	if v, ok := req["enable_plugins"].(bool); ok {
		e.plugins = v // probe only: with false Serve registers the nullPluginServer stub (outside the modelled wiring)
	}
	seen := map[string]bool{}
	for _, g := range graphs {
		if !seen[g] {
			seen[g] = true
			e.allg = append(e.allg, g)
		}
	}
	for _, b := range bulk {
		for _, g := range b {
			if !seen[g] {
				seen[g] = true
				e.allg = append(e.allg, g)
			}
		}
	}
	if mode != "open" {
		// the all-powerful user of the set-up: root (granted everything by the
		// deployed casbin model; any configured user will do for basic auth)
		for _, u := range h.users {
			if u.User == "root" || e.privHdr == "" {
				e.privHdr, _ = h.authHeader(u.User, "right")
			}
		}
	}
	tStart := time.Now()
	if err := e.start(acc, spied); err != nil {
		return tool(err)
	}
	dStart := time.Since(tStart)
	stopped := false
	defer func() {
		if !stopped {
			e.stop()
		}
	}()
	if err := e.rebuild(); err != nil {
		return tool(err)
	}
	e.baseline = e.storeFP()
	if err := e.ensureJobs(); err != nil {
		return tool(err)
	}

	minfo := []methodInfo{}
	for _, m := range methods {
		minfo = append(minfo, m.methodInfo)
	}
	resp["methods"] = minfo
	mm := map[string]string{}
	for k, v := range accounts.MethodMap {
		mm[k] = string(v)
	}
	resp["methodmap"] = mm
	rules := map[string]string{}
	for _, m := range methods {
		rules[m.Svc+"/"+m.Name] = m.verb + " " + m.path
	}
	resp["http_rules"] = rules

	// AddMapping goes last: with no accounts the server can read the stored
	// mapping back through its own RPC port and then routes the graph to a
	// gripper driver, which would change what the later calls act on
	order := make([]servedMethod, 0, len(methods))
	var last []servedMethod
	for _, m := range methods {
		if m.Svc+"/"+m.Name == "Edit/AddMapping" {
			last = append(last, m)
		} else {
			order = append(order, m)
		}
	}
	order = append(order, last...)

	calls := []callRec{}
	n := 0
	effects := 0
	dSetup := time.Since(tStart) - dStart
	tLoop := time.Now()
	var tCall, tFP, tRestore time.Duration // where the time goes (reported)
	cur := e.fp()                          // store, jobs and plugin directories before the next call
	for _, m := range order {
		key := m.Svc + "/" + m.Name
		if m.Kind == "bidi" || (len(only) > 0 && !only[key]) {
			continue
		}
		for _, tr := range []string{"served-grpc", "served-http"} {
			for ui, u := range users {
				for _, cv := range credvs {
					if cv == "none" && ui > 0 {
						continue // without credentials there is no claimed user
					}
					nvar := len(graphs)
					if m.Kind == "cstream" {
						nvar = len(bulk)
					} else if !m.Garg {
						nvar = 1
					}
					for gi := 0; gi < nvar; gi++ {
						n++
						cr := callRec{C: n, T: tr, M: key, User: u.User, Cred: credClass(cv), CredV: cv, G: "*", Elems: []string{}}
						var elems []*gripql.GraphElement
						var preq proto.Message
						if m.Kind == "cstream" {
							cr.Elems = bulk[gi]
							for idx, eg := range bulk[gi] {
								elems = append(elems, bulkElem(eg, n, idx))
							}
						} else {
							if m.Garg {
								cr.G = graphs[gi]
							}
							if preq, err = e.request(m, cr.G, n); err != nil {
								return tool(err)
							}
						}
						if key == "Edit/AddGraph" {
							// let the call have something to do: the graph is absent before it
							if err := e.gdb.DeleteGraph(cr.G); err != nil {
								return tool(toolf("AddGraph pre-step: %v", err))
							}
						}
						if key == "Edit/AddGraph" {
							cur = e.fp()
						}
						before := cur
						tag := fmt.Sprintf("%d", n)
						hdr, _ := h.authHeader(u.User, cv)
						ctx, cancel := context.WithTimeout(context.Background(), h.deadline)
						e.rec.beginCall(tag)
						t0 := time.Now()
						var o outcome
						if tr == "served-grpc" {
							kv := []string{tagKey, tag}
							if hdr != "" {
								kv = append(kv, "authorization", hdr)
							}
							o = e.callGRPC(metadata.AppendToOutgoingContext(ctx, kv...), m, preq, elems)
						} else {
							o = e.callHTTP(ctx, m, preq, elems, hdr, tag)
						}
						cancel()
						tCall += time.Since(t0)
						cr.Ms[0] = int(time.Since(t0).Milliseconds())
						evs := e.rec.endCall()
						t1 := time.Now()
						after := e.fp()
						if after.jobs != before.jobs {
							// a job started by the call writes on after the reply (its
							// directory is there before the reply)
							if err := e.settleJobs(); err != nil {
								return tool(err)
							}
						}
						tFP += time.Since(t1)
						effect := after != before
						var landed []string
						for idx, el := range elems {
							if gr, err := e.gdb.Graph(el.Graph); err == nil && gr.GetVertex(fmt.Sprintf("b%d_%d", n, idx), false) != nil {
								landed = append(landed, el.Graph)
							}
						}
						add := func(ev event) {
							ev.K = len(evs) + 1
							evs = append(evs, ev)
						}
						code := ""
						switch o.class {
						case "ran":
							code = "OK"
						case "unauthenticated":
							code = "Unauthenticated"
						case "denied":
							code = "PermissionDenied"
						case "refused":
							code = "Unknown"
						case "noreply":
							code = "NO_REPLY"
						default:
							code = "TIMEOUT"
							if o.raw != "" && !strings.Contains(o.msg, "deadline") {
								code = "TOOL"
							}
						}
						if o.class == "ran" || effect {
							add(event{E: "HandlerRan"}) // inferred, see the head of this file
							for _, g := range landed {
								add(event{E: "ElemForwarded", G: g})
							}
						}
						add(event{E: "Reply", Code: code, N: o.n, Msg: o.raw + " " + o.msg})
						cr.Ev = evs
						cr.Raw = o.raw
						cr.Effect = effect
						if effect {
							effects++
						}
						if code == "TIMEOUT" || code == "TOOL" {
							// no point in going on against a server in an unknown state
							resp["calls"] = append(calls, cr)
							resp["tool_err"] = fmt.Sprintf("%s over %s (user %s, credentials %s, graph %s): %s %s", key, tr, u.User, cv, cr.G, o.raw, o.msg)
							return resp
						}
						if effect || after.store != e.baseline {
							t0 = time.Now()
							if cur, err = e.restore(after); err != nil {
								return tool(err)
							}
							tRestore += time.Since(t0)
							cr.Ms[1] = int(time.Since(t0).Milliseconds())
						}
						calls = append(calls, cr)
					}
				}
			}
		}
	}
	e.rec.mu.Lock()
	resp["foreign"] = e.rec.foreign
	resp["stray"] = e.rec.stray
	e.rec.mu.Unlock()
	resp["effects"] = effects
	dLoop := time.Since(tLoop)
	tStop := time.Now()
	resp["leaked"] = e.leaked
	resp["serve_stuck"] = e.stop()
	stopped = true
	resp["timing_s"] = map[string]float64{"start": dStart.Seconds(), "setup": dSetup.Seconds(), "loop": dLoop.Seconds(), "stop": time.Since(tStop).Seconds(),
		"calls": tCall.Seconds(), "fingerprints": tFP.Seconds(), "restore": tRestore.Seconds()}
	resp["calls"] = calls
	return resp
}
