// Package pipeh is the C07 binding: it instantiates the behaviour classes of
// spec/pipeline (stage sequence x volume relative to the channel capacities x
// cancellation point) on the real engine - generated star / chain / bipartite
// graphs in kvgraph over Badger, graph.Compiler().Compile + pipeline.Run - and
// records the externally visible events of every run: start, first row, the
// cancel (after how many rows), close (with the row count), and after the
// close the goroutines that were not there before the run and the entries
// left in the engine's work directory.
//
// A traversal that does not finish is never answered by this process.  A
// watchdog waits for a deadline that is generous for these workloads, then
// takes two goroutine dumps some seconds apart; if no row was delivered in
// between and every goroutine of the pipeline is parked in the same channel
// operation in both, it writes a `C07STUCK {...}` report (stderr and
// $TMPDIR/c07stuck.log, with the pid) and ends the worker.  The supervisor
// (harness/sup) then retries the request on a fresh worker; the check counts a
// run as blocked only when two different workers reported it.  A run that is
// merely slow is reported as C07SLOW and the worker keeps waiting (the
// supervisor's own deadline is the backstop).
package pipeh

import (
	"context"
	"encoding/json"
	"fmt"
	"os"
	"path/filepath"
	"reflect"
	"regexp"
	"runtime"
	"sort"
	"strconv"
	"strings"
	"sync/atomic"
	"time"

	"verifharness/gstore"
	"verifharness/qry"
	"verifharness/sup"

	"github.com/bmeg/grip/engine/core"
	"github.com/bmeg/grip/engine/pipeline"
	"github.com/bmeg/grip/gdbi"
)

type handler struct {
	st       *gstore.Store
	graphs   map[string]gdbi.GraphInterface
	work     string
	watchdog time.Duration
	settle   time.Duration
	warmed   bool
}

// New returns the request handler of a worker process.
func New() sup.Handler {
	return &handler{graphs: map[string]gdbi.GraphInterface{}, watchdog: 40 * time.Second, settle: 10 * time.Second}
}

func (h *handler) Setup(req map[string]interface{}) error {
	if h.st == nil {
		st, err := gstore.Open("badger")
		if err != nil {
			return err
		}
		h.st = st
		h.work, _ = os.MkdirTemp("", "vpipe_work_")
	}
	if w, ok := req["watchdog_s"].(float64); ok && w > 0 {
		h.watchdog = time.Duration(w * float64(time.Second))
	}
	if w, ok := req["settle_s"].(float64); ok && w > 0 {
		h.settle = time.Duration(w * float64(time.Second))
	}
	return nil
}

func (h *handler) Close() {
	if h.st != nil {
		h.st.Destroy()
	}
	if h.work != "" {
		os.RemoveAll(h.work)
	}
}

// ---------------------------------------------------------------- graphs

func num(m map[string]interface{}, k string) int {
	f, _ := m[k].(float64)
	return int(f)
}

// GraphName is the store name of a generated graph.
func GraphName(g map[string]interface{}) string {
	return fmt.Sprintf("%v_%d_%d", g["shape"], num(g, "n"), num(g, "m"))
}

func vdata(i int) map[string]interface{} {
	return map[string]interface{}{"k": float64(i % 7), "tags": []interface{}{"t1", "t2"}}
}

// generate streams the elements of the graph families of PipeAbs.tla:
//
//	star(n):   centre "c" (label C), leaves "l<i>" (label L), edges c -> l<i>        i < n
//	chain(n):  "v<i>" (label L) i < n, edges v<i> -> v<i+1>                            i < n-1
//	bip(n,m):  "a<i>" (label L) i < n, "b<j>" (label R) j < m, edges a<i> -> b<j>      all pairs
func generate(g map[string]interface{}, out chan<- *gdbi.GraphElement) error {
	n, m := num(g, "n"), num(g, "m")
	name := GraphName(g)
	v := func(id, label string, i int) {
		out <- &gdbi.GraphElement{Graph: name, Vertex: &gdbi.Vertex{ID: id, Label: label, Data: vdata(i), Loaded: true}}
	}
	e := func(id, from, to string) {
		out <- &gdbi.GraphElement{Graph: name, Edge: &gdbi.Edge{ID: id, Label: "e", From: from, To: to, Data: map[string]interface{}{"w": 1.0}, Loaded: true}}
	}
	switch g["shape"] {
	case "star":
		v("c", "C", 0)
		for i := 0; i < n; i++ {
			v("l"+strconv.Itoa(i), "L", i)
		}
		for i := 0; i < n; i++ {
			e("e"+strconv.Itoa(i), "c", "l"+strconv.Itoa(i))
		}
	case "chain":
		for i := 0; i < n; i++ {
			v("v"+strconv.Itoa(i), "L", i)
		}
		for i := 0; i+1 < n; i++ {
			e("e"+strconv.Itoa(i), "v"+strconv.Itoa(i), "v"+strconv.Itoa(i+1))
		}
	case "bip":
		for i := 0; i < n; i++ {
			v("a"+strconv.Itoa(i), "L", i)
		}
		for j := 0; j < m; j++ {
			v("b"+strconv.Itoa(j), "R", j)
		}
		for i := 0; i < n; i++ {
			for j := 0; j < m; j++ {
				e("e"+strconv.Itoa(i)+"_"+strconv.Itoa(j), "a"+strconv.Itoa(i), "b"+strconv.Itoa(j))
			}
		}
	default:
		return fmt.Errorf("unknown shape %v", g["shape"])
	}
	return nil
}

func (h *handler) graph(g map[string]interface{}) (gdbi.GraphInterface, error) {
	name := GraphName(g)
	if gi, ok := h.graphs[name]; ok {
		return gi, nil
	}
	if err := h.st.DB.AddGraph(name); err != nil {
		return nil, err
	}
	gi, err := h.st.DB.Graph(name)
	if err != nil {
		return nil, err
	}
	ch := make(chan *gdbi.GraphElement, 100)
	var gerr error
	go func() {
		defer close(ch)
		gerr = generate(g, ch)
	}()
	if err := gi.BulkAdd(ch); err != nil {
		return nil, fmt.Errorf("BulkAdd: %v", err)
	}
	if gerr != nil {
		return nil, gerr
	}
	h.graphs[name] = gi
	return gi, nil
}

// ---------------------------------------------------------------- scan probe

// probeGraph counts the elements the full scans of the source hand to the
// engine.  It is used only for the runs that ask whether the source stops
// after a cancel / a satisfied limit; every other run uses the store's graph
// object unchanged.
type probeGraph struct {
	gdbi.GraphInterface
	scanned int64
}

func (g *probeGraph) Compiler() gdbi.Compiler { return core.NewCompiler(g, core.IndexStartOptimize) }

func (g *probeGraph) GetVertexList(ctx context.Context, load bool) <-chan *gdbi.Vertex {
	in := g.GraphInterface.GetVertexList(ctx, load)
	out := make(chan *gdbi.Vertex)
	go func() {
		defer close(out)
		for v := range in {
			atomic.AddInt64(&g.scanned, 1)
			out <- v
		}
	}()
	return out
}

func (g *probeGraph) GetEdgeList(ctx context.Context, load bool) <-chan *gdbi.Edge {
	in := g.GraphInterface.GetEdgeList(ctx, load)
	out := make(chan *gdbi.Edge)
	go func() {
		defer close(out)
		for v := range in {
			atomic.AddInt64(&g.scanned, 1)
			out <- v
		}
	}()
	return out
}

func (g *probeGraph) VertexLabelScan(ctx context.Context, label string) chan string {
	in := g.GraphInterface.VertexLabelScan(ctx, label)
	out := make(chan string)
	go func() {
		defer close(out)
		for v := range in {
			atomic.AddInt64(&g.scanned, 1)
			out <- v
		}
	}()
	return out
}

// ---------------------------------------------------------------- goroutine dumps

type gor struct {
	ID    int
	State string // "chan send", "chan receive", "select", "running", ...
	Mins  int    // minutes in that state, as printed by the runtime
	Fn    string // innermost grip (or harness scan probe) frame; "" if none
	Top   string // innermost frame
	Store bool   // the goroutine waits inside the key-value store (possibly for I/O), not in engine code
}

var headRe = regexp.MustCompile(`^goroutine (\d+) \[([^\],]+)(?:, (\d+) minutes)?(?:, locked to thread)?\]:$`)

func dump() []gor {
	buf := make([]byte, 1<<20)
	for {
		n := runtime.Stack(buf, true)
		if n < len(buf) {
			buf = buf[:n]
			break
		}
		buf = make([]byte, 2*len(buf))
	}
	var out []gor
	for _, blk := range strings.Split(string(buf), "\n\n") {
		lines := strings.Split(strings.TrimSpace(blk), "\n")
		if len(lines) == 0 {
			continue
		}
		m := headRe.FindStringSubmatch(lines[0])
		if m == nil {
			continue
		}
		g := gor{State: m[2]}
		inner := false
		g.ID, _ = strconv.Atoi(m[1])
		g.Mins, _ = strconv.Atoi(m[3])
		for _, l := range lines[1:] {
			if strings.HasPrefix(l, "\t") || strings.HasPrefix(l, "created by ") {
				continue
			}
			fn := l
			if i := strings.LastIndex(fn, "("); i > 0 {
				fn = fn[:i]
			}
			if g.Top == "" {
				g.Top = fn
			}
			if !inner && !strings.HasPrefix(fn, "sync.") && !strings.HasPrefix(fn, "runtime.") && !strings.HasPrefix(fn, "golang.org/x/sync/") {
				// the innermost frame that is not a synchronisation primitive says where the goroutine waits
				inner = true
				g.Store = strings.Contains(fn, "dgraph-io/") || strings.Contains(fn, "/grip/kvi/")
			}
			if g.Fn == "" && (strings.HasPrefix(fn, "github.com/bmeg/grip/") || strings.HasPrefix(fn, "verifharness/pipeh.(*probeGraph)")) {
				g.Fn = strings.TrimPrefix(fn, "github.com/bmeg/grip/")
			}
		}
		out = append(out, g)
	}
	return out
}

func ids(gs []gor) map[int]bool {
	m := map[int]bool{}
	for _, g := range gs {
		m[g.ID] = true
	}
	return m
}

// ---------------------------------------------------------------- one run

// Event is one externally visible event of a run.
type Event struct {
	E    string `json:"e"`
	Rows int    `json:"rows"`
}

type blockedAt struct {
	Fn    string `json:"fn"`
	State string `json:"state"`
	N     int    `json:"n"`
}

func summarize(gs []gor) []blockedAt {
	m := map[string]*blockedAt{}
	for _, g := range gs {
		k := g.Fn + "|" + g.State
		if m[k] == nil {
			m[k] = &blockedAt{Fn: g.Fn, State: g.State}
		}
		m[k].N++
	}
	out := []blockedAt{}
	for _, b := range m {
		out = append(out, *b)
	}
	sort.Slice(out, func(i, j int) bool { return out[i].Fn+out[i].State < out[j].Fn+out[j].State })
	return out
}

// a goroutine is parked when it waits in a channel operation (or for other goroutines) outside the
// key-value store; anything else may still be working
var parkedStates = map[string]bool{"chan send": true, "chan receive": true, "select": true, "semacquire": true, "sync.WaitGroup.Wait": true,
	"chan send (nil chan)": true, "chan receive (nil chan)": true, "select (no cases)": true}

func parked(g gor) bool { return parkedStates[g.State] && !g.Store }

// watch prints the stall report; it never answers the request itself.
func (h *handler) watch(i interface{}, before map[int]bool, rows *int64, procs []string, stop <-chan struct{}) {
	select {
	case <-stop:
		return
	case <-time.After(h.watchdog):
	}
	pipe := func() ([]gor, bool) {
		var gs []gor
		all := true
		for _, g := range dump() {
			if before[g.ID] || g.Fn == "" || strings.HasPrefix(g.Fn, "verifharness/pipeh.(*handler)") {
				continue
			}
			gs = append(gs, g)
			if !parked(g) {
				all = false
			}
		}
		sort.Slice(gs, func(a, b int) bool { return gs[a].ID < gs[b].ID })
		return gs, all
	}
	r1 := atomic.LoadInt64(rows)
	a, pa := pipe()
	select {
	case <-stop:
		return
	case <-time.After(5 * time.Second):
	}
	r2 := atomic.LoadInt64(rows)
	b, pb := pipe()
	same := len(a) == len(b)
	if same {
		for j := range a {
			if a[j].ID != b[j].ID || a[j].State != b[j].State || a[j].Fn != b[j].Fn {
				same = false
			}
		}
	}
	rep := map[string]interface{}{"i": i, "pid": os.Getpid(), "rows": r2, "procs": procs, "after_s": int(h.watchdog.Seconds()) + 5, "blocked": summarize(b)}
	stuck := r1 == r2 && same && pa && pb && len(b) > 0
	tag := "C07SLOW"
	if stuck {
		tag = "C07STUCK"
	}
	js, _ := json.Marshal(rep)
	fmt.Fprintf(os.Stderr, "\n%s %s\n", tag, js)
	if f, err := os.OpenFile(filepath.Join(os.TempDir(), "c07stuck.log"), os.O_APPEND|os.O_CREATE|os.O_WRONLY, 0o644); err == nil {
		fmt.Fprintf(f, "%s %s\n", tag, js)
		f.Close()
	}
	if stuck {
		// the blocked goroutines can never be reclaimed: end this worker (no answer for the request)
		h.Close()
		os.Exit(3)
	}
}

func procNames(p gdbi.Pipeline) []string {
	out := []string{}
	for _, x := range p.Processors() {
		t := reflect.TypeOf(x)
		for t.Kind() == reflect.Ptr {
			t = t.Elem()
		}
		out = append(out, t.Name())
	}
	return out
}

// expandIDs replaces the id "@1" of a V(ids) start by the ids of the vertices of class 1 of
// PipeAbs.tla: the centre of a star, the head of a chain, the left side of a bipartite graph.
func expandIDs(gspec map[string]interface{}, prog []interface{}) []interface{} {
	if len(prog) == 0 {
		return prog
	}
	st, _ := prog[0].(map[string]interface{})
	ids, _ := st["ids"].([]interface{})
	if len(ids) != 1 || ids[0] != "@1" {
		return prog
	}
	real := []interface{}{}
	switch gspec["shape"] {
	case "star":
		real = append(real, "c")
	case "chain":
		if num(gspec, "n") > 0 {
			real = append(real, "v0")
		}
	case "bip":
		for i := 0; i < num(gspec, "n"); i++ {
			real = append(real, "a"+strconv.Itoa(i))
		}
	}
	if len(real) == 0 {
		real = append(real, "nobody") // V() with an empty id list would scan everything
	}
	first := map[string]interface{}{}
	for k, v := range st {
		first[k] = v
	}
	first["ids"] = real
	return append([]interface{}{first}, prog[1:]...)
}

func (h *handler) warm() {
	// one traversal with a temporary store, so that lazily started runtime / Badger helpers exist
	// before the first baseline is taken
	g, err := h.graph(map[string]interface{}{"shape": "star", "n": 3.0, "m": 0.0})
	if err != nil {
		return
	}
	q, _ := qry.Parse("w", []interface{}{map[string]interface{}{"op": "V", "ids": []interface{}{}}, map[string]interface{}{"op": "both", "labels": []interface{}{}},
		map[string]interface{}{"op": "distinct", "fields": []interface{}{}}})
	pipe, err := g.Compiler().Compile(q.Query, nil)
	if err != nil {
		return
	}
	wd := filepath.Join(h.work, "warm")
	os.MkdirAll(wd, 0o755)
	for range pipeline.Run(context.Background(), pipe, wd) {
	}
	os.RemoveAll(wd)
	time.Sleep(50 * time.Millisecond)
	h.warmed = true
}

func (h *handler) Handle(req map[string]interface{}) interface{} {
	resp := map[string]interface{}{"i": req["i"]}
	if h.st == nil {
		if err := h.Setup(map[string]interface{}{}); err != nil {
			resp["harness_err"] = err.Error()
			return resp
		}
	}
	gspec, _ := req["graph"].(map[string]interface{})
	t0 := time.Now()
	base, err := h.graph(gspec)
	if err != nil {
		resp["harness_err"] = err.Error()
		return resp
	}
	if !h.warmed {
		h.warm()
	}
	resp["build_ms"] = time.Since(t0).Milliseconds()
	prog, _ := req["prog"].([]interface{})
	prog = expandIDs(gspec, prog)
	q, err := qry.Parse(GraphName(gspec), prog)
	if err != nil {
		resp["wire_err"] = err.Error()
		return resp
	}
	var g gdbi.GraphInterface = base
	var pg *probeGraph
	if p, _ := req["probe"].(bool); p {
		pg = &probeGraph{GraphInterface: base}
		g = pg
	}
	cancelAt := -1
	if c, ok := req["cancel"].(float64); ok {
		cancelAt = int(c)
	}
	wd := filepath.Join(h.work, fmt.Sprintf("r%v", req["i"]))
	if err := os.MkdirAll(wd, 0o755); err != nil {
		resp["harness_err"] = err.Error()
		return resp
	}
	defer os.RemoveAll(wd)

	pipe, err := g.Compiler().Compile(q.Query, nil)
	if err != nil {
		resp["err"] = err.Error()
		return resp
	}
	procs := procNames(pipe)
	resp["procs"] = procs

	before := dump()
	beforeIDs := ids(before)
	resp["g0"] = len(before)

	var rows int64
	stop := make(chan struct{})
	go h.watch(req["i"], beforeIDs, &rows, procs, stop)

	events := []Event{{E: "start"}}
	ctx, cancel := context.WithCancel(context.Background())
	defer cancel()
	t1 := time.Now()
	res := pipeline.Run(ctx, pipe, wd)
	n := 0
	if cancelAt == 0 {
		cancel()
		events = append(events, Event{E: "cancel", Rows: 0})
	}
	for range res {
		n++
		atomic.StoreInt64(&rows, int64(n))
		if n == 1 {
			events = append(events, Event{E: "first", Rows: 1})
		}
		if n == cancelAt {
			cancel()
			events = append(events, Event{E: "cancel", Rows: n})
		}
	}
	events = append(events, Event{E: "close", Rows: n})
	close(stop)
	resp["run_ms"] = time.Since(t1).Milliseconds()
	resp["rows"] = n
	if pg != nil {
		resp["scanned"] = atomic.LoadInt64(&pg.scanned)
	}

	// release: goroutines that did not exist before the run and still exist after a settle period
	var leaked []gor
	var total int
	deadline := time.Now().Add(h.settle)
	for {
		leaked = leaked[:0]
		after := dump()
		total = len(after)
		for _, x := range after {
			if !beforeIDs[x.ID] && !strings.HasPrefix(x.Fn, "verifharness/pipeh.(*handler)") && !strings.HasPrefix(x.Top, "verifharness/pipeh.(*handler)") {
				leaked = append(leaked, x)
			}
		}
		if len(leaked) == 0 || time.Now().After(deadline) {
			break
		}
		time.Sleep(10 * time.Millisecond)
	}
	resp["g1"] = total
	grip, other := []blockedAt{}, 0
	var gl []gor
	for _, x := range leaked {
		if x.Fn != "" {
			gl = append(gl, x)
		} else {
			other++
		}
	}
	grip = summarize(gl)
	left := []string{}
	if ents, err := os.ReadDir(wd); err == nil {
		for _, e := range ents {
			left = append(left, e.Name())
		}
	}
	events = append(events, Event{E: "released", Rows: n})
	resp["events"] = events
	resp["leak_grip"] = grip
	resp["leak_grip_n"] = len(gl)
	resp["leak_other_n"] = other
	resp["work_left"] = left
	return resp
}
