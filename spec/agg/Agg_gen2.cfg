CONSTANTS
 Mode = "gen"
 MaxRows = 2
SPECIFICATION Spec
INVARIANT EmitCase
INVARIANT SelfCheck
CHECK_DEADLOCK FALSE
