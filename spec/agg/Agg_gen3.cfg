CONSTANTS
 Mode = "gen"
 MaxRows = 3
SPECIFICATION Spec
INVARIANT EmitCase
INVARIANT SelfCheck
CHECK_DEADLOCK FALSE
