------------------------------ MODULE Agg ------------------------------
(* C19: what aggregate() may return for a multiset of field values.      *)
(* Property-level: acceptance predicates, not an algorithm.              *)
(*   count      one bucket holding the number of input rows              *)
(*   term       every distinct scalar value with its exact frequency;    *)
(*              with size > 0 any `size` buckets such that no excluded   *)
(*              bucket is more frequent than an included one             *)
(*   histogram  buckets aligned to multiples of the interval; every      *)
(*              numeric value lies in exactly one reported bucket whose  *)
(*              count is exact; non-numeric values are ignored           *)
(*   field      keys of map values with exact frequencies                *)
(*   type       value types present with exact frequencies               *)
(*   percentile one value per requested percent, non-decreasing in p and *)
(*              between the minimum and maximum numeric value            *)
(* Mode "gen": TLC enumerates inputs x aggregations and prints the cases.*)
(* Mode "judge": TLC reads what the real engine returned for each case   *)
(* (obs.ndjson) and prints a verdict per case - the acceptance decision  *)
(* is taken by this specification, not by the harness.                   *)
EXTENDS Values, SequencesExt, FiniteSetsExt, IOUtils

CONSTANTS Mode, MaxRows

ValSet == { MISSING, Null, B(TRUE), N(-3), N(-1), N(0), N(1), N(2), S("a"), S("b"), L(<<N(1)>>), M([k |-> N(1)]),
            M([k |-> N(2), j |-> S("a")]) }

IsScalar(v) == v[1] \in {"b", "n", "s"}
IsNumeric(v) == v[1] = "n"

Term(n, sz)  == [name |-> n, t |-> "term", field |-> "x", size |-> sz]
Hist(n, i)   == [name |-> n, t |-> "histogram", field |-> "x", interval |-> i]
Pct(n, ps)   == [name |-> n, t |-> "percentile", field |-> "x", percents |-> ps]
Fld(n)       == [name |-> n, t |-> "field", field |-> "x"]
Typ(n)       == [name |-> n, t |-> "type", field |-> "x"]
Cnt(n)       == [name |-> n, t |-> "count"]

Singles == { Term("a1", 0), Term("a1", 1), Term("a1", 2), Term("a1", 5), Hist("a1", 1), Hist("a1", 2), Hist("a1", 5),
             Pct("a1", <<50>>), Pct("a1", <<25, 75>>), Pct("a1", <<0, 100>>), Fld("a1"), Typ("a1"), Cnt("a1") }
Pairs == { <<Term("a1", 0), Cnt("a2")>>, <<Hist("a1", 2), Term("a2", 1)>>, <<Cnt("a1"), Cnt("a2")>>,
           <<Typ("a1"), Fld("a2")>>, <<Pct("a1", <<50>>), Hist("a2", 1)>>, <<Term("a1", 2), Term("a2", 0)>> }
AggLists == { <<a>> : a \in Singles } \cup Pairs

------------------------------------------------------------------------
(* acceptance                                                            *)
Count(vals, P(_)) == Cardinality({i \in DOMAIN vals : P(vals[i])})
Freq(vals, v) == Cardinality({i \in DOMAIN vals : vals[i] = v})

\* rows: sequence of [key |-> tagged value, value |-> integer] reported for one aggregation
Keys(rows) == {rows[i].key : i \in DOMAIN rows}
DistinctKeys(rows) == Cardinality(Keys(rows)) = Len(rows)

AcceptCount(vals, rows) == Len(rows) = 1 /\ rows[1].value = Len(vals)

AcceptTerm(vals, sz, rows) ==
  LET terms == {vals[i] : i \in {j \in DOMAIN vals : IsScalar(vals[j])}}
      want  == IF sz = 0 \/ sz >= Cardinality(terms) THEN Cardinality(terms) ELSE sz
  IN /\ DistinctKeys(rows)
     /\ Keys(rows) \subseteq terms
     /\ \A i \in DOMAIN rows : rows[i].value = Freq(vals, rows[i].key)
     /\ Len(rows) = want
     /\ \A t \in terms \ Keys(rows) : \A k \in Keys(rows) : Freq(vals, t) <= Freq(vals, k)

AcceptHist(vals, iv, rows) ==
  LET nums == {i \in DOMAIN vals : IsNumeric(vals[i])}
      bucket(v) == (v \div iv) * iv
  IN /\ DistinctKeys(rows)
     /\ \A i \in DOMAIN rows : /\ rows[i].key[1] = "n"
                               /\ rows[i].key[2] % iv = 0
                               /\ rows[i].value = Cardinality({j \in nums : bucket(vals[j][2]) = rows[i].key[2]})
     /\ \A j \in nums : N(bucket(vals[j][2])) \in Keys(rows)

AcceptField(vals, rows) ==
  LET maps == {i \in DOMAIN vals : IsMap(vals[i])}
      ks   == UNION {DOMAIN vals[i][2] : i \in maps}
  IN /\ DistinctKeys(rows)
     /\ Keys(rows) = {S(k) : k \in ks}
     /\ \A i \in DOMAIN rows : rows[i].value = Cardinality({j \in maps : rows[i].key[2] \in DOMAIN vals[j][2]})

TypeOf(v) == CASE v[1] = "n" -> "NUMERIC" [] v[1] = "s" -> "STRING" [] v[1] = "b" -> "BOOL" [] OTHER -> "UNKNOWN"
AcceptType(vals, rows) ==
  LET tys == {TypeOf(vals[i]) : i \in DOMAIN vals}
  IN /\ DistinctKeys(rows)
     /\ Keys(rows) = {S(t) : t \in tys}
     /\ \A i \in DOMAIN rows : rows[i].value = Cardinality({j \in DOMAIN vals : TypeOf(vals[j]) = rows[i].key[2]})

\* percentile values arrive scaled by 1000 (TLC has no fractions)
AcceptPct(vals, ps, rows) ==
  LET nums == {vals[i][2] : i \in {j \in DOMAIN vals : IsNumeric(vals[j])}}
      at(p) == {i \in DOMAIN rows : rows[i].key = N(p)}
  IN IF nums = {} THEN TRUE      \* no numeric value: nothing is promised
     ELSE /\ Len(rows) = Len(ps)
          /\ \A k \in DOMAIN ps : Cardinality(at(ps[k])) >= 1
          /\ \A i \in DOMAIN rows : rows[i].value >= 1000 * Min(nums) /\ rows[i].value <= 1000 * Max(nums)
          /\ \A i, j \in DOMAIN rows : rows[i].key[2] <= rows[j].key[2] => rows[i].value <= rows[j].value

Accept(vals, a, rows) ==
  CASE a.t = "count"      -> AcceptCount(vals, rows)
    [] a.t = "term"       -> AcceptTerm(vals, a.size, rows)
    [] a.t = "histogram"  -> AcceptHist(vals, a.interval, rows)
    [] a.t = "field"      -> AcceptField(vals, rows)
    [] a.t = "type"       -> AcceptType(vals, rows)
    [] a.t = "percentile" -> AcceptPct(vals, a.percents, rows)

------------------------------------------------------------------------
VARIABLES vals, aggs, l
vars == <<vals, aggs, l>>

\* ---- gen: grow the input one value at a time, choose the aggregations at the end
GenInit == vals = <<>> /\ aggs = <<>> /\ l = 0
GenNext == /\ aggs = <<>>
           /\ \/ (Len(vals) < MaxRows /\ \E v \in ValSet : vals' = Append(vals, v) /\ UNCHANGED <<aggs, l>>)
              \/ (\E as \in AggLists : aggs' = as /\ UNCHANGED <<vals, l>>)
EmitCase == aggs # <<>> => Emit("case", [vals |-> vals, aggs |-> aggs])

\* ---- judge: one observation per step
ObsFile == IF Mode = "judge" THEN ndJsonDeserialize("obs.ndjson") ELSE <<>>
RowsOf(o, name) == SelectSeq(o.rows, LAMBDA r : r.name = name)
Verdict(o) ==
  [i |-> o.i,
   bad |-> {k \in DOMAIN o.aggs : ~Accept(o.vals, o.aggs[k], RowsOf(o, o.aggs[k].name))},
   foreign |-> {k \in DOMAIN o.rows : \A j \in DOMAIN o.aggs : o.aggs[j].name # o.rows[k].name}]
JudgeInit == vals = <<>> /\ aggs = <<>> /\ l = 1
JudgeNext == l <= Len(ObsFile) /\ l' = l + 1 /\ UNCHANGED <<vals, aggs>>
EmitVerdict == (Mode = "judge" /\ l <= Len(ObsFile)) => Emit("verdict", Verdict(ObsFile[l]))

Init == IF Mode = "gen" THEN GenInit ELSE JudgeInit
Next == IF Mode = "gen" THEN GenNext ELSE JudgeNext
Spec == Init /\ [][Next]_vars

\* the predicates are satisfiable and consistent: the exact answer passes, a perturbed one does not
ExactTerm(vs) == LET terms == {vs[i] : i \in {j \in DOMAIN vs : IsScalar(vs[j])}}
                 IN SetToSeq({[key |-> t, value |-> Freq(vs, t)] : t \in terms})
SelfCheck == (Mode = "gen" /\ aggs = <<>>) =>
               /\ AcceptTerm(vals, 0, ExactTerm(vals))
               /\ AcceptCount(vals, <<[key |-> S("count"), value |-> Len(vals)]>>)
               /\ ~AcceptCount(vals, <<[key |-> S("count"), value |-> Len(vals) + 1]>>)
               /\ (ExactTerm(vals) # <<>> => ~AcceptTerm(vals, 0, Tail(ExactTerm(vals))))
=======================================================================
