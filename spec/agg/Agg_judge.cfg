CONSTANTS
 Mode = "judge"
 MaxRows = 0
SPECIFICATION Spec
INVARIANT EmitVerdict
CHECK_DEADLOCK FALSE
