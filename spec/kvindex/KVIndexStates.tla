--------------------------- MODULE KVIndexStates ---------------------------
(* Placeholder: the check driver overwrites this module in the scratch copy *)
(* with the abstract states visited by the generated histories.             *)
EXTENDS Integers, TLC
StateSeq == << [fields |-> {}, docs |-> <<>>, open |-> {}] >>
=============================================================================
