CONSTANTS
  FieldSet = {"f"}
  DocSet = {"d1"}
  StrTerms = {"a"}
  NumTerms <- Halves3
  Bounds <- BoundsVol
  MaxLen = 0
  EmitAll = TRUE
  Avoid = {}
SPECIFICATION Spec
INVARIANT Registered
INVARIANT NoOpenIfAvoided
INVARIANT OpenIsRemovedSinceAdded
INVARIANT TypeOK
INVARIANT EmitNode
CHECK_DEADLOCK FALSE
