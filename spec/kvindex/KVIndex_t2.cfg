CONSTANTS
  FieldSet = {"f", "g.h"}
  DocSet = {"d1", "d2"}
  StrTerms = {"a"}
  NumTerms <- Halves0
  Bounds <- Bounds4
  MaxLen = 5
  EmitAll = TRUE
  Avoid = {}
SPECIFICATION Spec
INVARIANT Registered
INVARIANT NoOpenIfAvoided
INVARIANT OpenIsRemovedSinceAdded
INVARIANT TypeOK
INVARIANT EmitNode
CHECK_DEADLOCK FALSE
