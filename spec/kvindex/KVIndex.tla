------------------------------ MODULE KVIndex ------------------------------
(* C09: a secondary index answers every query exactly like a brute-force   *)
(* scan over the currently live documents.                                 *)
(*                                                                         *)
(* Abstract state (nothing about keys, counters or caches):                *)
(*   fields : the set of registered (indexed) field paths                  *)
(*   docs   : live documents, docid -> [path -> term]                      *)
(* A term is <<"s", text>> or <<"n", k>>.  Numbers are kept as integers;   *)
(* the binding maps them to floats by an order-preserving injection        *)
(* (k/2 by default, so odd k are fractions) - every query below depends    *)
(* on numbers only through = and <.                                        *)
(*                                                                         *)
(* The module is used in two ways (selected by the cfg):                   *)
(*   generation : Init/Next with the history variable `hist`; TLC          *)
(*                enumerates all histories up to MaxLen (or walks randomly *)
(*                with -simulate) and prints them with the abstract state  *)
(*                after every step;                                        *)
(*   oracle     : OInit/ONext ranges over the tuple `StateSeq` (module     *)
(*                KVIndexStates, rewritten by the check driver with the    *)
(*                abstract states the generated histories visit) and       *)
(*                prints the answer of EVERY query for every field, term   *)
(*                and range of the universe - the brute-force scans below. *)
(***************************************************************************)
EXTENDS Values, KVIndexStates

CONSTANTS FieldSet,   \* field paths of the universe, e.g. {"f", "g.h"}
          DocSet,     \* document ids
          StrTerms,   \* texts of the string terms
          NumTerms,   \* integers k of the number terms
          Bounds,     \* integers used as range limits (some equal to terms, some strictly between)
          MaxLen,     \* history bound
          EmitAll,    \* TRUE: print every history (exhaustive runs); FALSE: only complete walks
          Avoid       \* set of action shapes left out of generation (known-finding protocol): "replace"

\* number universes selectable from a cfg (cfg files cannot write negative literals)
Halves7 == {-4, -2, -1, 0, 1, 2, 4}      \* -2, -1, -1/2, 0, 1/2, 1, 2
Halves5 == {-4, -1, 0, 1, 4}             \* -2, -1/2, 0, 1/2, 2
Halves3 == {-1, 0, 2}                    \* -1/2, 0, 1
Halves1 == {-1}
Halves0 == {}
BoundsVol == {-1000, -3, 0, 3, 1000}
Bounds7 == {-5, -3, -1, 0, 1, 3, 5}
Bounds5 == {-5, -2, 0, 1, 5}
Bounds4 == {-3, -1, 0, 3}

VARIABLES fields, docs, hist, sts

vars == <<fields, docs, hist, sts>>

Terms == {S(x) : x \in StrTerms} \cup {N(k) : k \in NumTerms}

\* all documents over a set F of paths (partial functions F -> Terms, including the empty document)
DocVals(F) == UNION {[D -> Terms] : D \in SUBSET F}

Abs == [fields |-> fields, docs |-> docs]

-----------------------------------------------------------------------------
(* Actions.  What the index holds for a document that was added while one  *)
(* of its paths was NOT registered is left open by the property, so        *)
(* generation keeps out of that corner: a document only carries paths that *)
(* are registered when it is added, and a path is (re-)registered only     *)
(* while no live document carries it.                                      *)

AddField(f) ==
  /\ f \notin fields
  /\ \A d \in DOMAIN docs : f \notin DOMAIN docs[d]
  /\ fields' = fields \cup {f}
  /\ UNCHANGED docs

RemoveField(f) ==
  /\ f \in fields
  /\ fields' = fields \ {f}
  /\ UNCHANGED docs

\* insert or replace
AddDoc(d, v) ==
  /\ DOMAIN v \subseteq fields
  /\ "replace" \in Avoid => d \notin DOMAIN docs
  /\ docs' = [x \in DOMAIN docs \cup {d} |-> IF x = d THEN v ELSE docs[x]]
  /\ UNCHANGED fields

\* removing an absent document is allowed and changes nothing
RemoveDoc(d) ==
  /\ docs' = [x \in DOMAIN docs \ {d} |-> docs[x]]
  /\ UNCHANGED fields

Record(op) ==
  /\ hist' = Append(hist, op)
  /\ sts'  = Append(sts, [fields |-> fields', docs |-> docs'])

Init == fields = {} /\ docs = <<>> /\ hist = <<>> /\ sts = <<>>

StepAddField    == \E f \in FieldSet : AddField(f)    /\ Record([op |-> "AddField", f |-> f])
StepRemoveField == \E f \in FieldSet : RemoveField(f) /\ Record([op |-> "RemoveField", f |-> f])
StepAddDoc      == \E d \in DocSet : \E v \in DocVals(fields) :
                       AddDoc(d, v) /\ Record([op |-> "AddDoc", d |-> d, v |-> v])
StepRemoveDoc   == \E d \in DocSet : RemoveDoc(d) /\ Record([op |-> "RemoveDoc", d |-> d])

Next == /\ Len(hist) < MaxLen
        /\ \/ StepAddField
           \/ StepRemoveField
           \/ StepAddDoc
           \/ StepRemoveDoc

\* random walks: TLC's simulator draws uniformly among ALL successor states, so the many possible
\* document values would crowd out removals and field changes; here a step offers, per document
\* id, three randomly drawn values only
StepAddDocSome == \E d \in DocSet :
                    \E v \in {RandomElement(DocVals(fields)), RandomElement(DocVals(fields)), RandomElement(DocVals(fields))} :
                       AddDoc(d, v) /\ Record([op |-> "AddDoc", d |-> d, v |-> v])
SimNext == /\ Len(hist) < MaxLen
           /\ \/ StepAddField
              \/ StepRemoveField
              \/ StepAddDocSome
              \/ StepRemoveDoc

Spec    == Init /\ [][Next]_vars
SimSpec == Init /\ [][SimNext]_vars

-----------------------------------------------------------------------------
(* Queries: brute-force scans of the live documents.                        *)

Carry(f)        == {d \in DOMAIN docs : f \in DOMAIN docs[d]}
TermMatch(f, t) == {d \in Carry(f) : docs[d][f] = t}
FieldTerms(f)   == {docs[d][f] : d \in Carry(f)}
CountOf(f, t)   == Cardinality(TermMatch(f, t))
TermCounts(f)       == {[t |-> t, c |-> CountOf(f, t)] : t \in FieldTerms(f)}
StringTermCounts(f) == {r \in TermCounts(f) : r.t[1] = "s"}
Nums(f)         == {t[2] : t \in {x \in FieldTerms(f) : x[1] = "n"}}
NumCount(f, k)  == CountOf(f, N(k))
NumberMin(f)    == CHOOSE k \in Nums(f) : \A j \in Nums(f) : k <= j
NumberMax(f)    == CHOOSE k \in Nums(f) : \A j \in Nums(f) : k >= j

\* range counts: numbers strictly inside (lo, hi) must be reported with their count, numbers
\* outside [lo, hi] must not; whether a number equal to a limit is reported is left open by the
\* property text (if it is reported, its count must be the true one)
RangeIn(f, lo, hi)   == {[k |-> k, c |-> NumCount(f, k)] : k \in {j \in Nums(f) : lo < j /\ j < hi}}
RangeEdge(f, lo, hi) == {[k |-> k, c |-> NumCount(f, k)] : k \in {j \in Nums(f) : j = lo \/ j = hi}}

\* ascending listing, one entry per document carrying a number
RECURSIVE AscSeq(_, _)
AscSeq(f, K) == IF K = {} THEN <<>>
                ELSE LET m == CHOOSE x \in K : \A y \in K : x <= y
                     IN  [i \in 1..NumCount(f, m) |-> m] \o AscSeq(f, K \ {m})
Numbers(f) == AscSeq(f, Nums(f))

RangePairs == {p \in Bounds \X Bounds : p[1] < p[2] \/ (p[1] = 0 /\ p[2] = 0)}

\* terms probed by the match query: the universe and whatever the state holds
ProbeTerms(f) == Terms \cup FieldTerms(f)

Answers(f) ==
  [ match   |-> {[t |-> t, ids |-> TermMatch(f, t)] : t \in ProbeTerms(f)},
    terms   |-> FieldTerms(f),
    counts  |-> TermCounts(f),
    scounts |-> StringTermCounts(f),
    hasnum  |-> Nums(f) # {},
    min     |-> IF Nums(f) # {} THEN NumberMin(f) ELSE 0,
    max     |-> IF Nums(f) # {} THEN NumberMax(f) ELSE 0,
    numbers |-> Numbers(f),
    ranges  |-> {[lo |-> p[1], hi |-> p[2], in |-> RangeIn(f, p[1], p[2]), edge |-> RangeEdge(f, p[1], p[2])]
                   : p \in RangePairs} ]

-----------------------------------------------------------------------------
(* Sanity of the specification itself.  TypeOK and Registered are checked  *)
(* on every generated history; the laws in Sanity tie the query operators  *)
(* to one another and are checked on every state of the oracle runs of the *)
(* exhaustive universes.                                                   *)

RECURSIVE SumC(_)
SumC(R) == IF R = {} THEN 0 ELSE LET r == CHOOSE x \in R : TRUE IN r.c + SumC(R \ {r})

IsAsc(q) == \A i \in 1..(Len(q) - 1) : q[i] <= q[i + 1]

TypeOK ==
  /\ fields \subseteq FieldSet
  /\ DOMAIN docs \subseteq DocSet
  /\ \A d \in DOMAIN docs : DOMAIN docs[d] \subseteq FieldSet /\ \A f \in DOMAIN docs[d] : docs[d][f] \in Terms

Sanity ==
  /\ \A f \in FieldSet :
       /\ SumC(TermCounts(f)) = Cardinality(Carry(f))
       /\ \A r \in TermCounts(f) : r.c >= 1
       /\ UNION {TermMatch(f, t) : t \in FieldTerms(f)} = Carry(f)
       /\ Len(Numbers(f)) = SumC({r \in TermCounts(f) : r.t[1] = "n"})
       /\ IsAsc(Numbers(f))
       /\ Nums(f) # {} => /\ NumberMin(f) <= NumberMax(f)
                          /\ Numbers(f)[1] = NumberMin(f)
                          /\ Numbers(f)[Len(Numbers(f))] = NumberMax(f)
       /\ \A p \in RangePairs :
            /\ \A r \in RangeIn(f, p[1], p[2]) \cup RangeEdge(f, p[1], p[2]) : [t |-> N(r.k), c |-> r.c] \in TermCounts(f)
            /\ SumC(RangeIn(f, p[1], p[2])) + SumC(RangeEdge(f, p[1], p[2]))
                 = Cardinality({d \in Carry(f) : docs[d][f][1] = "n" /\ p[1] <= docs[d][f][2] /\ docs[d][f][2] <= p[2]})

\* generation never enters the corner the property leaves open: a document carries only paths
\* that were registered when it was added (guards of AddField/AddDoc), stated over the history
Registered ==
  \A i \in 1..Len(hist) :
     LET before == IF i = 1 THEN [fields |-> {}, docs |-> <<>>] ELSE sts[i - 1] IN
       /\ hist[i].op = "AddDoc" => DOMAIN hist[i].v \subseteq before.fields
       /\ hist[i].op = "AddField" => \A d \in DOMAIN before.docs : hist[i].f \notin DOMAIN before.docs[d]

-----------------------------------------------------------------------------
(* Output                                                                   *)

EmitNode ==
  IF EmitAll THEN (hist # <<>> => Emit("node", [h |-> hist, s |-> Abs]))
  ELSE (Len(hist) = MaxLen => Emit("walk", [h |-> hist, ss |-> sts]))

\* oracle use: StateSeq (module KVIndexStates) lists the abstract states to answer for.  The
\* initial states are NB buckets and each bucket expands its share of StateSeq, so that TLC's
\* workers evaluate the scans in parallel.
NB == 64
OInit == /\ fields = {} /\ docs = <<>> /\ sts = <<>>
         /\ \E b \in 0..(NB - 1) : hist = <<[op |-> "bucket", b |-> b]>>
ONext == /\ Len(hist) = 1
         /\ \E i \in DOMAIN StateSeq :
              /\ i % NB = hist[1].b
              /\ fields' = StateSeq[i].fields
              /\ docs' = StateSeq[i].docs
              /\ hist' = Append(hist, [op |-> "state", i |-> i])
              /\ UNCHANGED sts
EmitAnswers == Len(hist) = 2 => Emit("ans", [s |-> Abs, x |-> [f \in fields |-> Answers(f)]])

EmitUniverse == Emit("universe", [fields |-> FieldSet, docs |-> DocSet, terms |-> Terms, ranges |-> RangePairs])
ASSUME EmitUniverse
=============================================================================
