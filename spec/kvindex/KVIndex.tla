------------------------------ MODULE KVIndex ------------------------------
(* C09: a secondary index answers every query exactly like a brute-force   *)
(* scan over the currently live documents.                                 *)
(*                                                                         *)
(* Abstract state (nothing about keys, counters or caches):                *)
(*   fields : the set of registered (indexed) field paths                  *)
(*   docs   : live documents, docid -> [path -> term]                      *)
(*   openv  : the <<docid, path>> pairs whose value is OPEN (see below)    *)
(* A term is <<"s", text>> or <<"n", k>>.  Numbers are kept as integers;   *)
(* the binding maps them to floats by an order-preserving injection        *)
(* (k/2 by default, so odd k are fractions) - every query below depends    *)
(* on numbers only through = and <.                                        *)
(*                                                                         *)
(* A document is a partial function from paths to terms.  "d carries no   *)
(* value under g.h" has several concrete shapes in a stored document - g   *)
(* missing, g an empty map, g a map with other keys, g a text or a number  *)
(* (of the term universe) - and the binding rotates through all of them:   *)
(* they are one abstract document.                                         *)
(*                                                                         *)
(* Firm and open values.  The value a live document d has for a path f is  *)
(* FIRM if f was registered when d was (last) added and has not been       *)
(* removed since: the index must report it.  It is OPEN if f was removed   *)
(* (and possibly registered again) after d was added: whether the index    *)
(* reports a value that was there before a (re-)registration is not stated *)
(* by the property (the code says "TODO reindex existing data"), so every  *)
(* query may count any subset of the open values - and nothing else: the   *)
(* accepted answers of a query are the brute-force scans over the firm     *)
(* carriers plus ANY subset of the open carriers.  In a state without open *)
(* values there is exactly one accepted answer.                            *)
(*                                                                         *)
(* The module is used in two ways (selected by the cfg):                   *)
(*   generation : Init/Next with the history variable `hist`; TLC          *)
(*                enumerates all histories up to MaxLen (or walks randomly *)
(*                with -simulate) and prints them with the abstract state  *)
(*                after every step;                                        *)
(*   oracle     : OInit/ONext ranges over the tuple `StateSeq` (module     *)
(*                KVIndexStates, rewritten by the check driver with the    *)
(*                abstract states the generated histories visit) and       *)
(*                prints the accepted answers of EVERY query for every     *)
(*                field, term and range of the universe.                   *)
(***************************************************************************)
EXTENDS Values, KVIndexStates

CONSTANTS FieldSet,   \* field paths of the universe, e.g. {"f", "g.h"}
          DocSet,     \* document ids
          StrTerms,   \* texts of the string terms
          NumTerms,   \* integers k of the number terms
          Bounds,     \* integers used as range limits (some equal to terms, some strictly between)
          MaxLen,     \* history bound
          EmitAll,    \* TRUE: print every history (exhaustive runs); FALSE: only complete walks
          Avoid       \* set of action shapes left out of generation:
                      \*   "replace"    AddDoc of a live id (known-finding protocol of the batch-write path)
                      \*   "reregister" AddField of a path some live document carries (no open values arise)
                      \*   "absent"     RemoveDoc of an id that is not live (a no-op; saves branching in deep cfgs)
                      \*   "closedhist" (output only) histories that never meet an open value under a registered path

\* number universes selectable from a cfg (cfg files cannot write negative literals)
Halves7 == {-4, -2, -1, 0, 1, 2, 4}      \* -2, -1, -1/2, 0, 1/2, 1, 2
Halves5 == {-4, -1, 0, 1, 4}             \* -2, -1/2, 0, 1/2, 2
Halves3 == {-1, 0, 2}                    \* -1/2, 0, 1
Halves1 == {-1}
Halves0 == {}
BoundsVol == {-1000, -3, 0, 3, 1000}
Bounds7 == {-5, -3, -1, 0, 1, 3, 5}
Bounds5 == {-5, -2, 0, 1, 5}
Bounds4 == {-3, -1, 0, 3}

VARIABLES fields, docs, openv, hist, sts

vars == <<fields, docs, openv, hist, sts>>

Terms == {S(x) : x \in StrTerms} \cup {N(k) : k \in NumTerms}

\* all documents over a set F of paths (partial functions F -> Terms, including the empty document)
DocVals(F) == UNION {[D -> Terms] : D \in SUBSET F}

Abs == [fields |-> fields, docs |-> docs, open |-> openv]

Carry(f) == {d \in DOMAIN docs : f \in DOMAIN docs[d]}
Firm(f)  == {d \in Carry(f) : <<d, f>> \notin openv}
Open(f)  == {d \in Carry(f) : <<d, f>> \in openv}

-----------------------------------------------------------------------------
(* Actions.  A document only carries paths that are registered when it is  *)
(* added (what the index holds for a path that was never registered while  *)
(* the document was added is the same open question; it is reached here    *)
(* through RemoveField).  A path may be removed and registered again while *)
(* live documents carry it: their values for it become open.               *)

AddField(f) ==
  /\ f \notin fields
  /\ "reregister" \in Avoid => Carry(f) = {}
  /\ fields' = fields \cup {f}
  /\ UNCHANGED <<docs, openv>>

RemoveField(f) ==
  /\ f \in fields
  /\ fields' = fields \ {f}
  /\ openv' = openv \cup {<<d, f>> : d \in Carry(f)}
  /\ UNCHANGED docs

\* insert or replace: all values of the new version are firm
AddDoc(d, v) ==
  /\ DOMAIN v \subseteq fields
  /\ "replace" \in Avoid => d \notin DOMAIN docs
  /\ docs' = [x \in DOMAIN docs \cup {d} |-> IF x = d THEN v ELSE docs[x]]
  /\ openv' = {p \in openv : p[1] # d}
  /\ UNCHANGED fields

\* removing an absent document is allowed and changes nothing
RemoveDoc(d) ==
  /\ "absent" \in Avoid => d \in DOMAIN docs
  /\ docs' = [x \in DOMAIN docs \ {d} |-> docs[x]]
  /\ openv' = {p \in openv : p[1] # d}
  /\ UNCHANGED fields

Record(op) ==
  /\ hist' = Append(hist, op)
  /\ sts'  = Append(sts, [fields |-> fields', docs |-> docs', open |-> openv'])

Init == fields = {} /\ docs = <<>> /\ openv = {} /\ hist = <<>> /\ sts = <<>>

StepAddField    == \E f \in FieldSet : AddField(f)    /\ Record([op |-> "AddField", f |-> f])
StepRemoveField == \E f \in FieldSet : RemoveField(f) /\ Record([op |-> "RemoveField", f |-> f])
StepAddDoc      == \E d \in DocSet : \E v \in DocVals(fields) :
                       AddDoc(d, v) /\ Record([op |-> "AddDoc", d |-> d, v |-> v])
StepRemoveDoc   == \E d \in DocSet : RemoveDoc(d) /\ Record([op |-> "RemoveDoc", d |-> d])

Next == /\ Len(hist) < MaxLen
        /\ \/ StepAddField
           \/ StepRemoveField
           \/ StepAddDoc
           \/ StepRemoveDoc

\* random walks: TLC's simulator draws uniformly among ALL successor states, so the many possible
\* document values would crowd out removals and field changes; here a step offers, per document
\* id, three randomly drawn values only
StepAddDocSome == \E d \in DocSet :
                    \E v \in {RandomElement(DocVals(fields)), RandomElement(DocVals(fields)), RandomElement(DocVals(fields))} :
                       AddDoc(d, v) /\ Record([op |-> "AddDoc", d |-> d, v |-> v])
SimNext == /\ Len(hist) < MaxLen
           /\ \/ StepAddField
              \/ StepRemoveField
              \/ StepAddDocSome
              \/ StepRemoveDoc

Spec    == Init /\ [][Next]_vars
SimSpec == Init /\ [][SimNext]_vars

-----------------------------------------------------------------------------
(* Queries: brute-force scans of the live documents.  V is the set of       *)
(* carriers of f the scan looks at: Carry(f) is the plain scan; the         *)
(* accepted answers are the scans with Firm(f) \subseteq V \subseteq        *)
(* Carry(f) (operator Views).                                               *)

Views(f) == {Firm(f) \cup O : O \in SUBSET Open(f)}

TermMatch(f, t, V) == {d \in V : docs[d][f] = t}
FieldTerms(f, V)   == {docs[d][f] : d \in V}
CountOf(f, t, V)   == Cardinality(TermMatch(f, t, V))
TermCounts(f, V)       == {[t |-> t, c |-> CountOf(f, t, V)] : t \in FieldTerms(f, V)}
StringTermCounts(f, V) == {r \in TermCounts(f, V) : r.t[1] = "s"}
Nums(f, V)         == {t[2] : t \in {x \in FieldTerms(f, V) : x[1] = "n"}}
NumCount(f, k, V)  == CountOf(f, N(k), V)
NumberMin(f, V)    == CHOOSE k \in Nums(f, V) : \A j \in Nums(f, V) : k <= j
NumberMax(f, V)    == CHOOSE k \in Nums(f, V) : \A j \in Nums(f, V) : k >= j

\* range counts: numbers strictly inside (lo, hi) must be reported with their count, numbers
\* outside [lo, hi] must not; whether a number equal to a limit is reported is left open by the
\* property text (if it is reported, its count must be the true one)
RangeIn(f, lo, hi, V)   == {[k |-> k, c |-> NumCount(f, k, V)] : k \in {j \in Nums(f, V) : lo < j /\ j < hi}}
RangeEdge(f, lo, hi, V) == {[k |-> k, c |-> NumCount(f, k, V)] : k \in {j \in Nums(f, V) : j = lo \/ j = hi}}

\* ascending listing, one entry per document carrying a number
RECURSIVE AscSeq(_, _, _)
AscSeq(f, K, V) == IF K = {} THEN <<>>
                   ELSE LET m == CHOOSE x \in K : \A y \in K : x <= y
                        IN  [i \in 1..NumCount(f, m, V) |-> m] \o AscSeq(f, K \ {m}, V)
Numbers(f, V) == AscSeq(f, Nums(f, V), V)

RangePairs == {p \in Bounds \X Bounds : p[1] < p[2] \/ (p[1] = 0 /\ p[2] = 0)}

\* terms probed by the match query: the universe and whatever the state holds
ProbeTerms(f) == Terms \cup FieldTerms(f, Carry(f))

Answers(f, V) ==
  [ match   |-> {[t |-> t, ids |-> TermMatch(f, t, V)] : t \in ProbeTerms(f)},
    terms   |-> FieldTerms(f, V),
    counts  |-> TermCounts(f, V),
    scounts |-> StringTermCounts(f, V),
    hasnum  |-> Nums(f, V) # {},
    min     |-> IF Nums(f, V) # {} THEN NumberMin(f, V) ELSE 0,
    max     |-> IF Nums(f, V) # {} THEN NumberMax(f, V) ELSE 0,
    numbers |-> Numbers(f, V),
    ranges  |-> {[lo |-> p[1], hi |-> p[2], in |-> RangeIn(f, p[1], p[2], V), edge |-> RangeEdge(f, p[1], p[2], V)]
                   : p \in RangePairs} ]

\* what the oracle prints for a registered field: the firm and the open carriers and the scan of every
\* view (as a set: views that answer every query alike are printed once)
Accepted(f) == [firm |-> Firm(f), open |-> Open(f), alts |-> {Answers(f, V) : V \in Views(f)}]

-----------------------------------------------------------------------------
(* Sanity of the specification itself.  TypeOK, Registered and OpenIsRemovedSinceAdded are checked *)
(* on every generated history; the laws in Sanity tie the query operators to one another (for      *)
(* every view) and are checked on every state of the oracle runs of the exhaustive universes.      *)

RECURSIVE SumC(_)
SumC(R) == IF R = {} THEN 0 ELSE LET r == CHOOSE x \in R : TRUE IN r.c + SumC(R \ {r})

IsAsc(q) == \A i \in 1..(Len(q) - 1) : q[i] <= q[i + 1]

TypeOK ==
  /\ fields \subseteq FieldSet
  /\ DOMAIN docs \subseteq DocSet
  /\ \A d \in DOMAIN docs : DOMAIN docs[d] \subseteq FieldSet /\ \A f \in DOMAIN docs[d] : docs[d][f] \in Terms
  /\ \A p \in openv : p[1] \in DOMAIN docs /\ p[2] \in DOMAIN docs[p[1]]

Sanity ==
  /\ \A f \in FieldSet :
       /\ Views(f) # {} /\ Firm(f) \in Views(f) /\ Carry(f) \in Views(f)
       /\ Open(f) = {} => Views(f) = {Carry(f)}
       /\ \A V \in Views(f) :
            /\ SumC(TermCounts(f, V)) = Cardinality(V)
            /\ \A r \in TermCounts(f, V) : r.c >= 1
            /\ UNION {TermMatch(f, t, V) : t \in FieldTerms(f, V)} = V
            /\ Len(Numbers(f, V)) = SumC({r \in TermCounts(f, V) : r.t[1] = "n"})
            /\ IsAsc(Numbers(f, V))
            /\ Nums(f, V) # {} => /\ NumberMin(f, V) <= NumberMax(f, V)
                                  /\ Numbers(f, V)[1] = NumberMin(f, V)
                                  /\ Numbers(f, V)[Len(Numbers(f, V))] = NumberMax(f, V)
            /\ \A p \in RangePairs :
                 /\ \A r \in RangeIn(f, p[1], p[2], V) \cup RangeEdge(f, p[1], p[2], V) : [t |-> N(r.k), c |-> r.c] \in TermCounts(f, V)
                 /\ SumC(RangeIn(f, p[1], p[2], V)) + SumC(RangeEdge(f, p[1], p[2], V))
                      = Cardinality({d \in V : docs[d][f][1] = "n" /\ p[1] <= docs[d][f][2] /\ docs[d][f][2] <= p[2]})
            \* the interval reading of the accepted answers: every firm value is reported, nothing but firm and
            \* open values is
            /\ \A t \in ProbeTerms(f) :
                 /\ TermMatch(f, t, Firm(f)) \subseteq TermMatch(f, t, V) /\ TermMatch(f, t, V) \subseteq TermMatch(f, t, Carry(f))
                 /\ CountOf(f, t, Firm(f)) <= CountOf(f, t, V)
                 /\ CountOf(f, t, V) <= CountOf(f, t, Firm(f)) + Cardinality({d \in Open(f) : docs[d][f] = t})
            /\ FieldTerms(f, Firm(f)) \subseteq FieldTerms(f, V) /\ FieldTerms(f, V) \subseteq FieldTerms(f, Carry(f))
            /\ Nums(f, Firm(f)) # {} => /\ NumberMin(f, V) <= NumberMin(f, Firm(f))
                                        /\ NumberMax(f, V) >= NumberMax(f, Firm(f))
                                        /\ NumberMin(f, V) >= NumberMin(f, Carry(f))
                                        /\ NumberMax(f, V) <= NumberMax(f, Carry(f))

\* a document carries only paths that were registered when it was added (guard of AddDoc), and - in the cfgs
\* that avoid re-registration - a path is registered only while no live document carries it; stated over the history
Registered ==
  \A i \in 1..Len(hist) :
     LET before == IF i = 1 THEN [fields |-> {}, docs |-> <<>>] ELSE sts[i - 1] IN
       /\ hist[i].op = "AddDoc" => DOMAIN hist[i].v \subseteq before.fields
       /\ (hist[i].op = "AddField" /\ "reregister" \in Avoid)
             => \A d \in DOMAIN before.docs : hist[i].f \notin DOMAIN before.docs[d]
NoOpenIfAvoided == "reregister" \in Avoid => \A f \in fields : Open(f) = {}

\* the variable openv is what its definition says, stated over the history: the value of live document d for path f
\* is open iff f was removed after d was last added
LastAdded(d) == CHOOSE i \in 1..Len(hist) : /\ hist[i].op = "AddDoc" /\ hist[i].d = d
                                            /\ \A j \in (i + 1)..Len(hist) : ~(hist[j].op = "AddDoc" /\ hist[j].d = d)
OpenIsRemovedSinceAdded ==
  \A d \in DOMAIN docs : \A f \in DOMAIN docs[d] :
     (<<d, f>> \in openv) <=> \E j \in (LastAdded(d) + 1)..Len(hist) : hist[j].op = "RemoveField" /\ hist[j].f = f

-----------------------------------------------------------------------------
(* Output                                                                   *)

\* the cfgs that go deep only to explore the open values ("closedhist" in Avoid) print the histories in which some
\* state has an open value under a registered path - the others are those of the shallower unrestricted cfgs - and,
\* since the prefixes of such a history are not all printed, the states after every step with it
MetOpen == \E i \in 1..Len(sts) : \E p \in sts[i].open : p[2] \in sts[i].fields
EmitNode ==
  IF EmitAll THEN
       IF "closedhist" \in Avoid THEN (MetOpen => Emit("node", [h |-> hist, s |-> Abs, ss |-> sts]))
       ELSE (hist # <<>> => Emit("node", [h |-> hist, s |-> Abs]))
  ELSE (Len(hist) = MaxLen => Emit("walk", [h |-> hist, ss |-> sts]))

\* oracle use: StateSeq (module KVIndexStates) lists the abstract states to answer for.  The
\* initial states are NB buckets and each bucket expands its share of StateSeq, so that TLC's
\* workers evaluate the scans in parallel.
NB == 64
OInit == /\ fields = {} /\ docs = <<>> /\ openv = {} /\ sts = <<>>
         /\ \E b \in 0..(NB - 1) : hist = <<[op |-> "bucket", b |-> b]>>
ONext == /\ Len(hist) = 1
         /\ \E i \in DOMAIN StateSeq :
              /\ i % NB = hist[1].b
              /\ fields' = StateSeq[i].fields
              /\ docs' = StateSeq[i].docs
              /\ openv' = StateSeq[i].open
              /\ hist' = Append(hist, [op |-> "state", i |-> i])
              /\ UNCHANGED sts
EmitAnswers == Len(hist) = 2 => Emit("ans", [s |-> Abs, x |-> [f \in fields |-> Accepted(f)]])

EmitUniverse == Emit("universe", [fields |-> FieldSet, docs |-> DocSet, terms |-> Terms, ranges |-> RangePairs])
ASSUME EmitUniverse
=============================================================================
