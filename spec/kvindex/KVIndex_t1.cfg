CONSTANTS
  FieldSet = {"f"}
  DocSet = {"d1", "d2"}
  StrTerms = {"a", "b"}
  NumTerms <- Halves5
  Bounds <- Bounds5
  MaxLen = 5
  EmitAll = TRUE
  Avoid = {}
SPECIFICATION Spec
INVARIANT Registered
INVARIANT TypeOK
INVARIANT EmitNode
CHECK_DEADLOCK FALSE
