CONSTANTS
  FieldSet = {"f"}
  DocSet = {"d1", "d2"}
  StrTerms = {"a", "ab"}
  NumTerms <- Halves7
  Bounds <- Bounds7
  MaxLen = 4
  EmitAll = TRUE
  Avoid = {}
SPECIFICATION Spec
INVARIANT Registered
INVARIANT NoOpenIfAvoided
INVARIANT OpenIsRemovedSinceAdded
INVARIANT TypeOK
INVARIANT EmitNode
CHECK_DEADLOCK FALSE
