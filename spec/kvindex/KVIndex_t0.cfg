CONSTANTS
  FieldSet = {"f"}
  DocSet = {"d1", "d2"}
  StrTerms = {"a", "b"}
  NumTerms <- Halves7
  Bounds <- Bounds7
  MaxLen = 4
  EmitAll = TRUE
  Avoid = {}
SPECIFICATION Spec
INVARIANT Registered
INVARIANT TypeOK
INVARIANT EmitNode
CHECK_DEADLOCK FALSE
