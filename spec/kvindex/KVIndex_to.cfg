CONSTANTS
  FieldSet = {"f"}
  DocSet = {"d1", "d2"}
  StrTerms = {"a"}
  NumTerms <- Halves1
  Bounds <- Bounds4
  MaxLen = 7
  EmitAll = TRUE
  Avoid = {"absent", "closedhist"}
SPECIFICATION Spec
INVARIANT Registered
INVARIANT NoOpenIfAvoided
INVARIANT OpenIsRemovedSinceAdded
INVARIANT TypeOK
INVARIANT EmitNode
CHECK_DEADLOCK FALSE
