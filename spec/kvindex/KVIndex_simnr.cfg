CONSTANTS
  FieldSet = {"f", "g.h"}
  DocSet = {"d1", "d2", "d3"}
  StrTerms = {"a", "ab"}
  NumTerms <- Halves7
  Bounds <- Bounds7
  MaxLen = 24
  EmitAll = FALSE
  Avoid = {"replace"}
SPECIFICATION SimSpec
INVARIANT Registered
INVARIANT NoOpenIfAvoided
INVARIANT OpenIsRemovedSinceAdded
INVARIANT TypeOK
INVARIANT EmitNode
CHECK_DEADLOCK FALSE
