CONSTANTS
  MaxLen = 3
  GraphIdx <- AllWorlds
  Alpha = "narrow"
  Family = "hand"
  Lead = "label2"
SPECIFICATION GSpec
INVARIANT TypeInv
INVARIANT EmitState
CHECK_DEADLOCK FALSE
