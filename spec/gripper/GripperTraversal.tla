------------------------ MODULE GripperTraversal ------------------------
(* C15: the meaning of a traversal over a gripper-mapped graph is the    *)
(* documented traversal semantics (Traversal.tla, unchanged) applied to  *)
(* GraphOf(world).  This module only chooses which programs are explored:*)
(* an alphabet whose ids are taken from the world at hand and which is   *)
(* weighted towards the starts the gripper driver plans itself           *)
(* (V(ids).hasLabel, hasLabel.hasLabel, E().hasLabel, E(ids)).           *)
EXTENDS Traversal

CONSTANT Lead     \* "all" | "label" | "label2" | "mix": "label" explores only programs whose first step after the start
                  \* is a hasLabel, "label2" those whose first two steps are, "mix" every one-step program and the
                  \* longer ones that begin with a hasLabel

GW == WorldFamily[gi]
GG == GraphFamily[gi]
VIdAt(g, k) == IF k >= 1 /\ Len(g.vs) >= k THEN g.vs[k] ELSE "zz9"
EIdAt(g, k) == IF k >= 1 /\ Len(g.es) >= k THEN g.es[k] ELSE "none/0"
VLast(g) == VIdAt(g, Len(g.vs))
\* an id under a mapped prefix that names no row, and an id under no prefix
GhostRow(w) == w.vmap[1].prefix \o "9"
GhostAny == "zz9"

NoDupSeq(q) == \A i, j \in DOMAIN q : i # j => q[i] # q[j]
GStarts(w, g) ==
  IF Family = "vol" THEN { StartS("V", <<>>), StartS("V", <<VIdAt(g, 1)>>) } ELSE
  { s \in { StartS("V", <<>>), StartS("E", <<>>),
            StartS("V", <<VIdAt(g, 1)>>), StartS("V", <<VLast(g), GhostRow(w), VIdAt(g, 1)>>),
            StartS("V", <<GhostAny>>),
            StartS("E", <<EIdAt(g, 1)>>), StartS("E", <<EIdAt(g, Len(g.es)), "none/0">>) } : NoDupSeq(s.ids) }

Labels == { HasLabelS(<<"L1">>), HasLabelS(<<"L2">>), HasLabelS(<<"K1">>), HasLabelS(<<"K2">>),
            HasLabelS(<<"L1", "L2">>), HasLabelS(<<"L1", "L1">>), HasLabelS(<<"X">>) }
GMoves == { Mov("out", <<>>), Mov("in", <<>>), Mov("both", <<>>), Mov("outE", <<>>), Mov("inE", <<>>), Mov("bothE", <<>>),
            Mov("out", <<"K1">>), Mov("in", <<"K2">>), Mov("outE", <<"K1">>), Mov("inE", <<"K1">>), Mov("bothE", <<"K2">>),
            Mov("both", <<"K1", "K2">>) }
GFilters(g) == { HasIdS(<<VIdAt(g, 1)>>), HasIdS(<<EIdAt(g, 1)>>), HasS(C("eq", RGid, S(VIdAt(g, 1))), {}),
                 HasS(C("eq", RX, N(1)), {}), HasS(C("eq", RW, N(1)), {}), HasS(C("eq", RLabel, S("L1")), {}),
                 HasKeyS(<<RX>>), HasKeyS(<<RW>>) }
GMarks == { AsS("m"), SelS(<<"m">>) }
GProjs == { FieldsS(<<>>, <<>>), FieldsS(<<"x">>, <<>>),
            RenderS(<<"m", [g |-> <<"ref", RGid>>, v |-> <<"ref", RX>>]>>, {}),
            RenderS(<<"m", [l |-> <<"ref", RLabel>>, v |-> <<"ref", RW>>]>>, {}),
            St("path"), DistS(<<>>, {}), DistS(<<RLabel>>, {}), St("count") }
GTruncs == { LimS(1), SkipS(1) }

GAlphabet(g) == IF Family = "vol" THEN { Mov("out", <<>>), Mov("in", <<>>), St("count") } ELSE
                Labels \cup GMoves \cup GFilters(g) \cup GMarks \cup GProjs \cup GTruncs

\* The id STRING of an edge is not fixed by the property (see Gripper.tla): steps whose result
\* would depend on it are explored on vertices only; hasId(<edge id>) is explored on edges
\* (the check translates the spec's edge names into the ids the implementation shows).
ReadsGid(s) == \/ (s.op = "has" /\ s.e.t = "c" /\ s.e.key = RGid)
               \/ (s.op = "render" /\ s.tpl[1] = "m" /\ "g" \in DOMAIN s.tpl[2])
               \/ (s.op = "distinct" /\ s.refs = <<>>)
GDefined(s) ==
  /\ ReadsGid(s) => ty = "vertex"
  /\ (s.op = "hasId" /\ s.ids = <<EIdAt(GG, 1)>>) => ty = "edge"
  /\ (Lead \in {"label", "label2"} /\ Len(prog) = 1) => s.op = "hasLabel"
  /\ (Lead = "label2" /\ Len(prog) = 2) => s.op = "hasLabel"
  /\ (Lead = "mix" /\ Len(prog) >= 2) => prog[2].op = "hasLabel"

GInit ==
  /\ gi \in GraphIdx
  /\ mt = <<>> /\ blocks = <<>> /\ counted = FALSE /\ cntKeep = 1 /\ pathOK = TRUE
  /\ \E s \in GStarts(WorldFamily[gi], GraphFamily[gi]) :
        /\ prog = <<s>> /\ status = "ok"
        /\ ty = (IF s.op = "V" THEN "vertex" ELSE "edge")
        /\ rows = StartRows(GraphFamily[gi], s)

GNext ==
  /\ Live
  /\ \/ \E s \in GAlphabet(GG) : Worth(s) /\ GDefined(s) /\ Apply(s)
     \/ \E s \in IllSteps : Len(prog) <= 1 /\ gi = 1 /\ Reject(s)   \* rejection does not depend on the world

GSpec == GInit /\ [][GNext]_vars

AllWorlds == DOMAIN WorldFamily
ASSUME EmitWorlds
=======================================================================
