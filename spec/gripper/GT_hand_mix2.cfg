CONSTANTS
  MaxLen = 2
  GraphIdx <- AllWorlds
  Alpha = "narrow"
  Family = "hand"
  Lead = "mix"
SPECIFICATION GSpec
INVARIANT TypeInv
INVARIANT EmitState
CHECK_DEADLOCK FALSE
