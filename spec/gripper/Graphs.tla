---------------------------- MODULE Graphs ----------------------------
(* C15 instance of the Graphs module: the same element helpers as       *)
(* spec/common/Graphs.tla (Traversal.tla needs them), but the graph      *)
(* family is the family of graphs that gripper mappings DESCRIBE:        *)
(* GraphFamily[i] = GraphOf(WorldFamily[i]) from Gripper.tla.            *)
(* (bin/check copies spec/<family>/ before spec/common/, so this module  *)
(* takes the place of the common one for the gripper family only.)       *)
EXTENDS Gripper

VRec(l, d)       == [label |-> l, data |-> d]
ERec(l, f, t, d) == [label |-> l, from |-> f, to |-> t, data |-> d]

VElem(g, id) == [k |-> "v", gid |-> id, label |-> g.V[id].label, from |-> "", to |-> "", data |-> g.V[id].data]
EElem(g, id) == [k |-> "e", gid |-> id, label |-> g.E[id].label, from |-> g.E[id].from, to |-> g.E[id].to,
                 data |-> g.E[id].data]

HasV(g, id) == id \in DOMAIN g.V
HasE(g, id) == id \in DOMAIN g.E

GraphFamily == [i \in DOMAIN WorldFamily |-> GraphOf(WorldFamily[i])]
=======================================================================
