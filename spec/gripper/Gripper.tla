---------------------------- MODULE Gripper ----------------------------
(* C15: what graph a gripper mapping DESCRIBES (property-level spec).    *)
(*                                                                       *)
(* A world is a set of external tables plus a mapping:                   *)
(*   tables : table name -> sequence of rows [id, f]   (f: field -> value)*)
(*   vmap   : sequence of [prefix, label, table]  - one vertex type each  *)
(*   emap   : sequence of [name, label, from, to, table, ff, tf]          *)
(*            from/to = prefixes of the two vertex types, ff/tf = the     *)
(*            fields of the link table holding the row ids of the ends    *)
(* GraphOf(w) is the graph the property says GRIP must expose:           *)
(*   - one vertex per row of every vertex table: id = prefix + row id,    *)
(*     the mapped label, the row's fields as properties;                  *)
(*   - one edge per row of every link table whose two endpoint fields     *)
(*     are present and non-empty: from = from-prefix + row[ff],           *)
(*     to = to-prefix + row[tf], the mapped label, the row's fields as    *)
(*     properties (the property text fixes only vertices' properties; the *)
(*     link row is the only data there is, see `assumptions`);            *)
(*   - nothing else.  Repeated link rows give parallel edges; an endpoint *)
(*     that names no row gives an edge whose end is not a vertex.         *)
(* The identity of an edge is its link row: the spec names it            *)
(* "<mapping>/<row id>".  The id STRING the driver shows for an edge is   *)
(* not fixed by the property and is normalised away by the check.         *)
EXTENDS Values, SequencesExt

CONSTANT Family     \* "hand" | "gen" | "vol": which family of worlds is explored

GRow(id, f)  == [id |-> id, f |-> f]
GVM(p, l, t) == [prefix |-> p, label |-> l, table |-> t]
GEM(n, l, from, to, t, ff, tf) == [name |-> n, label |-> l, from |-> from, to |-> to, table |-> t, ff |-> ff, tf |-> tf]
GWorld(n, ts, vm, em) == [name |-> n, tables |-> ts, vmap |-> vm, emap |-> em]

GFlat(q, F(_)) == LET f[i \in 0..Len(q)] == IF i = 0 THEN <<>> ELSE f[i - 1] \o F(q[i]) IN f[Len(q)]

\* the row id an endpoint field holds; "" when the field is missing, empty or not text
GLink(r, fld) == IF fld \in DOMAIN r.f /\ r.f[fld][1] = "s" THEN r.f[fld][2] ELSE ""

GVertexPairs(w) ==
  GFlat(w.vmap, LAMBDA vm :
    [j \in DOMAIN w.tables[vm.table] |->
       LET r == w.tables[vm.table][j] IN <<vm.prefix \o r.id, [label |-> vm.label, data |-> M(r.f)]>>])

GEdgesOf(w, em) ==
  LET rows == SelectSeq(w.tables[em.table], LAMBDA r : GLink(r, em.ff) # "" /\ GLink(r, em.tf) # "")
  IN  [j \in DOMAIN rows |->
         LET r == rows[j] IN
         << em.name \o "/" \o r.id,
            [label |-> em.label, from |-> em.from \o GLink(r, em.ff), to |-> em.to \o GLink(r, em.tf), data |-> M(r.f)] >>]

GEdgePairs(w) == GFlat(w.emap, LAMBDA em : GEdgesOf(w, em))

GFn(pairs) == [id \in {pairs[i][1] : i \in DOMAIN pairs} |-> pairs[CHOOSE i \in DOMAIN pairs : pairs[i][1] = id][2]]

GraphOf(w) ==
  LET vp == GVertexPairs(w)
      ep == GEdgePairs(w)
  IN  [vs |-> [i \in DOMAIN vp |-> vp[i][1]], V |-> GFn(vp),
       es |-> [i \in DOMAIN ep |-> ep[i][1]], E |-> GFn(ep)]

------------------------------------------------------------------------
(* well-formedness of a world (what the generated space keeps to)        *)
GWellFormed(w) ==
  /\ \A i, j \in DOMAIN w.vmap : i # j => w.vmap[i].prefix # w.vmap[j].prefix
  /\ \A i, j \in DOMAIN w.emap : i # j => w.emap[i].name # w.emap[j].name
  /\ \A i \in DOMAIN w.vmap : w.vmap[i].table \in DOMAIN w.tables
  /\ \A i \in DOMAIN w.emap : /\ w.emap[i].table \in DOMAIN w.tables
                              /\ \E k \in DOMAIN w.vmap : w.vmap[k].prefix = w.emap[i].from
                              /\ \E k \in DOMAIN w.vmap : w.vmap[k].prefix = w.emap[i].to
  /\ \A t \in DOMAIN w.tables : \A i, j \in DOMAIN w.tables[t] : i # j => w.tables[t][i].id # w.tables[t][j].id
  \* two rows never describe the same vertex id (prefix p + id "q1" vs prefix pq + id "1"):
  \* the property gives no meaning to such a mapping
  /\ LET vp == GVertexPairs(w) IN \A i, j \in DOMAIN vp : i # j => vp[i][1] # vp[j][1]

\* "both directions of a mapping give the same edge set": reading a mapping from its
\* to-side (fields and vertex types swapped) and turning every edge round is the identity
GRev(em)  == [em EXCEPT !.from = em.to, !.to = em.from, !.ff = em.tf, !.tf = em.ff]
GTurn(p)  == <<p[1], [p[2] EXCEPT !.from = p[2].to, !.to = p[2].from]>>
GBothDirections(w) ==
  \A i \in DOMAIN w.emap :
     LET a == GEdgesOf(w, w.emap[i])
         b == GEdgesOf(w, GRev(w.emap[i]))
     IN  a = [j \in DOMAIN b |-> GTurn(b[j])]

------------------------------------------------------------------------
(* row data                                                              *)
FA == [x |-> N(1), s |-> S("p"), n |-> M([k |-> N(1)]), l |-> L(<<N(1), N(2)>>)]
FB == [x |-> N(2), s |-> S("q")]
FC == [x |-> Null]
F0 == <<>>
Lk(s, d)     == [src |-> S(s), dst |-> S(d)]
LkW(s, d, k) == [src |-> S(s), dst |-> S(d), w |-> N(k), x |-> N(1)]

RowsA == <<GRow("1", FA), GRow("2", FB), GRow("3", FC)>>
RowsB == <<GRow("1", FB), GRow("2", FA)>>

\* 1 two vertex types, one link table, a vertex without edges
WBasic == GWorld("basic",
  [T1 |-> RowsA, T2 |-> RowsB, LT |-> <<GRow("r1", LkW("1", "1", 1)), GRow("r2", Lk("1", "2")), GRow("r3", LkW("2", "1", 2))>>],
  <<GVM("p:", "L1", "T1"), GVM("q:", "L2", "T2")>>,
  <<GEM("e1", "K1", "p:", "q:", "LT", "src", "dst")>>)
\* 2 source field missing / empty
WNoSrc == GWorld("nosrc",
  [T1 |-> RowsB, T2 |-> RowsB, LT |-> <<GRow("r1", [dst |-> S("1")]), GRow("r2", Lk("", "1")), GRow("r3", LkW("1", "1", 1))>>],
  <<GVM("p:", "L1", "T1"), GVM("q:", "L2", "T2")>>,
  <<GEM("e1", "K1", "p:", "q:", "LT", "src", "dst")>>)
\* 3 destination field missing / empty
WNoDst == GWorld("nodst",
  [T1 |-> RowsB, T2 |-> RowsB, LT |-> <<GRow("r1", [src |-> S("1"), w |-> N(1)]), GRow("r2", Lk("1", "")), GRow("r3", LkW("2", "1", 1))>>],
  <<GVM("p:", "L1", "T1"), GVM("q:", "L2", "T2")>>,
  <<GEM("e1", "K1", "p:", "q:", "LT", "src", "dst")>>)
\* 4 dangling ends: destination, source, both name no row
WDangle == GWorld("dangle",
  [T1 |-> RowsB, T2 |-> RowsB, LT |-> <<GRow("r1", LkW("1", "9", 1)), GRow("r2", Lk("9", "1")), GRow("r3", Lk("8", "9"))>>],
  <<GVM("p:", "L1", "T1"), GVM("q:", "L2", "T2")>>,
  <<GEM("e1", "K1", "p:", "q:", "LT", "src", "dst")>>)
\* 5 two vertex tables sharing a label, links in both directions over two link tables with one label
WShared == GWorld("sharedlabel",
  [T1 |-> RowsB, T2 |-> RowsA, LT |-> <<GRow("r1", LkW("1", "3", 1)), GRow("r2", Lk("2", "1"))>>, LU |-> <<GRow("r1", Lk("1", "1"))>>],
  <<GVM("p:", "L1", "T1"), GVM("q:", "L1", "T2")>>,
  <<GEM("e1", "K1", "p:", "q:", "LT", "src", "dst"), GEM("e2", "K1", "q:", "p:", "LU", "src", "dst")>>)
\* 6 prefixes that are prefixes of one another; an edge end "p"+"q1" that IS the vertex "pq"+"1"
WPrefix == GWorld("prefix",
  [T1 |-> RowsB, T2 |-> RowsB, LT |-> <<GRow("r1", LkW("1", "1", 1)), GRow("r2", Lk("2", "2"))>>, LU |-> <<GRow("r1", Lk("1", "q1")), GRow("r2", Lk("2", "1"))>>],
  <<GVM("p", "L1", "T1"), GVM("pq", "L2", "T2")>>,
  <<GEM("e1", "K1", "p", "pq", "LT", "src", "dst"), GEM("e2", "K2", "pq", "p", "LU", "src", "dst")>>)
\* 7 repeated links (parallel edges), a self loop, a vertex type linked to itself
WRepeat == GWorld("repeat",
  [T1 |-> RowsA, LT |-> <<GRow("r1", LkW("1", "2", 1)), GRow("r2", LkW("1", "2", 2)), GRow("r3", Lk("1", "1"))>>],
  <<GVM("p:", "L1", "T1")>>,
  <<GEM("e1", "K1", "p:", "p:", "LT", "src", "dst")>>)
\* 8 one link table read in both directions by two mappings
WBothWays == GWorld("bothways",
  [T1 |-> RowsB, T2 |-> RowsB, LT |-> <<GRow("r1", LkW("1", "2", 1)), GRow("r2", Lk("2", "2"))>>],
  <<GVM("p:", "L1", "T1"), GVM("q:", "L2", "T2")>>,
  <<GEM("e1", "K1", "p:", "q:", "LT", "src", "dst"), GEM("e2", "K2", "q:", "p:", "LT", "dst", "src")>>)
\* 9 a vertex table that is its own link table (foreign key column), a label shared by vertices and edges
WForeign == GWorld("foreignkey",
  [T1 |-> <<GRow("1", [id |-> S("1"), home |-> S("2"), x |-> N(1)]), GRow("2", [id |-> S("2"), home |-> S(""), x |-> N(2)]),
            GRow("3", [id |-> S("3"), x |-> N(1)])>>,
   T2 |-> RowsB],
  <<GVM("p:", "L1", "T1"), GVM("q:", "L2", "T2")>>,
  <<GEM("e1", "L1", "p:", "q:", "T1", "id", "home")>>)
\* 10 empty tables
WEmpty == GWorld("empty",
  [T1 |-> <<>>, T2 |-> RowsB, LT |-> <<>>],
  <<GVM("p:", "L1", "T1"), GVM("q:", "L2", "T2")>>,
  <<GEM("e1", "K1", "p:", "q:", "LT", "src", "dst")>>)

\* 11 one edge type fed by two link tables
WTwoLinks == GWorld("twolinks",
  [T1 |-> RowsB, T2 |-> RowsB, LT |-> <<GRow("r1", LkW("1", "1", 1))>>, LU |-> <<GRow("r1", Lk("2", "2")), GRow("r2", LkW("1", "2", 2))>>],
  <<GVM("p:", "L1", "T1"), GVM("q:", "L2", "T2")>>,
  <<GEM("e1", "K1", "p:", "q:", "LT", "src", "dst"), GEM("e2", "K1", "p:", "q:", "LU", "src", "dst")>>)

\* 12 one table mapped to two vertex types; a vertex type without any edge mapping
WTwoTypes == GWorld("twotypes",
  [T1 |-> RowsB, LT |-> <<GRow("r1", LkW("1", "2", 1)), GRow("r2", Lk("2", "2"))>>],
  <<GVM("p:", "L1", "T1"), GVM("r:", "L2", "T1"), GVM("s:", "L2", "T1")>>,
  <<GEM("e1", "K1", "p:", "r:", "LT", "src", "dst")>>)
\* 13 no edge mapping at all
WNoEdges == GWorld("noedges", [T1 |-> RowsA], <<GVM("p:", "L1", "T1")>>, <<>>)
\* 14 a row id that contains the character the driver joins its edge ids with
WHyphen == GWorld("hyphen",
  [T1 |-> <<GRow("a-b", FA), GRow("2", FB)>>, T2 |-> RowsB, LT |-> <<GRow("r1", LkW("a-b", "1", 1)), GRow("r2", Lk("2", "1"))>>],
  <<GVM("p:", "L1", "T1"), GVM("q:", "L2", "T2")>>,
  <<GEM("e1", "K1", "p:", "q:", "LT", "src", "dst")>>)

HandWorlds == <<WBasic, WNoSrc, WNoDst, WDangle, WShared, WPrefix, WRepeat, WBothWays, WForeign, WEmpty, WTwoLinks,
                WTwoTypes, WNoEdges, WHyphen>>

------------------------------------------------------------------------
(* generated family: every link table of <= 2 rows over a universe of    *)
(* endpoint fields (missing, empty, present, dangling, reaching into the *)
(* other prefix) between two vertex tables that share a label and whose  *)
(* prefixes are "p" and "pq"; the link table is read in both directions. *)
GSrcs == {"missing", "", "1", "9"}
GDsts == {"missing", "", "1", "q1"}
GLinkRow(id, s, d) ==
  GRow(id, [k \in ({"w"} \cup (IF s = "missing" THEN {} ELSE {"src"}) \cup (IF d = "missing" THEN {} ELSE {"dst"})) |->
              IF k = "src" THEN S(s) ELSE IF k = "dst" THEN S(d) ELSE N(1)])
GKinds == GSrcs \X GDsts
GKindSeq == SetToSeq(GKinds)
GLinkTables ==
  {<<>>} \cup { <<GLinkRow("r1", GKindSeq[i][1], GKindSeq[i][2])>> : i \in DOMAIN GKindSeq }
         \cup { <<GLinkRow("r1", GKindSeq[q[1]][1], GKindSeq[q[1]][2]), GLinkRow("r2", GKindSeq[q[2]][1], GKindSeq[q[2]][2])>> :
                  q \in {qq \in (DOMAIN GKindSeq) \X (DOMAIN GKindSeq) : qq[1] <= qq[2]} }
GenWorldOf(lt) == GWorld("gen",
  [T1 |-> RowsB, T2 |-> <<GRow("1", FA), GRow("2", FC)>>, LT |-> lt],
  <<GVM("p", "L1", "T1"), GVM("pq", "L1", "T2")>>,
  <<GEM("e1", "K1", "p", "pq", "LT", "src", "dst"), GEM("e2", "K2", "pq", "p", "LT", "dst", "src"), GEM("e3", "K1", "p", "p", "LT", "src", "dst")>>)
GenWorlds == LET lts == SetToSeq(GLinkTables) IN [i \in DOMAIN lts |-> GenWorldOf(lts[i])]

------------------------------------------------------------------------
(* volume family: one vertex with VolN links into a second table, once   *)
(* with unrelated prefixes and once with prefixes that are prefixes of   *)
(* one another (every looked-up id "pq<k>" then also matches prefix "p")  *)
VolN == 150
VolRows  == [k \in 1..VolN |-> GRow(ToString(k), [x |-> N(k)])]
VolLinks == [k \in 1..VolN |-> GRow("r" \o ToString(k), [src |-> S("1"), dst |-> S(ToString(k))])]
WVol(name, p, q) == GWorld(name, [T1 |-> <<GRow("1", FB)>>, T2 |-> VolRows, LT |-> VolLinks],
                           <<GVM(p, "L1", "T1"), GVM(q, "L2", "T2")>>, <<GEM("e1", "K1", p, q, "LT", "src", "dst")>>)
VolWorlds == <<WVol("vol-flat", "p:", "q:"), WVol("vol-nested", "p", "pq")>>

WorldFamily == CASE Family = "hand" -> HandWorlds [] Family = "gen" -> GenWorlds [] Family = "vol" -> VolWorlds

ASSUME \A i \in DOMAIN WorldFamily : GWellFormed(WorldFamily[i]) /\ GBothDirections(WorldFamily[i])

------------------------------------------------------------------------
(* emission of the worlds for the harness                                *)
GWorldOut(w) == [name |-> w.name,
                 tables |-> [t \in DOMAIN w.tables |-> [j \in DOMAIN w.tables[t] |-> [id |-> w.tables[t][j].id, f |-> M(w.tables[t][j].f)]]],
                 vmap |-> w.vmap, emap |-> w.emap]
EmitWorlds == Emit("worlds", [i \in DOMAIN WorldFamily |-> GWorldOut(WorldFamily[i])])
=======================================================================
