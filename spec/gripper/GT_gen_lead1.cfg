CONSTANTS
  MaxLen = 1
  GraphIdx <- AllWorlds
  Alpha = "narrow"
  Family = "gen"
  Lead = "label"
SPECIFICATION GSpec
INVARIANT TypeInv
INVARIANT EmitState
CHECK_DEADLOCK FALSE
