CONSTANTS
  MaxLen = 1
  GraphIdx <- AllWorlds
  Alpha = "narrow"
  Family = "gen"
  Lead = "all"
SPECIFICATION GSpec
INVARIANT TypeInv
INVARIANT EmitState
CHECK_DEADLOCK FALSE
