-------------------------- MODULE GripperWrites --------------------------
(* C15, last clause: "Write calls on such a graph are refused."          *)
(* Every write call (AddVertex / AddEdge / BulkAdd / DelVertex / DelEdge)*)
(* answers with an error and leaves the exposed graph exactly            *)
(* GraphOf(world).  TLC enumerates short histories of write calls; each  *)
(* state carries the vertex and edge listing the graph must still show.  *)
EXTENDS Graphs

CONSTANT MaxCalls

VARIABLES wi, calls, graph
wvars == <<wi, calls, graph>>

WVId(g, k) == IF k >= 1 /\ Len(g.vs) >= k THEN g.vs[k] ELSE "zz9"
WEId(g, k) == IF k >= 1 /\ Len(g.es) >= k THEN g.es[k] ELSE "none/0"
WCall(op, gid, label, from, to) == [op |-> op, gid |-> gid, label |-> label, from |-> from, to |-> to]

WCalls(w, g) ==
  { WCall("AddVertex", w.vmap[1].prefix \o "new", w.vmap[1].label, "", ""),     \* a new row-like vertex
    WCall("AddVertex", WVId(g, 1), "L2", "", ""),                               \* overwrite an exposed vertex
    WCall("AddEdge", "newedge", "K1", WVId(g, 1), WVId(g, Len(g.vs))),
    WCall("BulkAdd", "zz1", "L1", "", ""),
    WCall("BulkAdd", "newedge2", "K1", WVId(g, 1), WVId(g, 1)),
    WCall("DelVertex", WVId(g, 1), "", "", ""),
    WCall("DelVertex", "zz9", "", "", ""),
    WCall("DelEdge", WEId(g, 1), "", "", ""),
    WCall("DelEdge", "none/0", "", "", "") }

WInit == /\ wi \in DOMAIN WorldFamily
         /\ calls = <<>>
         /\ graph = GraphFamily[wi]

\* the only thing a write call may do
Refuse(c) == /\ calls' = Append(calls, [call |-> c, result |-> "refused"])
             /\ UNCHANGED <<wi, graph>>

WNext == /\ Len(calls) < MaxCalls
         /\ \E c \in WCalls(WorldFamily[wi], graph) : Refuse(c)

WSpec == WInit /\ [][WNext]_wvars

ReadOnly == /\ graph = GraphOf(WorldFamily[wi])
            /\ \A i \in DOMAIN calls : calls[i].result = "refused"

WElemOut(el) == IF el.k = "v" THEN [k |-> "v", gid |-> el.gid, label |-> el.label, data |-> el.data]
                ELSE [k |-> "e", gid |-> el.gid, label |-> el.label, from |-> el.from, to |-> el.to, data |-> el.data]
EmitWrites ==
  Emit("wr", [w |-> wi, calls |-> calls,
              vrows |-> [i \in DOMAIN graph.vs |-> WElemOut(VElem(graph, graph.vs[i]))],
              erows |-> [i \in DOMAIN graph.es |-> WElemOut(EElem(graph, graph.es[i]))]])
ASSUME EmitWorlds
ASSUME Emit("graphs", [i \in DOMAIN GraphFamily |-> [V |-> GraphFamily[i].V, E |-> GraphFamily[i].E]])
=======================================================================
