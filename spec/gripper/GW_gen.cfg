CONSTANTS
  MaxCalls = 2
  Family = "gen"
SPECIFICATION WSpec
INVARIANT ReadOnly
INVARIANT EmitWrites
CHECK_DEADLOCK FALSE
