CONSTANTS
  MaxCalls = 2
  Family = "hand"
SPECIFICATION WSpec
INVARIANT ReadOnly
INVARIANT EmitWrites
CHECK_DEADLOCK FALSE
