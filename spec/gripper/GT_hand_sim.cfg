CONSTANTS
  MaxLen = 6
  GraphIdx <- AllWorlds
  Alpha = "narrow"
  Family = "hand"
  Lead = "all"
SPECIFICATION GSpec
INVARIANT TypeInv
INVARIANT EmitState
CHECK_DEADLOCK FALSE
