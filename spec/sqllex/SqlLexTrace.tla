--------------------------- MODULE SqlLexTrace ---------------------------
(* C20 trace validation: the statements recorded from the real drivers    *)
(* (mapped to character classes) are lexed by the SqlLexer state machine  *)
(* and compared with the statement the same call site sent for the benign *)
(* client string.  One job = one call site x statement position:          *)
(*   pre    classes common to all statements of the job (lexed once)      *)
(*   ref    rest of the benign statement                                  *)
(*   holes  positions (1-based, in pre \o ref) where the benign client    *)
(*          string starts                                                 *)
(*   cases  <<[i |-> case number, r |-> rest of the recorded statement]>> *)
(* The abstract requirement is DataOnlyTrace (no bad case); because the   *)
(* pinned tree is expected to break it at many call sites and all of them *)
(* have to be reported, the verdict per case is printed instead of        *)
(* stopping at the first one.                                             *)
EXTENDS SqlLexer

Jobs == ndJsonDeserialize("jobs.ndjson")

(* The trace file is read once, in the step from the start state; the jobs *)
(* are dealt to Fan group states and from there to one state per job, so   *)
(* that TLC's workers evaluate them in parallel (lvl 0 start, 1 group,     *)
(* 2 job; data is the group's sequence of jobs resp. the job).             *)
Fan == 32
VARIABLES lvl, data
Init == lvl = 0 /\ data = <<>>
Next == \/ /\ lvl = 0
           /\ lvl' = 1
           /\ LET J == Jobs
                  n == Len(J)
              IN  data' \in { [k \in 1..((n - g) \div Fan + 1) |-> J[(k - 1) * Fan + g]] : g \in 1..(IF n < Fan THEN n ELSE Fan) }
        \/ /\ lvl = 1
           /\ lvl' = 2
           /\ data' \in { data[k] : k \in DOMAIN data }

Bad(job) == LET st0 == Run(Lex0, job.pre)
                ref == ShapeFrom(st0, job.ref)
            IN  { c \in DOMAIN job.cases : ShapeFrom(st0, job.cases[c].r) # ref }

DataOnlyTrace == lvl = 2 => Bad(data) = {}

Verdict == lvl = 2 =>
  LET job  == data
      full == job.pre \o job.ref
      bad  == Bad(job)
  IN Emit("job", [id    |-> job.id,
                  n     |-> Len(job.cases),
                  bad   |-> { job.cases[c].i : c \in bad },
                  shape |-> Shape(full),
                  ctx   |-> { Context(ModeAt(full, job.holes[h])) : h \in DOMAIN job.holes }])
=======================================================================
