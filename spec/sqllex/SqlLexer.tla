---------------------------- MODULE SqlLexer ----------------------------
(* C20: a lexer for the SQL subset the PostgreSQL and existing-SQL       *)
(* drivers emit, as a state machine over character classes.  A statement *)
(* is a sequence of classes; Shape(stmt) is the sequence of token kinds  *)
(* with the CONTENTS of string literals, quoted identifiers, parameters, *)
(* identifiers, numbers and comments erased.  Two statements have the    *)
(* same token structure iff their Shapes are equal.                      *)
(*                                                                       *)
(* Character classes (what the lexer can distinguish):                   *)
(*   L letter, '_' and every non-ASCII character (PostgreSQL identifier  *)
(*     characters)          D digit            S blank, tab, CR, FF      *)
(*   N newline (ends a line comment)           Q  single quote           *)
(*   DQ double quote        B backslash        M  minus                  *)
(*   SL slash               ST star            SC semicolon              *)
(*   LP ( RP )  C comma  E =  P dollar         O  any other character    *)
EXTENDS Values, SequencesExt

CONSTANT BackslashEscapes   \* FALSE: standard SQL / PostgreSQL with standard_conforming_strings
                            \* TRUE : backslash escapes the next character inside '...'

ClientClasses == {"L", "D", "S", "Q", "DQ", "B", "M", "SL", "ST", "SC", "LP", "RP", "C", "E", "P", "O"}
Classes       == ClientClasses \cup {"N"}

(* Lexer state: mode and the token kinds produced so far.                *)
(* Modes: N between tokens, I identifier, Num number, SQ in '...',       *)
(* SQE quote seen inside '...' (closing quote or first half of ''),      *)
(* SQB backslash seen inside '...' (dialect), DQ in "...", DQE likewise, *)
(* Mi minus seen, Sl slash seen, LC line comment, BC block comment,      *)
(* BCS star seen in a block comment, Do dollar seen, Pa parameter digits *)
Lex0 == [m |-> "N", toks |-> <<>>]

\* character c met at a token boundary
Boundary(toks, c) ==
  CASE c = "L"          -> [m |-> "I",   toks |-> Append(toks, "id")]
    [] c = "D"          -> [m |-> "Num", toks |-> Append(toks, "num")]
    [] c \in {"S", "N"} -> [m |-> "N",   toks |-> toks]
    [] c = "Q"          -> [m |-> "SQ",  toks |-> Append(toks, "str")]
    [] c = "DQ"         -> [m |-> "DQ",  toks |-> Append(toks, "qid")]
    [] c = "M"          -> [m |-> "Mi",  toks |-> toks]
    [] c = "SL"         -> [m |-> "Sl",  toks |-> toks]
    [] c = "P"          -> [m |-> "Do",  toks |-> toks]
    [] OTHER            -> [m |-> "N",   toks |-> Append(toks, c)]   \* ST SC LP RP C E O B: one-character token

Step(st, c) ==
  LET m == st.m  t == st.toks IN
  CASE m = "N"   -> Boundary(t, c)
    [] m = "I"   -> IF c \in {"L", "D", "P"} THEN st ELSE Boundary(t, c)
    [] m = "Num" -> IF c = "D" THEN st ELSE Boundary(t, c)
    [] m = "SQ"  -> IF c = "Q" THEN [st EXCEPT !.m = "SQE"]
                    ELSE IF c = "B" /\ BackslashEscapes THEN [st EXCEPT !.m = "SQB"]
                    ELSE st
    [] m = "SQB" -> [st EXCEPT !.m = "SQ"]
    [] m = "SQE" -> IF c = "Q" THEN [st EXCEPT !.m = "SQ"] ELSE Boundary(t, c)
    [] m = "DQ"  -> IF c = "DQ" THEN [st EXCEPT !.m = "DQE"] ELSE st
    [] m = "DQE" -> IF c = "DQ" THEN [st EXCEPT !.m = "DQ"] ELSE Boundary(t, c)
    [] m = "Mi"  -> IF c = "M" THEN [m |-> "LC", toks |-> Append(t, "cmt")] ELSE Boundary(Append(t, "M"), c)
    [] m = "Sl"  -> IF c = "ST" THEN [m |-> "BC", toks |-> Append(t, "cmt")] ELSE Boundary(Append(t, "SL"), c)
    [] m = "LC"  -> IF c = "N" THEN [st EXCEPT !.m = "N"] ELSE st
    [] m = "BC"  -> IF c = "ST" THEN [st EXCEPT !.m = "BCS"] ELSE st
    [] m = "BCS" -> IF c = "SL" THEN [st EXCEPT !.m = "N"]
                    ELSE IF c = "ST" THEN st ELSE [st EXCEPT !.m = "BC"]
    [] m = "Do"  -> IF c = "D" THEN [m |-> "Pa", toks |-> Append(t, "param")] ELSE Boundary(Append(t, "P"), c)
    [] m = "Pa"  -> IF c = "D" THEN st ELSE Boundary(t, c)

\* the lexer run over a sequence of classes (FoldLeft is evaluated iteratively by TLC)
Run(st, q) == FoldLeft(Step, st, q)

\* end of the statement: an unterminated literal / comment is itself a structural fact
Finish(st) ==
  CASE st.m \in {"SQ", "SQB", "DQ", "BC", "BCS"} -> Append(st.toks, "OPEN")
    [] st.m = "Mi" -> Append(st.toks, "M")
    [] st.m = "Sl" -> Append(st.toks, "SL")
    [] st.m = "Do" -> Append(st.toks, "P")
    [] OTHER       -> st.toks

Shape(q)         == Finish(Run(Lex0, q))
ShapeFrom(st, q) == Finish(Run(st, q))

\* mode in which the character at position pos (1-based) of q is read
ModeAt(q, pos)   == Run(Lex0, SubSeq(q, 1, pos - 1)).m

\* the quoting context a mode stands for
Context(m) == CASE m \in {"SQ", "SQB", "SQE"} -> "in-quotes"
                [] m \in {"DQ", "DQE"}        -> "in-dquotes"
                [] m \in {"LC", "BC", "BCS"}  -> "in-comment"
                [] OTHER                      -> "unquoted"

(* Statement templates: a sequence of pieces, each either literal text   *)
(* <<"lit", classes>> or a hole <<"hole", how>> where the client string  *)
(* is placed: "raw" verbatim, "esc" with single quotes doubled (and      *)
(* backslashes doubled in the backslash dialect), "escdq" with double    *)
(* quotes doubled, "bound" not placed in the text at all (sent as a      *)
(* bound argument).                                                       *)
RECURSIVE Dbl(_, _)
Dbl(s, cs) == IF s = <<>> THEN <<>>
              ELSE (IF Head(s) \in cs THEN <<Head(s), Head(s)>> ELSE <<Head(s)>>) \o Dbl(Tail(s), cs)

Fill(how, s) == CASE how = "raw"   -> s
                  [] how = "esc"   -> Dbl(s, IF BackslashEscapes THEN {"Q", "B"} ELSE {"Q"})
                  [] how = "escdq" -> Dbl(s, {"DQ"})
                  [] how = "bound" -> <<>>

RECURSIVE Instantiate(_, _)
Instantiate(t, s) == IF t = <<>> THEN <<>>
                     ELSE (IF Head(t)[1] = "lit" THEN Head(t)[2] ELSE Fill(Head(t)[2], s)) \o Instantiate(Tail(t), s)

Benign == <<"L">>
DataOnly(t, s) == Shape(Instantiate(t, s)) = Shape(Instantiate(t, Benign))
=======================================================================
