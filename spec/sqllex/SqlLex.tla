------------------------------ MODULE SqlLex ------------------------------
(* C20: enumeration of all client strings up to MaxLen over the class      *)
(* alphabet.  For every string TLC                                          *)
(*  (a) checks DataOnly on the template shapes that keep client strings out *)
(*      of the token structure (bound parameter, quote-doubled literal,     *)
(*      quote-doubled identifier) - these must hold, they show that the     *)
(*      property is satisfiable and that the lexer is coherent;             *)
(*  (b) evaluates DataOnly on the template shapes the drivers use (client   *)
(*      string pasted between quotes / pasted unquoted) and prints the      *)
(*      string with the set of shapes it breaks: a PREDICTION, bound to the *)
(*      code by SqlLexTrace on the recorded statements.                     *)
EXTENDS SqlLexer

CONSTANT MaxLen

Lit(q)  == <<"lit", q>>
Hole(h) == <<"hole", h>>
Sel     == <<"L", "S", "ST", "S", "L", "S", "L", "S", "L", "S">>      \* SELECT * FROM t WHERE_

Templates == [
  \* --- shapes used by the drivers -------------------------------------
  \* SELECT * FROM t WHERE gid='%s'
  quoted_eq      |-> << Lit(Sel \o <<"L", "E", "Q">>), Hole("raw"), Lit(<<"Q">>) >>,
  \* SELECT * FROM t WHERE t.from IN ('v1') AND t.label IN ('%s', '%s')
  quoted_list    |-> << Lit(Sel \o <<"L", "O", "L", "S", "L", "S", "LP", "Q", "L", "D", "Q", "RP", "S", "L", "S",
                                     "L", "O", "L", "S", "L", "S", "LP", "Q">>), Hole("raw"),
                        Lit(<<"Q", "C", "S", "Q">>), Hole("raw"), Lit(<<"Q", "RP">>) >>,
  \* SELECT * FROM t WHERE id=%s
  unquoted_eq    |-> << Lit(Sel \o <<"L", "E">>), Hole("raw") >>,
  \* SELECT * FROM t WHERE id IN (%s)
  unquoted_list  |-> << Lit(Sel \o <<"L", "S", "L", "S", "LP">>), Hole("raw"), Lit(<<"RP">>) >>,
  \* SELECT * FROM %s WHERE =1
  unquoted_table |-> << Lit(<<"L", "S", "ST", "S", "L", "S">>), Hole("raw"), Lit(<<"S", "L", "S", "E", "D">>) >>,
  \* CREATE TABLE IF NOT EXISTS %s_vertices (gid varchar)
  unquoted_name  |-> << Lit(<<"L", "S", "L", "S", "L", "S", "L", "S", "L", "S">>), Hole("raw"),
                        Lit(<<"L", "S", "LP", "L", "S", "L", "RP">>) >>,
  \* --- shapes that keep the client string out of the structure ----------
  \* INSERT INTO t (gid) VALUES ($1)  + bound argument
  bound          |-> << Lit(<<"L", "S", "L", "S", "L", "S", "LP", "L", "RP", "S", "L", "S", "LP", "P", "D", "RP">>), Hole("bound") >>,
  \* SELECT * FROM t WHERE gid='<quotes doubled>'
  escaped_eq     |-> << Lit(Sel \o <<"L", "E", "Q">>), Hole("esc"), Lit(<<"Q">>) >>,
  \* SELECT * FROM "<double quotes doubled>" WHERE id=$1
  escaped_ident  |-> << Lit(<<"L", "S", "ST", "S", "L", "S", "DQ">>), Hole("escdq"),
                        Lit(<<"DQ", "S", "L", "S", "L", "E", "P", "D">>) >> ]

DriverShapes == {"quoted_eq", "quoted_list", "unquoted_eq", "unquoted_list", "unquoted_table", "unquoted_name"}
SafeShapes   == {"bound", "escaped_eq", "escaped_ident"}

VARIABLE s
Init == s = <<>>
Next == /\ Len(s) < MaxLen
        /\ \E c \in ClientClasses : s' = Append(s, c)

\* (a) must hold
SafeDataOnly == \A n \in SafeShapes : DataOnly(Templates[n], s)
\* the hole of a safe shape lies inside exactly one literal / parameter token: the shape is that of
\* the statement with the hole's token and nothing else at that place
SafeOneToken == /\ Shape(Instantiate(Templates["escaped_eq"], s))
                     = Shape(Sel \o <<"L", "E">>) \o <<"str">>
                /\ Shape(Instantiate(Templates["bound"], s))
                     = <<"id", "id", "id", "LP", "id", "RP", "id", "LP", "param", "RP">>

\* (b) prediction
Breaks(x) == { n \in DriverShapes : ~DataOnly(Templates[n], x) }
EmitStr == Emit("str", [s |-> s, breaks |-> Breaks(s)])
=======================================================================
