CONSTANT MaxLen = 4
CONSTANT BackslashEscapes = FALSE
INIT Init
NEXT Next
INVARIANT SafeDataOnly
INVARIANT SafeOneToken
INVARIANT EmitStr
CHECK_DEADLOCK FALSE
