CONSTANT BackslashEscapes = FALSE
INIT Init
NEXT Next
INVARIANT Verdict
CHECK_DEADLOCK FALSE
