CONSTANTS
  MaxJobs = 3
  HistLen = 0
  Random = FALSE
SPECIFICATION Spec
INVARIANT TypeInv
INVARIANT SearchSound
INVARIANT SearchComplete
INVARIANT CountIsRows
INVARIANT GoneIsGone
PROPERTY RestartKeeps
CHECK_DEADLOCK FALSE
