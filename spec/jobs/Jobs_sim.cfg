CONSTANTS
  MaxJobs = 3
  HistLen = 16
  Random = TRUE
SPECIFICATION Spec
INVARIANT TypeInv
INVARIANT SearchSound
INVARIANT SearchComplete
INVARIANT CountIsRows
INVARIANT GoneIsGone
INVARIANT EmitBeh
CHECK_DEADLOCK FALSE
