CONSTANTS
  MaxJobs = 2
  HistLen = 0
  Random = FALSE
SPECIFICATION Spec
CONSTRAINT OnePool
INVARIANT TypeInv
INVARIANT SearchSound
INVARIANT SearchComplete
INVARIANT CountIsRows
INVARIANT GoneIsGone
PROPERTY RestartKeeps
CHECK_DEADLOCK FALSE
