CONSTANTS
  MaxJobs = 1
  HistLen = 4
  Random = FALSE
SPECIFICATION SpecSys
INVARIANT TypeInv
INVARIANT CountIsRows
INVARIANT EmitSys
CHECK_DEADLOCK FALSE
