---------------------------- MODULE JobsTrav ----------------------------
(* C11: drives Traversal.tla (the reference semantics; the check copies   *)
(* it next to this module) through fixed lists of programs, one statement *)
(* per step, so that every prefix of a program is a state: the prefixes   *)
(* are the split points for resume.                                       *)
(*  - FamilyProgs, on the graph family of Graphs.tla: programs whose      *)
(*    later statements read marks, data of marked elements and paths      *)
(*    collected by the earlier ones, with a result of every type;         *)
(*  - ScaledProgs, on generated star graphs (centre "c" with n leaves;    *)
(*    the check appends them to GraphFamily behind the family): results   *)
(*    of every type in sizes around the worker-pool and buffer sizes of   *)
(*    the job serializer.                                                 *)
EXTENDS Traversal

NFamily == 7
RenderMark == RenderS(<<"m", [a |-> <<"ref", RMX>>, b |-> <<"ref", RMGid>>, c |-> <<"ref", RW>>]>>, {"m"})
RenderCur  == RenderS(<<"m", [g |-> <<"ref", RGid>>, v |-> <<"ref", RX>>]>>, {})

FamilyProgs == <<
  \* data of a marked edge / vertex read after the split
  << StartS("E", <<>>), AsS("m"), Mov("out", <<>>), HasS(C("eq", RMX, N(1)), {"m"}), Mov("in", <<>>) >>,
  << StartS("E", <<>>), AsS("m"), Mov("in", <<>>), SelS(<<"m">>), HasS(C("eq", RW, N(1)), {}) >>,
  << StartS("V", <<>>), AsS("m"), Mov("outE", <<>>), RenderMark >>,
  << StartS("E", <<>>), AsS("m"), Mov("out", <<>>), Mov("outE", <<>>), RenderMark >>,
  << StartS("V", <<>>), AsS("m"), Mov("out", <<>>), DistS(<<RMGid>>, {"m"}), St("count") >>,
  \* a mark set again after the split, and the mark of the stored job selected after the split
  << StartS("E", <<>>), AsS("m"), Mov("out", <<>>), AsS("m"), SelS(<<"m">>) >>,
  << StartS("E", <<>>), AsS("m"), SelS(<<"m">>), Mov("out", <<>>) >>,
  << StartS("V", <<>>), AsS("m"), Mov("outE", <<>>), AsS("m"), SelS(<<"m">>) >>,
  << StartS("V", <<>>), AsS("m"), SelS(<<"m">>), Mov("outE", <<>>) >>,
  \* selections of vertices and edges
  << StartS("V", <<>>), AsS("m"), Mov("outE", <<>>), AsS("m2"), Mov("out", <<>>), SelS(<<"m", "m2">>), LimS(1) >>,
  << StartS("E", <<>>), AsS("m2"), Mov("both", <<>>), AsS("m"), SelS(<<"m", "m2">>) >>,
  \* paths across the split
  << StartS("V", <<>>), Mov("outE", <<>>), Mov("out", <<>>), Mov("in", <<>>), St("path") >>,
  << StartS("E", <<>>), Mov("in", <<>>), Mov("bothE", <<>>), St("path"), St("count") >>,
  \* projections, filters on stored data, truncation, counting
  << StartS("V", <<>>), Mov("out", <<>>), FieldsS(<<"x">>, <<>>), HasKeyS(<<RX>>), RenderCur >>,
  << StartS("V", <<>>), HasS(C("eq", RX, N(1)), {}), Mov("both", <<>>), LimS(1), Mov("outE", <<>>) >>,
  << StartS("V", <<>>), UnwindS(RL), HasKeyS(<<RX>>), Mov("out", <<>>) >>,
  << StartS("V", <<>>), Mov("in", <<>>), St("count"), LimS(1) >>,
  << StartS("E", <<>>), HasLabelS(<<"K1">>), Mov("out", <<>>), Mov("inE", <<>>), HasKeyS(<<RW>>), St("count") >>
>>

ScaledProgs == <<
  \* vertices (n), then one count row
  << StartS("V", <<"c">>), Mov("out", <<>>), HasLabelS(<<"L">>), St("count") >>,
  \* edges (n), marks, selections (n)
  << StartS("V", <<"c">>), Mov("outE", <<>>), AsS("m"), Mov("out", <<>>), AsS("m2"), SelS(<<"m", "m2">>) >>,
  \* all edges, renders (n)
  << StartS("E", <<>>), Mov("out", <<>>), RenderCur >>,
  \* paths (n)
  << StartS("V", <<"c">>), AsS("m"), Mov("out", <<>>), St("path") >>,
  \* n copies of the centre, of which distinct() keeps one
  << StartS("V", <<"c">>), Mov("outE", <<>>), Mov("in", <<>>), DistS(<<>>, {}) >>,
  \* a filter on stored data
  << StartS("V", <<>>), HasLabelS(<<"L">>), HasS(C("eq", RX, N(1)), {}), Mov("inE", <<>>) >>
>>

Progs == IF gi <= NFamily THEN FamilyProgs ELSE ScaledProgs

InitP ==
  /\ gi \in GraphIdx
  /\ mt = <<>> /\ blocks = <<>> /\ counted = FALSE /\ cntKeep = 1 /\ pathOK = TRUE /\ status = "ok"
  /\ \E k \in DOMAIN Progs :
        /\ prog = <<Progs[k][1]>>
        /\ ty = (IF Progs[k][1].op = "V" THEN "vertex" ELSE "edge")
        /\ rows = StartRows(GraphFamily[gi], Progs[k][1])

NextP ==
  \E k \in DOMAIN Progs :
     /\ Len(prog) < Len(Progs[k])
     /\ SubSeq(Progs[k], 1, Len(prog)) = prog
     /\ Apply(Progs[k][Len(prog) + 1])

SpecP == InitP /\ [][NextP]_vars
=======================================================================
