---------------------------- MODULE JobsPool ----------------------------
(* Default query pools for Jobs.tla (abstract statements 1..5, two       *)
(* graphs).  lib/checks/c11.py replaces this module by pools built from   *)
(* Traversal.tla states: g = graph index, q = interned statements,        *)
(* sid = index of the Traversal.tla state describing the admissible       *)
(* results, cnts = the sizes those results can have ({-2}: aggregation).  *)
EXTENDS Integers
QE(g, q, sid, cnts) == [g |-> g, q |-> q, sid |-> sid, cnts |-> cnts]
Pools == <<
  << QE(1, <<1>>, 1, {3}), QE(1, <<1, 2>>, 2, {2}), QE(1, <<1, 2, 3>>, 3, {0}), QE(1, <<1, 2, 4>>, 4, {1, 2}),
     QE(2, <<1, 2>>, 5, {1}), QE(1, <<1, 2, 5>>, 6, {-2}) >>,
  << QE(1, <<1, 2>>, 7, {4}), QE(1, <<1, 3>>, 8, {1}), QE(1, <<1, 2, 3, 4>>, 9, {0, 1}), QE(2, <<1>>, 10, {0}) >>
>>
=======================================================================
