------------------------------ MODULE Has ------------------------------
(* C08: the documented meaning of has() conditions and their Boolean    *)
(* combination.  This is a property-level (oracle) specification.       *)
(*                                                                      *)
(*   eq/neq     structural equality                                     *)
(*   gt..lte    numeric comparison; an operand that is not a number or  *)
(*              numeric text never matches                              *)
(*   inside     lo <  v <  hi       outside  v < lo \/ v > hi           *)
(*   between    lo <= v <  hi                                           *)
(*   within     v is one of the listed values;  without = not within    *)
(*   contains   v is a list that has the value as a member              *)
(*   and/or/not ordinary Boolean algebra                                *)
EXTENDS Values

Ops == {"eq", "neq", "gt", "gte", "lt", "lte", "inside", "outside", "between",
        "within", "without", "contains"}

Cond(op, arg)   == [t |-> "c", op |-> op, arg |-> arg]
Not(x)          == [t |-> "not", e |-> x]
And(es)         == [t |-> "and", es |-> es]
Or(es)          == [t |-> "or", es |-> es]

\* a pair of numeric bounds, or nothing
IsBounds(a) == /\ IsList(a) /\ Len(a[2]) = 2 /\ HasNum(a[2][1]) /\ HasNum(a[2][2])
Lo(a) == NumOf(a[2][1])
Hi(a) == NumOf(a[2][2])

CondSem(op, v, a) ==
  CASE op = "eq"       -> v = a
    [] op = "neq"      -> v # a
    [] op = "gt"       -> HasNum(v) /\ HasNum(a) /\ NumOf(v) >  NumOf(a)
    [] op = "gte"      -> HasNum(v) /\ HasNum(a) /\ NumOf(v) >= NumOf(a)
    [] op = "lt"       -> HasNum(v) /\ HasNum(a) /\ NumOf(v) <  NumOf(a)
    [] op = "lte"      -> HasNum(v) /\ HasNum(a) /\ NumOf(v) <= NumOf(a)
    [] op = "inside"   -> HasNum(v) /\ IsBounds(a) /\ NumOf(v) > Lo(a) /\ NumOf(v) < Hi(a)
    [] op = "outside"  -> HasNum(v) /\ IsBounds(a) /\ (NumOf(v) < Lo(a) \/ NumOf(v) > Hi(a))
    [] op = "between"  -> HasNum(v) /\ IsBounds(a) /\ NumOf(v) >= Lo(a) /\ NumOf(v) < Hi(a)
    [] op = "within"   -> IsList(a) /\ v \in SeqToSet(a[2])
    [] op = "without"  -> ~(IsList(a) /\ v \in SeqToSet(a[2]))
    [] op = "contains" -> IsList(v) /\ a \in SeqToSet(v[2])

(* Cases the documentation leaves open (the check only demands "no crash"):  *)
(*  - equality-like tests between an absent/null element value and a null    *)
(*    argument (absent and null are not distinguished by the documentation); *)
(*  - within/without with an argument that is not a list.                    *)
OpenCase(op, v, a) ==
  \/ /\ op \in {"eq", "neq"} /\ IsNullish(v) /\ a = Null
  \/ /\ op \in {"within", "without"} /\ ~IsList(a)
  \/ /\ op \in {"within", "without"} /\ IsList(a) /\ IsNullish(v) /\ Null \in SeqToSet(a[2])
  \/ /\ op = "contains" /\ a = Null

RECURSIVE HasSem(_, _)
HasSem(x, v) ==
  CASE x.t = "c"   -> CondSem(x.op, v, x.arg)
    [] x.t = "not" -> ~HasSem(x.e, v)
    [] x.t = "and" -> \A i \in DOMAIN x.es : HasSem(x.es[i], v)
    [] x.t = "or"  -> \E i \in DOMAIN x.es : HasSem(x.es[i], v)

RECURSIVE HasOpen(_, _)
HasOpen(x, v) ==
  CASE x.t = "c"   -> OpenCase(x.op, v, x.arg)
    [] x.t = "not" -> HasOpen(x.e, v)
    [] OTHER       -> \E i \in DOMAIN x.es : HasOpen(x.es[i], v)

------------------------------------------------------------------------
(* The grid.                                                            *)
DocVals == << MISSING, Null, B(TRUE), B(FALSE), N(-1), N(0), N(1), N(2), S("1"), S("a"), S(""),
              L(<<>>), L(<<N(1)>>), L(<<N(1), S("a")>>), L(<<Null>>), M([k |-> N(1)]) >>
DocIds == DOMAIN DocVals

Args == { Null, B(TRUE), B(FALSE), N(-1), N(0), N(1), N(2), S("1"), S("a"), S(""),
          L(<<>>), L(<<N(1)>>), L(<<N(0), N(1)>>), L(<<N(1), N(1)>>), L(<<N(1), N(0)>>),
          L(<<N(0), N(2)>>), L(<<S("0"), S("2")>>), L(<<S("a"), S("1")>>), L(<<N(1), S("a")>>),
          L(<<N(0), N(1), N(2)>>), L(<<L(<<N(1)>>)>>), L(<<N(0), S("a")>>), L(<<Null, N(1)>>),
          L(<<B(TRUE)>>), M([k |-> N(1)]) }

GridConds == { Cond(op, a) : op \in Ops, a \in Args }

\* basis for Boolean combinations: conditions with distinct, overlapping kept sets
Basis == { Cond("eq", N(1)), Cond("gt", N(0)), Cond("lt", N(2)), Cond("within", L(<<S("a"), S("1")>>)),
           Cond("neq", S("a")), Cond("contains", N(1)) }

Lift(E) == E \cup { Not(x) : x \in E }
               \cup { And(<<x, y>>) : x \in E, y \in E }
               \cup { Or(<<x, y>>) : x \in E, y \in E }
E1 == Lift(Basis)

CONSTANT Depth   \* 1 or 2

E2 == Lift(E1)
Tern == { And(<<a, b, c>>) : a \in Basis, b \in Basis, c \in Basis }
        \cup { Or(<<a, b, c>>) : a \in Basis, b \in Basis, c \in Basis }
        \cup { And(<<>>), Or(<<>>) }

\* Expressions are produced in two stages so that TLC's workers share the work:
\* stage 0 holds a depth-<=1 seed, the step to stage 1 wraps it once more.
VARIABLES e, stage
Init == \/ (stage = 1 /\ e \in GridConds \cup Tern \cup E1)
        \/ (Depth >= 2 /\ stage = 0 /\ e \in E1)
Next == /\ stage = 0
        /\ stage' = 1
        /\ e' \in {Not(e)} \cup { And(<<e, y>>) : y \in E1 } \cup { Or(<<e, y>>) : y \in E1 }

Keep(x)  == { d \in DocIds : HasSem(x, DocVals[d]) }
OpenD(x) == { d \in DocIds : HasOpen(x, DocVals[d]) }

\* the oracle must itself satisfy the laws the property names (guards against
\* transcription slips in CondSem/HasSem)
Laws ==
  /\ Keep(Not(Not(e))) = Keep(e)
  /\ e.t = "and" => /\ Keep(Not(e)) = Keep(Or([i \in DOMAIN e.es |-> Not(e.es[i])]))
                    /\ Len(e.es) = 2 => Keep(e) = Keep(And(<<e.es[2], e.es[1]>>))
  /\ e.t = "or"  => /\ Keep(Not(e)) = Keep(And([i \in DOMAIN e.es |-> Not(e.es[i])]))
                    /\ Len(e.es) = 2 => Keep(e) = Keep(Or(<<e.es[2], e.es[1]>>))
  /\ e.t = "c" => /\ e.op = "without" => Keep(e) = DocIds \ Keep(Cond("within", e.arg))
                  /\ e.op = "neq"     => Keep(e) = DocIds \ Keep(Cond("eq", e.arg))
                  /\ (e.op = "between" /\ IsBounds(e.arg)) =>
                        Keep(e) = Keep(And(<<Cond("gte", e.arg[2][1]), Cond("lt", e.arg[2][2])>>))
                  /\ (e.op = "inside" /\ IsBounds(e.arg)) =>
                        Keep(e) = Keep(And(<<Cond("gt", e.arg[2][1]), Cond("lt", e.arg[2][2])>>))
                  /\ (e.op = "outside" /\ IsBounds(e.arg)) =>
                        Keep(e) = Keep(Or(<<Cond("lt", e.arg[2][1]), Cond("gt", e.arg[2][2])>>))

EmitCase == stage = 1 => Emit("case", [e |-> e, keep |-> Keep(e), open |-> OpenD(e)])
EmitDocs == Emit("docs", DocVals)
ASSUME EmitDocs
=======================================================================
