------------------------------ MODULE Has ------------------------------
(* C08: the grid of has() expressions over HasSem.tla (the documented   *)
(* meaning) and the state machine that lets TLC enumerate it.           *)
EXTENDS HasSem

(* The grid.                                                            *)
DocVals == << MISSING, Null, B(TRUE), B(FALSE), N(-1), N(0), N(1), N(2), S("1"), S("a"), S(""),
              L(<<>>), L(<<N(1)>>), L(<<N(1), S("a")>>), L(<<Null>>), M([k |-> N(1)]),
              \* lists whose members are themselves containers (membership is deep equality)
              L(<<L(<<N(1)>>), N(2)>>), L(<<M([k |-> N(1)]), S("a")>>) >>
DocIds == DOMAIN DocVals

Args == { Null, B(TRUE), B(FALSE), N(-1), N(0), N(1), N(2), S("1"), S("a"), S(""),
          L(<<>>), L(<<N(1)>>), L(<<N(0), N(1)>>), L(<<N(1), N(1)>>), L(<<N(1), N(0)>>),
          L(<<N(0), N(2)>>), L(<<S("0"), S("2")>>), L(<<S("a"), S("1")>>), L(<<N(1), S("a")>>),
          L(<<N(0), N(1), N(2)>>), L(<<L(<<N(1)>>)>>), L(<<N(0), S("a")>>), L(<<Null, N(1)>>),
          L(<<B(TRUE)>>), M([k |-> N(1)]) }

GridConds == { Cond(op, a) : op \in Ops, a \in Args }

\* basis for Boolean combinations: conditions with distinct, overlapping kept sets
Basis == { Cond("eq", N(1)), Cond("gt", N(0)), Cond("lt", N(2)), Cond("within", L(<<S("a"), S("1")>>)),
           Cond("neq", S("a")), Cond("contains", N(1)) }

Lift(E) == E \cup { Not(x) : x \in E }
               \cup { And(<<x, y>>) : x \in E, y \in E }
               \cup { Or(<<x, y>>) : x \in E, y \in E }
E1 == Lift(Basis)

CONSTANT Depth   \* 1 or 2

E2 == Lift(E1)
Tern == { And(<<a, b, c>>) : a \in Basis, b \in Basis, c \in Basis }
        \cup { Or(<<a, b, c>>) : a \in Basis, b \in Basis, c \in Basis }
        \cup { And(<<>>), Or(<<>>) }

\* Expressions are produced in two stages so that TLC's workers share the work:
\* stage 0 holds a depth-<=1 seed, the step to stage 1 wraps it once more.
VARIABLES e, stage
Init == \/ (stage = 1 /\ e \in GridConds \cup Tern \cup E1)
        \/ (Depth >= 2 /\ stage = 0 /\ e \in E1)
Next == /\ stage = 0
        /\ stage' = 1
        /\ e' \in {Not(e)} \cup { And(<<e, y>>) : y \in E1 } \cup { Or(<<e, y>>) : y \in E1 }

Keep(x)  == { d \in DocIds : HasSem(x, DocVals[d]) }
OpenD(x) == { d \in DocIds : HasOpen(x, DocVals[d]) }

\* the oracle must itself satisfy the laws the property names (guards against
\* transcription slips in CondSem/HasSem)
Laws ==
  /\ Keep(Not(Not(e))) = Keep(e)
  /\ e.t = "and" => /\ Keep(Not(e)) = Keep(Or([i \in DOMAIN e.es |-> Not(e.es[i])]))
                    /\ Len(e.es) = 2 => Keep(e) = Keep(And(<<e.es[2], e.es[1]>>))
  /\ e.t = "or"  => /\ Keep(Not(e)) = Keep(And([i \in DOMAIN e.es |-> Not(e.es[i])]))
                    /\ Len(e.es) = 2 => Keep(e) = Keep(Or(<<e.es[2], e.es[1]>>))
  /\ e.t = "c" => /\ e.op = "without" => Keep(e) = DocIds \ Keep(Cond("within", e.arg))
                  /\ e.op = "neq"     => Keep(e) = DocIds \ Keep(Cond("eq", e.arg))
                  /\ (e.op = "between" /\ IsBounds(e.arg)) =>
                        Keep(e) = Keep(And(<<Cond("gte", e.arg[2][1]), Cond("lt", e.arg[2][2])>>))
                  /\ (e.op = "inside" /\ IsBounds(e.arg)) =>
                        Keep(e) = Keep(And(<<Cond("gt", e.arg[2][1]), Cond("lt", e.arg[2][2])>>))
                  /\ (e.op = "outside" /\ IsBounds(e.arg)) =>
                        Keep(e) = Keep(Or(<<Cond("lt", e.arg[2][1]), Cond("gt", e.arg[2][2])>>))

EmitCase == stage = 1 => Emit("case", [e |-> e, keep |-> Keep(e), open |-> OpenD(e)])
EmitDocs == Emit("docs", DocVals)
ASSUME EmitDocs
=======================================================================
