CONSTANT Depth = 2
INIT Init
NEXT Next
INVARIANT Laws
INVARIANT EmitCase
CHECK_DEADLOCK FALSE
