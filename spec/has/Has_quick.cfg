CONSTANT Depth = 1
INIT Init
NEXT Next
INVARIANT Laws
INVARIANT EmitCase
CHECK_DEADLOCK FALSE
