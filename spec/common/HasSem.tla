---------------------------- MODULE HasSem ----------------------------
(* C08: the documented meaning of has() conditions and their Boolean    *)
(* combination.  This is a property-level (oracle) specification.       *)
(*                                                                      *)
(*   eq/neq     structural equality                                     *)
(*   gt..lte    numeric comparison; an operand that is not a number or  *)
(*              numeric text never matches                              *)
(*   inside     lo <  v <  hi       outside  v < lo \/ v > hi           *)
(*   between    lo <= v <  hi                                           *)
(*   within     v is one of the listed values;  without = not within    *)
(*   contains   v is a list that has the value as a member              *)
(*   and/or/not ordinary Boolean algebra                                *)
EXTENDS Values

Ops == {"eq", "neq", "gt", "gte", "lt", "lte", "inside", "outside", "between",
        "within", "without", "contains"}

Cond(op, arg)   == [t |-> "c", op |-> op, arg |-> arg]
Not(x)          == [t |-> "not", e |-> x]
And(es)         == [t |-> "and", es |-> es]
Or(es)          == [t |-> "or", es |-> es]

\* a pair of numeric bounds, or nothing
IsBounds(a) == /\ IsList(a) /\ Len(a[2]) = 2 /\ HasNum(a[2][1]) /\ HasNum(a[2][2])
Lo(a) == NumOf(a[2][1])
Hi(a) == NumOf(a[2][2])

CondSem(op, v, a) ==
  CASE op = "eq"       -> v = a
    [] op = "neq"      -> v # a
    [] op = "gt"       -> HasNum(v) /\ HasNum(a) /\ NumOf(v) >  NumOf(a)
    [] op = "gte"      -> HasNum(v) /\ HasNum(a) /\ NumOf(v) >= NumOf(a)
    [] op = "lt"       -> HasNum(v) /\ HasNum(a) /\ NumOf(v) <  NumOf(a)
    [] op = "lte"      -> HasNum(v) /\ HasNum(a) /\ NumOf(v) <= NumOf(a)
    [] op = "inside"   -> HasNum(v) /\ IsBounds(a) /\ NumOf(v) > Lo(a) /\ NumOf(v) < Hi(a)
    [] op = "outside"  -> HasNum(v) /\ IsBounds(a) /\ (NumOf(v) < Lo(a) \/ NumOf(v) > Hi(a))
    [] op = "between"  -> HasNum(v) /\ IsBounds(a) /\ NumOf(v) >= Lo(a) /\ NumOf(v) < Hi(a)
    [] op = "within"   -> IsList(a) /\ v \in SeqToSet(a[2])
    [] op = "without"  -> ~(IsList(a) /\ v \in SeqToSet(a[2]))
    [] op = "contains" -> IsList(v) /\ a \in SeqToSet(v[2])

(* Cases the documentation leaves open (the check only demands "no crash"):  *)
(*  - equality-like tests between an absent/null element value and a null    *)
(*    argument (absent and null are not distinguished by the documentation); *)
(*  - within/without with an argument that is not a list.                    *)
OpenCase(op, v, a) ==
  \/ /\ op \in {"eq", "neq"} /\ IsNullish(v) /\ a = Null
  \/ /\ op \in {"within", "without"} /\ ~IsList(a)
  \/ /\ op \in {"within", "without"} /\ IsList(a) /\ IsNullish(v) /\ Null \in SeqToSet(a[2])
  \/ /\ op = "contains" /\ a = Null

RECURSIVE HasSem(_, _)
HasSem(x, v) ==
  CASE x.t = "c"   -> CondSem(x.op, v, x.arg)
    [] x.t = "not" -> ~HasSem(x.e, v)
    [] x.t = "and" -> \A i \in DOMAIN x.es : HasSem(x.es[i], v)
    [] x.t = "or"  -> \E i \in DOMAIN x.es : HasSem(x.es[i], v)

RECURSIVE HasOpen(_, _)
HasOpen(x, v) ==
  CASE x.t = "c"   -> OpenCase(x.op, v, x.arg)
    [] x.t = "not" -> HasOpen(x.e, v)
    [] OTHER       -> \E i \in DOMAIN x.es : HasOpen(x.es[i], v)
=======================================================================
