---------------------------- MODULE Values ----------------------------
(* JSON values as tagged tuples, so that TLC never compares a string    *)
(* with an integer.  A property that is absent is MISSING (only ever a  *)
(* lookup result, never stored).  Maps are <<"m", f>> with f a function *)
(* from strings to values; lists are <<"l", seq>>.                      *)
EXTENDS Integers, Sequences, FiniteSets, TLC, Json

Null      == <<"null">>
MISSING   == <<"missing">>
B(b)      == <<"b", b>>
N(k)      == <<"n", k>>
S(s)      == <<"s", s>>
L(q)      == <<"l", q>>
M(f)      == <<"m", f>>
EmptyMap  == <<"m", <<>>>>

Kind(v)   == v[1]
IsList(v) == v[1] = "l"
IsMap(v)  == v[1] = "m"
IsNullish(v) == v[1] \in {"null", "missing"}

\* numeric text: the strings of the universe that parse as numbers
NumText == [t \in {"-1", "0", "1", "2"} |->
              CASE t = "-1" -> -1 [] t = "0" -> 0 [] t = "1" -> 1 [] t = "2" -> 2]

HasNum(v) == \/ v[1] = "n"
             \/ (v[1] = "s" /\ v[2] \in DOMAIN NumText)
NumOf(v)  == IF v[1] = "n" THEN v[2] ELSE NumText[v[2]]

\* Emit a JSON message on TLC's output; the check driver collects them by tag.
Emit(tag, obj) == PrintT(<<"J", tag, ToJson(obj)>>)

\* map helpers
MapKeys(m) == DOMAIN m[2]
MapGet(m, k) == IF k \in DOMAIN m[2] THEN m[2][k] ELSE MISSING
SeqToSet(q) == {q[i] : i \in DOMAIN q}
=======================================================================
