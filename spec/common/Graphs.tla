---------------------------- MODULE Graphs ----------------------------
(* Property graphs and the family of small graphs used by the traversal *)
(* specifications.  A graph is                                           *)
(*   [vs |-> <<ids>>, V |-> [id |-> [label, data]],                      *)
(*    es |-> <<ids>>, E |-> [id |-> [label, from, to, data]]]            *)
(* vs/es only fix an enumeration order inside the specification; results *)
(* are compared as multisets.                                            *)
EXTENDS Values

VRec(l, d)       == [label |-> l, data |-> d]
ERec(l, f, t, d) == [label |-> l, from |-> f, to |-> t, data |-> d]

\* element records as travelers carry them
VElem(g, id) == [k |-> "v", gid |-> id, label |-> g.V[id].label, from |-> "", to |-> "", data |-> g.V[id].data]
EElem(g, id) == [k |-> "e", gid |-> id, label |-> g.E[id].label, from |-> g.E[id].from, to |-> g.E[id].to,
                 data |-> g.E[id].data]

HasV(g, id) == id \in DOMAIN g.V
HasE(g, id) == id \in DOMAIN g.E

D0 == EmptyMap
DA == M([x |-> N(1), s |-> S("p"), n |-> M([k |-> N(1)]), l |-> L(<<N(1), N(2)>>)])
DB == M([x |-> N(2), s |-> S("q"), l |-> L(<<S("u")>>)])
DC == M([x |-> Null, l |-> L(<<N(1), N(1)>>)])
DW1 == M([w |-> N(1), x |-> N(1)])
DW2 == M([w |-> N(2)])
DE0 == M([w |-> N(3), l |-> L(<<>>)])            \* an element whose list is empty
DL0 == M([x |-> N(1), l |-> L(<<>>)])

\* 1 empty graph
GEmpty == [vs |-> <<>>, V |-> <<>>, es |-> <<>>, E |-> <<>>]
\* 2 one isolated vertex
GIso == [vs |-> <<"a">>, V |-> [a |-> VRec("L1", DA)], es |-> <<>>, E |-> <<>>]
\* 3 chain a -> b -> c with two vertex labels, two edge labels, nested/list/null data
GChain == [vs |-> <<"a", "b", "c">>,
           V |-> [a |-> VRec("L1", DA), b |-> VRec("L2", DB), c |-> VRec("L1", DC)],
           es |-> <<"e1", "e2">>,
           E |-> [e1 |-> ERec("K1", "a", "b", DW1), e2 |-> ERec("K2", "b", "c", D0)]]
\* 4 self loop and parallel edges
GLoop == [vs |-> <<"a", "b">>,
          V |-> [a |-> VRec("L1", DA), b |-> VRec("L1", DL0)],
          es |-> <<"e1", "e2", "e3">>,
          E |-> [e1 |-> ERec("K1", "a", "a", D0), e2 |-> ERec("K1", "a", "b", DW1), e3 |-> ERec("K1", "a", "b", DW2)]]
\* 5 edges whose source / destination / both are absent (z, y are not vertices)
GDangle == [vs |-> <<"a">>,
            V |-> [a |-> VRec("L1", DA)],
            es |-> <<"e1", "e2", "e3">>,
            E |-> [e1 |-> ERec("K1", "a", "z", DW1), e2 |-> ERec("K2", "z", "a", D0), e3 |-> ERec("K1", "z", "y", D0)]]
\* 6 a label shared by vertices and edges, a 2-cycle
GShared == [vs |-> <<"a", "b">>,
            V |-> [a |-> VRec("L1", DA), b |-> VRec("L2", DC)],
            es |-> <<"e1", "e2">>,
            E |-> [e1 |-> ERec("L1", "a", "b", DW1), e2 |-> ERec("L2", "b", "a", DW2)]]
\* 7 a fan: a -> b, a -> c, b -> c, c -> a (several paths to one vertex)
GFan == [vs |-> <<"a", "b", "c">>,
         V |-> [a |-> VRec("L1", DA), b |-> VRec("L1", DB), c |-> VRec("L2", DA)],
         es |-> <<"e1", "e2", "e3", "e4">>,
         E |-> [e1 |-> ERec("K1", "a", "b", DW1), e2 |-> ERec("K1", "a", "c", DW2),
                e3 |-> ERec("K2", "b", "c", DW1), e4 |-> ERec("K2", "c", "a", DE0)]]

\* 8 odd property values: lists whose members are containers, containers in containers, a list under the
\* field the other graphs keep numbers in (used by the request space of C06 and the loops of C12 only)
DO1 == M([x |-> N(1), l |-> L(<<L(<<N(1)>>), M([k |-> N(1)]), N(2)>>), n |-> M([k |-> L(<<N(1)>>)])])
DO2 == M([x |-> L(<<L(<<N(1)>>), M([k |-> N(1)]), N(1)>>), l |-> L(<<Null, L(<<>>)>>), s |-> M([k |-> M([j |-> Null])])])
GOdd == [vs |-> <<"a", "b">>,
         V |-> [a |-> VRec("L1", DO1), b |-> VRec("L2", DO2)],
         es |-> <<"e1", "e2">>,
         E |-> [e1 |-> ERec("K1", "a", "b", DO1), e2 |-> ERec("K2", "b", "a", DO2)]]

\* 9 values of different JSON types that print alike (1 and "1", true and "true"), an empty text, a repeated value
DT1 == M([x |-> N(1)])
DT2 == M([x |-> S("1")])
DT3 == M([x |-> S("")])
DT4 == M([x |-> B(TRUE)])
DT5 == M([x |-> S("true")])
GTypes == [vs |-> <<"a", "b", "c", "d">>,
           V |-> [a |-> VRec("L1", DT1), b |-> VRec("L1", DT2), c |-> VRec("L2", DT3), d |-> VRec("L2", DT1)],
           es |-> <<"e1", "e2", "e3">>,
           E |-> [e1 |-> ERec("K1", "a", "b", DT4), e2 |-> ERec("K1", "b", "c", DT5), e3 |-> ERec("K2", "c", "d", DT4)]]

GraphFamily == <<GEmpty, GIso, GChain, GLoop, GDangle, GShared, GFan, GOdd, GTypes>>
=======================================================================
