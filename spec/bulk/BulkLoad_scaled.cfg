CONSTANTS
 MaxLen = 3
 Alpha = "all"
 ScaleTo = {49, 50, 51, 99, 100, 101, 250}
 OnlyFull = TRUE
SPECIFICATION Spec
INVARIANT EmitStream
CHECK_DEADLOCK FALSE
