SPECIFICATION Spec
INVARIANT AlwaysUp
INVARIANT EmitReq
CHECK_DEADLOCK FALSE
