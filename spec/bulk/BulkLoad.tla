----------------------------- MODULE BulkLoad -----------------------------
(* C18: generator of element streams with their abstract results.          *)
(* TLC enumerates every stream over the alphabet up to MaxLen (or samples  *)
(* them in simulation mode) and prints, per stream, Outcome(stream) for    *)
(* every policy, and for the lengths in ScaleTo the outcome of the scaled  *)
(* stream.  The replayer (harness/bulk) executes each stream on the real   *)
(* server / kvgraph / StreamBatch and lib/checks/c18.py compares.          *)
EXTENDS BulkAbs

CONSTANTS MaxLen,     \* longest stream
          Alpha,      \* "all" | "safe"
          ScaleTo,    \* set of lengths for scaled versions ({} = none)
          OnlyFull    \* TRUE: print only streams of length MaxLen (simulation)

VARIABLES stream
vars == <<stream>>

Alph == CASE Alpha = "safe" -> SafeAlphabet [] Alpha = "mini" -> MiniAlphabet [] Alpha = "relabel" -> RelabelAlphabet [] OTHER -> Alphabet

Init == stream = <<>>
Next == Len(stream) < MaxLen /\ \E el \in Alph : stream' = Append(stream, el)
Spec == Init /\ [][Next]_vars

Outcomes(st) == [p \in DOMAIN Policies |-> Outcome(InitStore, Policies[p], st)]

EmitStream ==
  (Len(stream) > 0 /\ (~OnlyFull \/ Len(stream) = MaxLen)) =>
     /\ (ScaleTo = {} => Emit("stream", [stream |-> stream, out |-> Outcomes(stream)]))
     /\ \A n \in ScaleTo :
          LET sc == Scale(stream, n) IN Emit("scaled", [base |-> stream, n |-> n, stream |-> sc, out |-> Outcomes(sc)])

ASSUME Emit("init", InitStore)

\* the abstract clause itself: properties TLC checks on every generated stream
AbsSane ==
  \A p \in DOMAIN Policies :
    LET W == Policies[p]  o == Outcome(InitStore, W, stream) IN
      /\ DOMAIN o.store = Existing                                  \* a load neither creates nor removes graphs
      /\ o.ins + o.errLow <= Len(stream)
      /\ \A g \in Existing \ W : o.store[g] = InitStore[g]          \* denied graphs are untouched
      /\ \A g \in Existing : (\A i \in DOMAIN stream : stream[i].g # g) => o.store[g] = InitStore[g]   \* isolation
=======================================================================
