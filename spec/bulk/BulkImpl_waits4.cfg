CONSTANTS
 MaxLen = 4
 Alpha = "all"
 Variant = "waits"
SPECIFICATION Spec
INVARIANT Refines
INVARIANT EmitPrediction
CHECK_DEADLOCK FALSE
