-------------------------- MODULE StreamBatchImpl --------------------------
(* C18, implementation-shaped clause for util/insert.go:StreamBatch: the   *)
(* main loop validates each element, collects vertices and edges in two    *)
(* batches, hands a batch that has reached batchSize to the vertex / edge  *)
(* worker goroutine over an unbuffered channel before taking the next      *)
(* element, hands over both (possibly empty) batches after the last        *)
(* element, closes the channels and waits.  The workers apply a batch with *)
(* ONE call of the sink (AddVertex / AddEdge).  All three goroutines       *)
(* append to the same error accumulator without synchronisation: with      *)
(* SplitAppend the append is modelled as read-then-write.                  *)
(* Checked against BulkAbs!Outcome for the single graph StreamBatch is     *)
(* given (elements naming another graph are reported and skipped).         *)
EXTENDS BulkAbs

CONSTANTS MaxLen, Alpha, BatchSizes,
          FailIds,       \* ids for which the sink reports an error (the batch is then not applied)
          SplitAppend    \* TRUE: model the unsynchronised append as read / write

Graph == "g1"
NONE == [full |-> FALSE, b |-> <<>>]
Full(b) == [full |-> TRUE, b |-> b]

VARIABLES stream, bsz, phase, j, vb, eb, vslot, eslot, st, errs, appends, mpc, mtmp, wpc, wtmp
vars == <<stream, bsz, phase, j, vb, eb, vslot, eslot, st, errs, appends, mpc, mtmp, wpc, wtmp>>

Alph == CASE Alpha = "safe" -> SafeAlphabet [] Alpha = "mini" -> MiniAlphabet [] OTHER -> Alphabet
Workers == {"v", "e"}

Init == /\ stream = <<>> /\ bsz \in BatchSizes /\ phase = "gen" /\ j = 1 /\ vb = <<>> /\ eb = <<>>
        /\ vslot = NONE /\ eslot = NONE /\ st = InitStore /\ errs = 0 /\ appends = 0
        /\ mpc = "next" /\ mtmp = 0 /\ wpc = [w \in Workers |-> "idle"] /\ wtmp = [w \in Workers |-> 0]

Gen == /\ phase = "gen" /\ Len(stream) < MaxLen /\ \E el \in Alph : stream' = Append(stream, el)
       /\ UNCHANGED <<bsz, phase, j, vb, eb, vslot, eslot, st, errs, appends, mpc, mtmp, wpc, wtmp>>
Start == /\ phase = "gen" /\ Len(stream) > 0 /\ phase' = "run"
         /\ UNCHANGED <<stream, bsz, j, vb, eb, vslot, eslot, st, errs, appends, mpc, mtmp, wpc, wtmp>>

\* main goroutine reports an error
MainErr == IF SplitAppend THEN /\ mtmp' = errs /\ mpc' = "write" /\ UNCHANGED <<errs, appends>>
                          ELSE /\ errs' = errs + 1 /\ appends' = appends + 1 /\ UNCHANGED <<mtmp, mpc>>
MainWrite == /\ phase = "run" /\ mpc = "write" /\ errs' = mtmp + 1 /\ appends' = appends + 1 /\ mpc' = "next"
             /\ UNCHANGED <<stream, bsz, phase, j, vb, eb, vslot, eslot, st, mtmp, wpc, wtmp>>

Take ==
  /\ phase = "run" /\ mpc = "next" /\ j <= Len(stream)
  /\ LET el == stream[j] IN
       IF el.g # Graph THEN /\ MainErr /\ j' = j + 1 /\ UNCHANGED <<vb, eb, vslot, eslot>>
       ELSE IF el.k = "v" THEN
            IF Len(vb) >= bsz THEN /\ vslot = NONE /\ vslot' = Full(vb) /\ vb' = <<>> /\ UNCHANGED <<j, eb, eslot, errs, appends, mpc, mtmp>>
            ELSE IF ValidEl(el) THEN /\ vb' = Append(vb, el) /\ j' = j + 1 /\ UNCHANGED <<eb, vslot, eslot, errs, appends, mpc, mtmp>>
            ELSE /\ MainErr /\ j' = j + 1 /\ UNCHANGED <<vb, eb, vslot, eslot>>
       ELSE IF el.k = "e" THEN
            IF Len(eb) >= bsz THEN /\ eslot = NONE /\ eslot' = Full(eb) /\ eb' = <<>> /\ UNCHANGED <<j, vb, vslot, errs, appends, mpc, mtmp>>
            ELSE IF ValidEl(el) THEN /\ eb' = Append(eb, el) /\ j' = j + 1 /\ UNCHANGED <<vb, vslot, eslot, errs, appends, mpc, mtmp>>
            ELSE /\ MainErr /\ j' = j + 1 /\ UNCHANGED <<vb, eb, vslot, eslot>>
       ELSE /\ j' = j + 1 /\ UNCHANGED <<vb, eb, vslot, eslot, errs, appends, mpc, mtmp>>
  /\ UNCHANGED <<stream, bsz, phase, st, wpc, wtmp>>

FinalV == /\ phase = "run" /\ mpc = "next" /\ j > Len(stream) /\ vslot = NONE /\ vslot' = Full(vb) /\ vb' = <<>> /\ mpc' = "finalE"
          /\ UNCHANGED <<stream, bsz, phase, j, eb, eslot, st, errs, appends, mtmp, wpc, wtmp>>
FinalE == /\ phase = "run" /\ mpc = "finalE" /\ eslot = NONE /\ eslot' = Full(eb) /\ eb' = <<>> /\ mpc' = "wait"
          /\ UNCHANGED <<stream, bsz, phase, j, vb, vslot, st, errs, appends, mtmp, wpc, wtmp>>
Return == /\ phase = "run" /\ mpc = "wait" /\ vslot = NONE /\ eslot = NONE /\ \A w \in Workers : wpc[w] = "idle"
          /\ phase' = "done"
          /\ UNCHANGED <<stream, bsz, j, vb, eb, vslot, eslot, st, errs, appends, mpc, mtmp, wpc, wtmp>>

SinkFails(batch) == \E n \in DOMAIN batch : batch[n].r.id \in FailIds
\* a worker receives a batch and calls the sink once
Work(w) ==
  /\ wpc[w] = "idle"
  /\ LET slot == IF w = "v" THEN vslot ELSE eslot IN
       /\ slot.full
       /\ IF Len(slot.b) > 0 /\ SinkFails(slot.b)
          THEN /\ st' = st
               /\ IF SplitAppend THEN /\ wtmp' = [wtmp EXCEPT ![w] = errs] /\ wpc' = [wpc EXCEPT ![w] = "write"] /\ UNCHANGED <<errs, appends>>
                                 ELSE /\ errs' = errs + 1 /\ appends' = appends + 1 /\ UNCHANGED <<wpc, wtmp>>
          ELSE /\ st' = FoldLeft(LAMBDA s, el : AddOne(s, el), st, slot.b) /\ UNCHANGED <<errs, appends, wpc, wtmp>>
  /\ IF w = "v" THEN vslot' = NONE /\ UNCHANGED eslot ELSE eslot' = NONE /\ UNCHANGED vslot
  /\ UNCHANGED <<stream, bsz, phase, j, vb, eb, mpc, mtmp>>
WorkWrite(w) == /\ wpc[w] = "write" /\ errs' = wtmp[w] + 1 /\ appends' = appends + 1 /\ wpc' = [wpc EXCEPT ![w] = "idle"]
                /\ UNCHANGED <<stream, bsz, phase, j, vb, eb, vslot, eslot, st, mpc, mtmp, wtmp>>

Next == Gen \/ Start \/ Take \/ MainWrite \/ FinalV \/ FinalE \/ Return \/ \E w \in Workers : Work(w) \/ WorkWrite(w)
Spec == Init /\ [][Next]_vars

------------------------------------------------------------------------
Abs == Outcome(InitStore, {Graph}, stream)
Foreign == Cardinality({n \in DOMAIN stream : stream[n].g # Graph})
\* refinement (meaningful when the sink never fails): the graph ends as the one-by-one load of its valid
\* elements, nothing else changes, and every invalid or foreign element has been reported
Refines == (phase = "done" /\ FailIds = {}) => (st = Abs.store /\ errs >= Abs.errLow + Foreign)
\* the unsynchronised accumulator: every reported error is still in the accumulator at the end
NoLostError == phase = "done" => errs = appends
EmitLost == (phase = "done" /\ errs # appends) => Emit("lost", [stream |-> stream, batch |-> bsz, errs |-> errs, appends |-> appends])
=======================================================================
