CONSTANTS
 MaxLen = 3
 Alpha = "all"
 BatchSizes = {1, 2, 3}
 FailIds = {}
 SplitAppend = FALSE
SPECIFICATION Spec
INVARIANT Refines
CHECK_DEADLOCK FALSE
