CONSTANTS
 MaxLen = 4
 Alpha = "all"
 ScaleTo = {}
 OnlyFull = TRUE
SPECIFICATION Spec
INVARIANT AbsSane
INVARIANT EmitStream
CHECK_DEADLOCK FALSE
