CONSTANTS
 MaxLen = 2
 Alpha = "all"
 Variant = "pinned"
 Pols = {"all", "g1", "g2"}
SPECIFICATION Spec
INVARIANT EmitPrediction
CHECK_DEADLOCK FALSE
