----------------------------- MODULE BulkAbs -----------------------------
(* C18, abstract (property-level) clause: what a bulk load of a stream of  *)
(* graph elements means.  Constant-level module: no variables.             *)
(*                                                                         *)
(*   Result(s0, W, stream)  = the GraphStore state after adding, one at a  *)
(*       time and in stream order, exactly the elements that are valid,    *)
(*       name an existing graph the caller may write (W) and are vertices  *)
(*       or edges;                                                         *)
(*   InsertCount            = the number of those elements;                *)
(*   ErrLow                 = the number of vertices/edges addressed to a  *)
(*       writable existing graph that fail validation: the reported error  *)
(*       count must be AT LEAST this.                                      *)
(*                                                                         *)
(* Decisions on what the property text leaves open (documented in the      *)
(* evidence file): an element naming a graph that does not exist, or a     *)
(* schema-suffixed graph, is not stored and not counted as inserted;       *)
(* whether it is counted as an error is open.  An element carrying neither *)
(* a vertex nor an edge is not counted as inserted; whether it is counted  *)
(* as an error is open.  Elements the policy denies are not stored and not *)
(* counted as inserted; nothing is promised about the error count for      *)
(* them.  The error count has no upper bound in the property.              *)
(*                                                                         *)
(* PutV/PutE/validity are those of spec/store/GraphStore.tla (C03).        *)
EXTENDS Values, SequencesExt

D0 == EmptyMap
D1 == M([x |-> N(1)])
VIds == {"a", "b"}

VRec(id, l, d)       == [id |-> id, label |-> l, data |-> d]
ERec(id, l, f, t, d) == [id |-> id, label |-> l, from |-> f, to |-> t, data |-> d]
EmptyG == [V |-> <<>>, E |-> <<>>]

BadKeys == {"_gid", "_label", "_to", "_from", "_data", "a b", "_x"}
ValidV(v) == v.id # "" /\ v.label # "" /\ (DOMAIN v.data[2]) \cap BadKeys = {}
ValidE(e) == e.id # "" /\ e.label # "" /\ e.from # "" /\ e.to # "" /\ (DOMAIN e.data[2]) \cap BadKeys = {}

PutV(G, v) == [G EXCEPT !.V = [i \in DOMAIN G.V \cup {v.id} |->
                  IF i = v.id THEN [label |-> v.label, data |-> v.data] ELSE G.V[i]]]
PutE(G, e) == [G EXCEPT !.E = [i \in DOMAIN G.E \cup {e.id} |->
                  IF i = e.id THEN [label |-> e.label, from |-> e.from, to |-> e.to, data |-> e.data] ELSE G.E[i]]]
SetG(s, g, G) == [n \in DOMAIN s \cup {g} |-> IF n = g THEN G ELSE s[n]]

------------------------------------------------------------------------
(* the universe: graphs g1 and g2 exist (g1 already holds a vertex), g3    *)
(* and the empty name do not, g1__schema__ is a schema-suffixed name       *)
Existing    == {"g1", "g2"}
SchemaNames == {"g1__schema__"}
InitStore == [g \in Existing |->
                IF g = "g1" THEN [V |-> [i \in {"b"} |-> [label |-> "L2", data |-> D1]], E |-> <<>>] ELSE EmptyG]

El(g, k, r) == [g |-> g, k |-> k, r |-> r]
None == [id |-> ""]      \* payload of an element that carries neither a vertex nor an edge

ValidEl(el) == CASE el.k = "v" -> ValidV(el.r) [] el.k = "e" -> ValidE(el.r) [] OTHER -> FALSE

Addressable(s, W, el) == el.g \in DOMAIN s /\ el.g \in W /\ el.g \notin SchemaNames
Storable(s, W, el)    == Addressable(s, W, el) /\ el.k \in {"v", "e"} /\ ValidEl(el)
Rejected(s, W, el)    == Addressable(s, W, el) /\ el.k \in {"v", "e"} /\ ~ValidEl(el)

AddOne(s, el) == SetG(s, el.g, IF el.k = "v" THEN PutV(s[el.g], el.r) ELSE PutE(s[el.g], el.r))

Result(s0, W, stream) ==
  LET step(s, el) == IF Storable(s0, W, el) THEN AddOne(s, el) ELSE s     \* a load never changes which graphs exist
  IN FoldLeft(step, s0, stream)
InsertCount(s0, W, stream) == Cardinality({i \in DOMAIN stream : Storable(s0, W, stream[i])})
ErrLow(s0, W, stream)      == Cardinality({i \in DOMAIN stream : Rejected(s0, W, stream[i])})

Outcome(s0, W, stream) == [store |-> Result(s0, W, stream), ins |-> InsertCount(s0, W, stream), errLow |-> ErrLow(s0, W, stream)]

------------------------------------------------------------------------
(* the element alphabet: {g1, g2, missing graph, empty name, schema-       *)
(* suffixed name} x {vertex, edge, neither} x {valid, invalid}, with       *)
(* repeated ids (a twice with other data; e1 twice with other endpoints).  *)
(* Labels of a repeated id stay the same: re-labelling an existing element *)
(* is the subject of C03 (known finding there) and is kept out of C18.     *)
G1Elems == { El("g1", "v", VRec("a", "L1", D0)), El("g1", "v", VRec("a", "L1", D1)), El("g1", "v", VRec("b", "L2", D0)),
             El("g1", "v", VRec("", "L1", D0)),
             El("g1", "v", VRec("a", "L1", M([k \in {"_gid"} |-> N(1)]))),
             El("g1", "e", ERec("e1", "K1", "a", "b", D0)), El("g1", "e", ERec("e1", "K1", "b", "a", D1)),
             El("g1", "e", ERec("e1", "", "a", "b", D0)), El("g1", "e", ERec("e1", "K1", "", "b", D1)),
             El("g1", "n", None) }
G2Elems == { El("g2", "v", VRec("a", "L1", D1)), El("g2", "e", ERec("e1", "K1", "a", "a", D0)),
             El("g2", "v", VRec("a", "", D0)) }
MissingElems == { El("g3", "v", VRec("a", "L1", D0)), El("g3", "v", VRec("", "L1", D0)), El("g3", "n", None),
                  El("", "v", VRec("a", "L1", D0)) }
SchemaElems == { El("g1__schema__", "v", VRec("a", "L1", D0)) }
Alphabet == G1Elems \cup G2Elems \cup MissingElems \cup SchemaElems
\* the part of the alphabet on which even the pinned server loop is expected to work
SafeAlphabet == G1Elems \cup G2Elems \cup SchemaElems
\* three elements that suffice for the schedule-dependent behaviours (same id twice in g1, g2 in between)
MiniAlphabet == { El("g1", "v", VRec("a", "L1", D0)), El("g1", "v", VRec("a", "L1", D1)), El("g2", "v", VRec("a", "L1", D1)) }

\* re-labelling inside one load: the same id under three labels (since the label index of a re-labelled
\* element was repaired in kvgraph this is no longer kept out of C18)
RelabelAlphabet == { El("g1", "v", VRec("a", "L1", D0)), El("g1", "v", VRec("a", "L2", D0)), El("g1", "v", VRec("a", "L3", D1)),
                     El("g1", "v", VRec("b", "L1", D0)), El("g2", "v", VRec("a", "L1", D1)) }

\* what the caller may write: everything (no accounts configured), or the policy grants one graph only
AllGraphs == Existing \cup {"g3", "", "g1__schema__"}
Policies == [all |-> AllGraphs, g1 |-> {"g1", "g3"}, g2 |-> {"g2"}]

------------------------------------------------------------------------
(* scaled streams: the stream repeated cyclically up to length n; the r-th *)
(* repetition renames every id x to x#r, so that every position of the     *)
(* scaled stream leaves its own trace in the result                        *)
Sfx(id, r) == IF r = 0 \/ id = "" THEN id ELSE id \o "#" \o ToString(r)
ScaleRec(k, rec, r) ==
  CASE k = "v" -> [rec EXCEPT !.id = Sfx(rec.id, r)]
    [] k = "e" -> [rec EXCEPT !.id = Sfx(rec.id, r), !.from = Sfx(rec.from, r), !.to = Sfx(rec.to, r)]
    [] OTHER -> rec
Scale(stream, n) == [j \in 1..n |-> LET el == stream[((j - 1) % Len(stream)) + 1]
                                        r  == (j - 1) \div Len(stream)
                                    IN El(el.g, el.k, ScaleRec(el.k, el.r, r))]

------------------------------------------------------------------------
(* observations (as GraphStore.tla): everything the property calls         *)
(* observable about a graph                                                *)
LabelOK(ls, l) == ls = <<>> \/ l \in SeqToSet(ls)
LabelOpts == << <<>>, <<"K1">>, <<"K1", "K2">>, <<"X">> >>
OutE(G, v, ls) == {e \in DOMAIN G.E : G.E[e].from = v /\ LabelOK(ls, G.E[e].label)}
InE(G, v, ls)  == {e \in DOMAIN G.E : G.E[e].to = v /\ LabelOK(ls, G.E[e].label)}
OutV(G, v, ls) == {<<e, G.E[e].to>> : e \in {x \in OutE(G, v, ls) : G.E[x].to \in DOMAIN G.V}}
InV(G, v, ls)  == {<<e, G.E[e].from>> : e \in {x \in InE(G, v, ls) : G.E[x].from \in DOMAIN G.V}}
ObsG(G) ==
  [V |-> G.V, E |-> G.E,
   vlabels |-> {G.V[i].label : i \in DOMAIN G.V},
   elabels |-> {G.E[i].label : i \in DOMAIN G.E},
   byLabel |-> [l \in {"L1", "L2", "L3", "X"} |-> {i \in DOMAIN G.V : G.V[i].label = l}],
   adj |-> [v \in VIds |-> [o \in DOMAIN LabelOpts |->
              [outE |-> OutE(G, v, LabelOpts[o]), inE |-> InE(G, v, LabelOpts[o]),
               out |-> OutV(G, v, LabelOpts[o]), in |-> InV(G, v, LabelOpts[o])]]]]
Obs(s) == [g \in DOMAIN s |-> ObsG(s[g])]
=======================================================================
