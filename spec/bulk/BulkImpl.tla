----------------------------- MODULE BulkImpl -----------------------------
(* C18, implementation-shaped clause: the stream loop of                   *)
(* server/api.go:BulkAdd as a state machine, checked against the abstract  *)
(* clause BulkAbs!Outcome.                                                 *)
(*                                                                         *)
(*   main loop   Recv -> (schema name? count an error) -> SwitchGraph      *)
(*               (close the current element channel, look the graph up,    *)
(*               make a new channel, spawn a consumer goroutine running     *)
(*               graph.BulkAdd(elementStream)) -> Validate -> Forward;      *)
(*               EOF: close, wait for all consumers.                       *)
(*   consumers   one goroutine per switch.  kvgraph.BulkAdd drains the     *)
(*               channel it was given inside ONE bulk write that is        *)
(*               flushed when the channel is closed (Commit) and writes    *)
(*               every element into ITS graph, whatever the element names. *)
(*   filter      accounts.BulkWriteFilter drops the elements the policy    *)
(*               denies before the loop sees them (Visible).               *)
(*                                                                         *)
(* Variant = "pinned" - the loop as in the pinned tree:                    *)
(*    - the channel variable is closed at every switch even if the lookup  *)
(*      then fails ("close of a closed channel" / "send on a closed        *)
(*      channel" are explicit fail states);                                *)
(*    - the first channel is made before the loop and nobody reads it      *)
(*      (`orphans`);                                                       *)
(*    - the goroutine closure reads the loop's channel VARIABLE when it    *)
(*      starts (Start), not when it is spawned: a consumer that starts     *)
(*      late drains a later graph's channel;                               *)
(*    - the loop waits for the consumers only at EOF: two consumers of one *)
(*      graph may commit in either order.                                  *)
(* Variant = "waits" - the repaired loop: no channel while there is no     *)
(*    open graph (every element addressed to a graph that cannot be opened *)
(*    is counted as an error), the channel is handed to the goroutine as   *)
(*    an argument, a switch waits for the consumer of the channel it       *)
(*    closed.                                                              *)
(* A finished pinned run that disagrees with the abstract clause is a      *)
(* PREDICTION about the code (EmitPrediction); the verdict comes from      *)
(* replaying the stream on the real server (harness/bulk), where the       *)
(* schedule classes "commit order" and "late start" can be imposed.        *)
EXTENDS BulkAbs

CONSTANTS MaxLen, Alpha, Variant,
          Pols      \* the policies explored (subset of DOMAIN Policies)

VARIABLES stream,   \* the generated client stream
          pol,      \* name of the policy in force
          phase,    \* "gen" | "run" | "wait" | "done"
          i,        \* next element of Visible to receive
          gname,    \* the loop's graphName
          started,  \* repaired loop: an element has been seen
          chans,    \* every channel made so far: [q, closed]
          cur,      \* the channel the loop's variable refers to (0 = nil)
          cons,     \* consumers: [g, bound (channel it drains, 0 = goroutine not started yet), done]
          st,       \* the store
          ins, errs, orphans, fail,
          sched     \* history: starts and commits in the order they happened
vars == <<stream, pol, phase, i, gname, started, chans, cur, cons, st, ins, errs, orphans, fail, sched>>

Pinned == Variant = "pinned"
Alph == CASE Alpha = "safe" -> SafeAlphabet [] Alpha = "mini" -> MiniAlphabet [] OTHER -> Alphabet
W == Policies[pol]
Visible == SelectSeq(stream, LAMBDA el : el.g \in W)
NewChan == [q |-> <<>>, closed |-> FALSE]

Init == /\ stream = <<>> /\ pol \in Pols /\ phase = "gen" /\ i = 1 /\ gname = "" /\ started = FALSE
        /\ chans = IF Pinned THEN <<NewChan>> ELSE <<>>
        /\ cur = IF Pinned THEN 1 ELSE 0
        /\ cons = <<>> /\ st = InitStore /\ ins = 0 /\ errs = 0 /\ orphans = 0 /\ fail = "" /\ sched = <<>>

Gen == /\ phase = "gen" /\ Len(stream) < MaxLen
       /\ \E el \in Alph : stream' = Append(stream, el)
       /\ UNCHANGED <<pol, phase, i, gname, started, chans, cur, cons, st, ins, errs, orphans, fail, sched>>
Start == /\ phase = "gen" /\ Len(stream) > 0 /\ phase' = "run"
         /\ UNCHANGED <<stream, pol, i, gname, started, chans, cur, cons, st, ins, errs, orphans, fail, sched>>

AllDone == \A k \in DOMAIN cons : cons[k].done
Closed(c) == c # 0 /\ chans[c].closed
CloseOf(cs, c) == IF c = 0 THEN cs ELSE [cs EXCEPT ![c].closed = TRUE]

\* Validate + Forward of element el into channel c of the channel list cs
Forward(el, c, cs) ==
  IF el.k \notin {"v", "e"} THEN /\ UNCHANGED <<ins, errs, orphans, fail>> /\ chans' = cs
  ELSE IF ~ValidEl(el) THEN /\ errs' = errs + 1 /\ UNCHANGED <<ins, orphans, fail>> /\ chans' = cs
  ELSE IF cs[c].closed THEN /\ ins' = ins + 1 /\ fail' = "send on closed channel" /\ chans' = cs /\ UNCHANGED <<errs, orphans>>
  ELSE /\ ins' = ins + 1 /\ chans' = [cs EXCEPT ![c].q = Append(@, el)] /\ UNCHANGED <<errs, fail>>
       /\ orphans' = IF Pinned /\ c = 1 THEN orphans + 1 ELSE orphans     \* nobody ever reads the first channel

RecvPinned(el) ==
  IF el.g # gname
  THEN IF Closed(cur)
       THEN /\ fail' = "close of closed channel"
            /\ UNCHANGED <<i, gname, started, chans, cur, cons, ins, errs, orphans>>
       ELSE IF el.g \notin DOMAIN st
            THEN /\ errs' = errs + 1 /\ chans' = CloseOf(chans, cur) /\ i' = i + 1
                 /\ UNCHANGED <<gname, started, cur, cons, ins, orphans, fail>>
            ELSE /\ gname' = el.g /\ cur' = Len(chans) + 1 /\ i' = i + 1
                 /\ cons' = Append(cons, [g |-> el.g, bound |-> 0, done |-> FALSE])
                 /\ Forward(el, Len(chans) + 1, Append(CloseOf(chans, cur), NewChan))
                 /\ UNCHANGED started
  ELSE /\ i' = i + 1 /\ Forward(el, cur, chans) /\ UNCHANGED <<gname, started, cur, cons>>

RecvWaits(el) ==
  IF ~started \/ el.g # gname
  THEN /\ AllDone                         \* closeStream(): close, then wait for the consumer (CloseForSwitch + Commit)
       /\ (cur # 0 => chans[cur].closed)
       /\ started' = TRUE /\ gname' = el.g /\ i' = i + 1
       /\ IF el.g \notin DOMAIN st
          THEN /\ cur' = 0 /\ errs' = errs + 1 /\ UNCHANGED <<chans, cons, ins, orphans, fail>>
          ELSE /\ cur' = Len(chans) + 1
               /\ cons' = Append(cons, [g |-> el.g, bound |-> Len(chans) + 1, done |-> FALSE])   \* channel passed as argument
               /\ Forward(el, Len(chans) + 1, Append(chans, NewChan))
  ELSE IF cur = 0
       THEN /\ errs' = errs + 1 /\ i' = i + 1 /\ UNCHANGED <<gname, started, chans, cur, cons, ins, orphans, fail>>
       ELSE /\ i' = i + 1 /\ Forward(el, cur, chans) /\ UNCHANGED <<gname, started, cur, cons>>

Recv ==
  /\ phase = "run" /\ fail = "" /\ i <= Len(Visible)
  /\ LET el == Visible[i] IN
       IF el.g \in SchemaNames
       THEN /\ errs' = errs + 1 /\ i' = i + 1 /\ UNCHANGED <<gname, started, chans, cur, cons, ins, orphans, fail>>
       ELSE IF Pinned THEN RecvPinned(el) ELSE RecvWaits(el)
  /\ UNCHANGED <<stream, pol, phase, st, sched>>

\* repaired loop: the close that precedes the wait at a switch
CloseForSwitch ==
  /\ ~Pinned /\ phase = "run" /\ fail = "" /\ i <= Len(Visible) /\ cur # 0 /\ ~chans[cur].closed
  /\ Visible[i].g # gname /\ Visible[i].g \notin SchemaNames
  /\ chans' = CloseOf(chans, cur)
  /\ UNCHANGED <<stream, pol, phase, i, gname, started, cur, cons, st, ins, errs, orphans, fail, sched>>

EOF ==
  /\ phase = "run" /\ fail = "" /\ i > Len(Visible)
  /\ IF Closed(cur)
     THEN /\ fail' = "close of closed channel" /\ UNCHANGED <<phase, chans>>
     ELSE /\ chans' = CloseOf(chans, cur) /\ phase' = "wait" /\ UNCHANGED fail
  /\ UNCHANGED <<stream, pol, i, gname, started, cur, cons, st, ins, errs, orphans, sched>>

\* pinned: the goroutine starts running and only now reads the channel variable
StartConsumer(k) ==
  /\ Pinned /\ cons[k].bound = 0 /\ fail = ""
  /\ cons' = [cons EXCEPT ![k].bound = cur]
  /\ sched' = Append(sched, <<"start", k, cur>>)
  /\ UNCHANGED <<stream, pol, phase, i, gname, started, chans, cur, st, ins, errs, orphans, fail>>

\* kvgraph.BulkAdd: whatever is in the channel is written into the consumer's graph by one bulk write
Commit(k) ==
  /\ fail = "" /\ cons[k].bound # 0 /\ ~cons[k].done /\ chans[cons[k].bound].closed
  /\ st' = FoldLeft(LAMBDA s, el : AddOne(s, [el EXCEPT !.g = cons[k].g]), st, chans[cons[k].bound].q)
  /\ chans' = [chans EXCEPT ![cons[k].bound].q = <<>>]
  /\ cons' = [cons EXCEPT ![k].done = TRUE]
  /\ sched' = Append(sched, <<"commit", k, cons[k].bound>>)
  /\ UNCHANGED <<stream, pol, phase, i, gname, started, cur, ins, errs, orphans, fail>>

Return == /\ phase = "wait" /\ AllDone /\ phase' = "done"
          /\ UNCHANGED <<stream, pol, i, gname, started, chans, cur, cons, st, ins, errs, orphans, fail, sched>>

Next == Gen \/ Start \/ Recv \/ CloseForSwitch \/ EOF \/ Return \/ \E k \in DOMAIN cons : StartConsumer(k) \/ Commit(k)
Spec == Init /\ [][Next]_vars

------------------------------------------------------------------------
Abs == Outcome(InitStore, W, stream)
Finished == phase = "done" \/ fail # ""
\* pinned: consumer k was spawned for channel k + 1
LateStart == \E k \in DOMAIN cons : cons[k].bound # 0 /\ cons[k].bound # (IF Pinned THEN k + 1 ELSE k)

\* what kind of disagreement with the abstract clause a finished run shows
Disagreement ==
  IF fail # "" THEN fail
  ELSE IF orphans > 0 THEN "element counted as inserted but sent to a channel nobody reads"
  ELSE IF st # Abs.store /\ LateStart THEN "store differs (a consumer that started late drained another graph's channel)"
  ELSE IF st # Abs.store THEN "store differs (commit order of two consumers of one graph)"
  ELSE IF ins # Abs.ins THEN "insert count differs"
  ELSE IF errs < Abs.errLow THEN "error count too small"
  ELSE ""

\* the refinement claim
Refines == Finished => Disagreement = ""
\* never a violation: prints one line per finished run that disagrees (a prediction for the replayer)
EmitPrediction ==
  (Finished /\ Disagreement # "") =>
     Emit("pred", [stream |-> stream, pol |-> pol, kind |-> Disagreement,
                   consumers |-> [k \in DOMAIN cons |-> cons[k].g], sched |-> sched])
=======================================================================
