----------------------------- MODULE BulkImpl -----------------------------
(* C18, implementation-shaped clause: the stream loop of                   *)
(* server/api.go:BulkAdd as a state machine, checked against the abstract  *)
(* clause BulkAbs!Outcome.                                                 *)
(*                                                                         *)
(*   main loop   Recv -> (schema name? count an error) -> SwitchGraph      *)
(*               (close the current element channel, look the graph up,    *)
(*               open a channel, spawn a consumer goroutine running        *)
(*               graph.BulkAdd) -> Validate -> Forward; EOF: close, wait.  *)
(*   consumers   one goroutine per opened channel; kvgraph.BulkAdd reads    *)
(*               its channel inside ONE bulk write, which is flushed when  *)
(*               the channel is closed (Commit); the main loop only waits  *)
(*               for the consumers at EOF.                                 *)
(*   filter      accounts.BulkWriteFilter drops the elements the policy    *)
(*               denies before the loop sees them (Visible).               *)
(*                                                                         *)
(* "close of a closed channel", "send on a closed channel" are explicit    *)
(* error states (fail); an element sent into the initial channel, which    *)
(* has no consumer, is counted in `orphans`.                               *)
(*                                                                         *)
(* Variant = "pinned": the loop as in the pinned tree.                     *)
(* Variant = "waits":  the repaired loop - a switch waits for the consumer *)
(*    of the channel it closed; a graph that cannot be opened leaves NO    *)
(*    channel (every element addressed to it is counted as an error).      *)
(* A violated Refines on the pinned variant is a PREDICTION about the      *)
(* code; the verdict comes from replaying the witness stream on the real   *)
(* server (harness/bulk).                                                  *)
EXTENDS BulkAbs

CONSTANTS MaxLen, Alpha, Variant

VARIABLES stream,   \* the generated client stream
          pol,      \* name of the policy in force
          phase,    \* "gen" | "run" | "wait" | "done"
          i,        \* next element of Visible to receive
          gname,    \* the loop's graphName
          ch,       \* state of elementStream: "init" (open, nobody reads it) | "open" | "closed" | "none"
          cons,     \* consumers: sequence of [g, q, closed, done]
          st,       \* the store
          ins, errs, orphans, fail,
          ord       \* history: the order in which the consumers committed
vars == <<stream, pol, phase, i, gname, ch, cons, st, ins, errs, orphans, fail, ord>>

Alph == IF Alpha = "safe" THEN SafeAlphabet ELSE Alphabet
W == Policies[pol]
Visible == SelectSeq(stream, LAMBDA el : el.g \in W)

Init == /\ stream = <<>> /\ pol \in DOMAIN Policies /\ phase = "gen" /\ i = 1 /\ gname = "" /\ ch = "init"
        /\ cons = <<>> /\ st = InitStore /\ ins = 0 /\ errs = 0 /\ orphans = 0 /\ fail = "" /\ ord = <<>>

Gen == /\ phase = "gen" /\ Len(stream) < MaxLen
       /\ \E el \in Alph : stream' = Append(stream, el)
       /\ UNCHANGED <<pol, phase, i, gname, ch, cons, st, ins, errs, orphans, fail, ord>>
Start == /\ phase = "gen" /\ Len(stream) > 0 /\ phase' = "run"
         /\ UNCHANGED <<stream, pol, i, gname, ch, cons, st, ins, errs, orphans, fail, ord>>

AllDone == \A k \in DOMAIN cons : cons[k].done
CloseCur(cs) == IF ch = "open" THEN [cs EXCEPT ![Len(cs)].closed = TRUE] ELSE cs

\* Validate + Forward of element el on channel state c with consumers cs
Forward(el, c, cs) ==
  IF el.k \notin {"v", "e"} THEN /\ UNCHANGED <<ins, errs, orphans, fail>> /\ cons' = cs
  ELSE IF ~ValidEl(el) THEN /\ errs' = errs + 1 /\ UNCHANGED <<ins, orphans, fail>> /\ cons' = cs
  ELSE CASE c = "open"   -> /\ ins' = ins + 1 /\ cons' = [cs EXCEPT ![Len(cs)].q = Append(@, el)] /\ UNCHANGED <<errs, orphans, fail>>
         [] c = "init"   -> /\ ins' = ins + 1 /\ orphans' = orphans + 1 /\ cons' = cs /\ UNCHANGED <<errs, fail>>
         [] c = "closed" -> /\ ins' = ins + 1 /\ fail' = "send on closed channel" /\ cons' = cs /\ UNCHANGED <<errs, orphans>>
         [] c = "none"   -> /\ errs' = errs + 1 /\ cons' = cs /\ UNCHANGED <<ins, orphans, fail>>

Recv ==
  /\ phase = "run" /\ fail = "" /\ i <= Len(Visible)
  /\ LET el == Visible[i] IN
       IF el.g \in SchemaNames
       THEN /\ errs' = errs + 1 /\ i' = i + 1 /\ UNCHANGED <<stream, pol, phase, gname, ch, cons, st, ins, orphans, fail, ord>>
       ELSE IF el.g # gname \/ (Variant = "waits" /\ ch = "init")
       THEN \* SwitchGraph
            IF ch = "closed"
            THEN /\ fail' = "close of closed channel" /\ UNCHANGED <<stream, pol, phase, i, gname, ch, cons, st, ins, errs, orphans, ord>>
            ELSE /\ (Variant = "waits" => AllDone)        \* the repaired loop waits for the consumer it closed
                 /\ IF el.g \notin DOMAIN st
                    THEN /\ errs' = errs + 1 /\ cons' = CloseCur(cons) /\ i' = i + 1
                         /\ ch' = IF Variant = "waits" THEN "none" ELSE "closed"
                         /\ gname' = IF Variant = "waits" THEN el.g ELSE gname
                         /\ UNCHANGED <<stream, pol, phase, st, ins, orphans, fail, ord>>
                    ELSE /\ gname' = el.g /\ ch' = "open" /\ i' = i + 1
                         /\ Forward(el, "open", Append(CloseCur(cons), [g |-> el.g, q |-> <<>>, closed |-> FALSE, done |-> FALSE]))
                         /\ UNCHANGED <<stream, pol, phase, st, ord>>
       ELSE /\ i' = i + 1 /\ Forward(el, ch, cons) /\ UNCHANGED <<stream, pol, phase, gname, ch, st, ord>>

\* in the repaired loop the close at a switch is followed by wg.Wait(): model the close as its own step
CloseForSwitch ==
  /\ Variant = "waits" /\ phase = "run" /\ fail = "" /\ i <= Len(Visible) /\ ch = "open" /\ ~AllDone
  /\ Visible[i].g # gname /\ Visible[i].g \notin SchemaNames
  /\ ~cons[Len(cons)].closed
  /\ cons' = CloseCur(cons)
  /\ UNCHANGED <<stream, pol, phase, i, gname, ch, st, ins, errs, orphans, fail, ord>>

EOF ==
  /\ phase = "run" /\ fail = "" /\ i > Len(Visible)
  /\ IF ch = "closed"
     THEN /\ fail' = "close of closed channel" /\ UNCHANGED <<phase, cons, ch>>
     ELSE /\ cons' = CloseCur(cons) /\ phase' = "wait" /\ ch' = "closed" /\ UNCHANGED fail
  /\ UNCHANGED <<stream, pol, i, gname, st, ins, errs, orphans, ord>>

\* kvgraph.BulkAdd: the whole channel content is written by one bulk write, flushed after the close
Commit(k) ==
  /\ cons[k].closed /\ ~cons[k].done
  /\ st' = FoldLeft(LAMBDA s, el : AddOne(s, el), st, cons[k].q)
  /\ cons' = [cons EXCEPT ![k].done = TRUE] /\ ord' = Append(ord, k)
  /\ UNCHANGED <<stream, pol, phase, i, gname, ch, ins, errs, orphans, fail>>

Return == /\ phase = "wait" /\ AllDone /\ phase' = "done"
          /\ UNCHANGED <<stream, pol, i, gname, ch, cons, st, ins, errs, orphans, fail, ord>>

Next == Gen \/ Start \/ Recv \/ CloseForSwitch \/ EOF \/ Return \/ \E k \in DOMAIN cons : Commit(k)
Spec == Init /\ [][Next]_vars

------------------------------------------------------------------------
Abs == Outcome(InitStore, W, stream)
Finished == phase = "done" \/ fail # ""

\* what kind of disagreement with the abstract clause a finished run shows
Disagreement ==
  IF fail # "" THEN fail
  ELSE IF orphans > 0 THEN "element counted as inserted but sent to a channel nobody reads"
  ELSE IF st # Abs.store THEN "store differs (commit order of two consumers of one graph)"
  ELSE IF ins # Abs.ins THEN "insert count differs"
  ELSE IF errs < Abs.errLow THEN "error count too small"
  ELSE ""

\* the refinement claim
Refines == Finished => Disagreement = ""
\* never a violation: prints one line per finished run that disagrees (a prediction for the replayer)
EmitPrediction ==
  (Finished /\ Disagreement # "") =>
     Emit("pred", [stream |-> stream, pol |-> pol, kind |-> Disagreement,
                   consumers |-> [k \in DOMAIN cons |-> cons[k].g], order |-> ord])
EmitRun == Finished => Emit("run", [n |-> Len(stream), ok |-> Disagreement = ""])
=======================================================================
