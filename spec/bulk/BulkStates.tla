---------------------------- MODULE BulkStates ----------------------------
(* C18: every store reachable by adding valid alphabet elements one at a   *)
(* time (any stream length), printed with its observation - the table the  *)
(* replayer's observations are compared with.                              *)
EXTENDS BulkAbs
VARIABLES st
Init == st = InitStore
Next == \E el \in Alphabet \cup RelabelAlphabet : Storable(st, AllGraphs, el) /\ st' = AddOne(st, el)
Spec == Init /\ [][Next]_<<st>>
EmitObs == Emit("obs", [state |-> st, obs |-> Obs(st)])
=======================================================================
