CONSTANTS
 MaxLen = 3
 Alpha = "all"
 Variant = "waits"
 Pols = {"all", "g1", "g2"}
SPECIFICATION Spec
INVARIANT Refines
CHECK_DEADLOCK FALSE
