--------------------------- MODULE EditRequests ---------------------------
(* C06 clause (g), checked with the C18 family: edit and lookup requests   *)
(* that are valid on the wire but name graphs that do not exist, the empty *)
(* graph name or a schema-suffixed name, carry a GraphElement with neither *)
(* vertex nor edge (or the wrong one of the two), or elements without      *)
(* data.  The specification says one thing about them: the handler answers *)
(* (a result or an error) and the server is still up (`up` stays TRUE).    *)
(* TLC is the generator of the request space; harness/bulk sends each      *)
(* request to the in-process GripServer handlers.                          *)
EXTENDS BulkAbs

VARIABLES req, up
vars == <<req, up>>

Graphs == {"g1", "g3", "", "g1__schema__"}
\* payload shapes of a GraphElement
Shapes == {"vertex", "edge", "neither", "both", "vertex-nodata", "edge-nodata", "vertex-blank", "edge-blank"}
Ids == {"a", "zz", ""}

ElemReqs == { [op |-> op, g |-> g, shape |-> s] : op \in {"AddVertex", "AddEdge"}, g \in Graphs, s \in Shapes }
BulkReqs == { [op |-> "BulkAdd", elems |-> <<[g |-> g, shape |-> s]>>] : g \in Graphs, s \in Shapes }
             \cup { [op |-> "BulkAdd", elems |-> <<[g |-> g1, shape |-> s1], [g |-> g2, shape |-> s2]>>] :
                      g1 \in Graphs, g2 \in Graphs, s1 \in {"vertex", "neither", "edge-nodata"}, s2 \in {"vertex", "neither", "edge-nodata"} }
             \cup { [op |-> "BulkAdd", elems |-> <<>>] }
IdReqs == { [op |-> op, g |-> g, id |-> i] : op \in {"DeleteVertex", "DeleteEdge", "GetVertex", "GetEdge"}, g \in Graphs, i \in Ids }
IndexReqs == { [op |-> op, g |-> g, label |-> lf[1], field |-> lf[2]] :
                 op \in {"AddIndex", "DeleteIndex"}, g \in Graphs, lf \in {<<"L1", "x">>, <<"", "">>, <<"L1", "">>, <<"", "x">>} }
GraphReqs == { [op |-> op, g |-> g] : op \in {"Traversal", "TraversalEmpty", "ListIndices", "ListLabels", "GetTimestamp"}, g \in Graphs }
Requests == ElemReqs \cup BulkReqs \cup IdReqs \cup IndexReqs \cup GraphReqs

Init == req \in Requests /\ up = TRUE
Spec == Init /\ [][UNCHANGED vars]_vars      \* whatever the request, the server stays up

AlwaysUp == up = TRUE
EmitReq == Emit("req", req)
=======================================================================
