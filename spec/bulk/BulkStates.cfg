SPECIFICATION Spec
INVARIANT EmitObs
CHECK_DEADLOCK FALSE
