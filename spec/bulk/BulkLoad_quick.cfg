CONSTANTS
 MaxLen = 3
 Alpha = "all"
 ScaleTo = {}
 OnlyFull = FALSE
SPECIFICATION Spec
INVARIANT AbsSane
INVARIANT EmitStream
CHECK_DEADLOCK FALSE
