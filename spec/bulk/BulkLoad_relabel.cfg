CONSTANTS
 MaxLen = 4
 Alpha = "relabel"
 ScaleTo = {}
 OnlyFull = FALSE
SPECIFICATION Spec
INVARIANT AbsSane
INVARIANT EmitStream
CHECK_DEADLOCK FALSE
