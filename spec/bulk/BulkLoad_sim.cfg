CONSTANTS
 MaxLen = 5
 Alpha = "all"
 ScaleTo = {}
 OnlyFull = TRUE
SPECIFICATION Spec
INVARIANT AbsSane
INVARIANT EmitStream
CHECK_DEADLOCK FALSE
