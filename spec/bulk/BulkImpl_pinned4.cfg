CONSTANTS
 MaxLen = 4
 Alpha = "all"
 Variant = "pinned"
SPECIFICATION Spec
INVARIANT EmitPrediction
CHECK_DEADLOCK FALSE
