CONSTANTS
 MaxLen = 3
 Alpha = "mini"
 Variant = "pinned"
 Pols = {"all"}
SPECIFICATION Spec
INVARIANT EmitPrediction
CHECK_DEADLOCK FALSE
